//! C03 — client and backend always agree on request boundaries (no smuggling) (DESIGN §4 C03).
//!
//! Built so far: the HTTP/1.1 frontend -> HTTP/1.1 backend path, black box through a live worker; the HTTP/2
//! frontend -> HTTP/1.1 backend path is sub-check `h2smuggle` in `c03_h2.rs`.
//! Sub-checks: `clean` (in-process guard: the reference readers accept 100 % of a grammar-generated
//! clean corpus and of /repo/lib/assets/http-requests.txt), `cleanwire` (wire lab, clean pipelined
//! sequences: sozu's output must be accepted by the readers too), `smuggle` (wire lab, the mutator
//! catalogue). The reference readers are in `crate::model::http`.
//!
//! Known findings (reproducers /verif/regressions/C03/smuggle-known-*.json, `strict: true`; generated cases
//! leave the shapes out by construction and count them in `excluded_known`):
//! * `C03/no-length-request-swallows-following-bytes` — a request without Content-Length / Transfer-Encoding
//!   is parsed as BodySize::Empty and takes every following byte as body: pipelined requests reach the first
//!   request's backend unrouted and unstamped (generated: such a request gets `Content-Length: 0` unless last);
//! * `C03/unrecognised-transfer-encoding-forwarded` — Transfer-Encoding is matched by `ends_with("chunked")`
//!   per field, any other value is ignored yet forwarded verbatim (TE_KNOWN forms);
//! * `C03/backend-stream-not-rfc9112:content-length-value` (`+N`), `:te-in-http10`, `:method`,
//!   `:request-target`, `:field-name` (empty tokens, `"` and `/` in tokens).
//! Exploration aids: VP_C03_SURVEY=1 (tally failure signatures instead of stopping), VP_C03_NO_EXCLUSIONS=1.

use std::{
    cell::RefCell,
    collections::BTreeMap,
    io::{Read, Write},
    net::TcpStream,
    sync::{
        Arc, Mutex,
        atomic::{AtomicBool, Ordering},
    },
    time::{Duration, Instant},
};

use proptest::prelude::*;
use serde::{Deserialize, Serialize};

use crate::{
    engine::{self, Args, CaseReport, CheckResult, Evidence, Failure, Stats, pick_idx},
    lab::{
        self, LabConfig,
        h1::Acceptor,
        httplab::HttpLab,
        script::{self, WStep, WriteScript},
    },
    model::http::{self, Framing, Opts, Reading, Req, Tail},
};

// ------------------------------------------------------------------ case

pub const METHODS: &[&str] = &["GET", "POST", "PUT", "DELETE", "HEAD", "OPTIONS", "PATCH", "QUERY"];
const EXTRA_NAMES: &[&str] = &["Accept", "User-Agent", "X-Forwarded-For", "Forwarded", "Cookie", "X-Request-Id", "Connection", "Accept-Encoding", "X-Pad", "Content-Type", "TE", "X-Forwarded-Proto"];

#[derive(Clone, Debug, Serialize, Deserialize, PartialEq)]
pub enum Body {
    None,
    /// Content-Length framing, `len` bytes of letters (payload 0)
    Cl(usize),
    /// chunked framing: `len` bytes cut into chunks of the given sizes (cycled)
    Chunked(usize, Vec<usize>),
}

#[derive(Clone, Debug, Serialize, Deserialize)]
pub struct ReqSpec {
    pub method: u8,
    pub path: String,
    /// absolute-form target `http://<host>/path`
    pub absolute: bool,
    /// cluster whose host name the request carries
    pub host: u8,
    pub extra: Vec<(u8, String)>,
    pub body: Body,
    /// body content: 0 letters; 1 a complete embedded request; 2 `0 CRLF CRLF` followed by an embedded request
    pub payload: u8,
    /// the request line says HTTP/1.0 (never together with a chunked body: that is a mutator's job)
    #[serde(default)]
    pub http10: bool,
}

#[derive(Clone, Copy, Debug, Serialize, Deserialize, PartialEq)]
pub enum Sel {
    Framing,
    Host,
    Marker,
    Extra(u8),
}

#[derive(Clone, Debug, Serialize, Deserialize)]
pub enum Mut {
    /// add a Transfer-Encoding field (TE_FORMS[form]) to a request; `before`: ahead of the framing field
    AddTe { req: u32, form: u8, before: bool },
    /// add a(nother) Content-Length: delta 0 = same value, otherwise the value shifted by delta
    AddCl { req: u32, delta: i8, before: bool },
    /// rewrite the Content-Length value (CL_FORMS)
    ClForm { req: u32, form: u8 },
    /// rewrite the Transfer-Encoding value (TE_FORMS)
    TeForm { req: u32, form: u8 },
    /// Transfer-Encoding over two fields (TE_SPLITS)
    TeSplit { req: u32, form: u8 },
    WsColon { req: u32, sel: Sel, tab: bool },
    /// continuation line after the selected field: 0 part of its value, 1 a Content-Length, 2 a Transfer-Encoding
    ObsFold { req: u32, sel: Sel, cont: u8 },
    /// bare LF line ends: 0 every head line, 1 the selected field's line, 2 the blank line, 3 chunk lines
    BareLf { req: u32, which: u8, sel: Sel },
    /// bare CR inside the selected field's value followed by: 0 nothing, 1 a Content-Length, 2 a Transfer-Encoding
    BareCr { req: u32, sel: Sel, payload: u8 },
    BadByte { req: u32, sel: Sel, in_name: bool, byte: u8, pos: u32 },
    /// CHUNK_FORMS
    Chunk { req: u32, form: u8 },
    /// VERSION_FORMS
    Version { req: u32, form: u8 },
    /// HOST_FORMS
    Host { req: u32, form: u8 },
    /// REQLINE_FORMS
    ReqLine { req: u32, form: u8 },
    // byte level, on the serialised stream
    Flip { pos: u32, mask: u8 },
    Delete { pos: u32, len: u8 },
    Dup { pos: u32, len: u8 },
    Insert { pos: u32, token: u8 },
    Truncate { pos: u32 },
}

#[derive(Clone, Debug, Serialize, Deserialize)]
pub struct Case {
    pub nonce: u32,
    pub reqs: Vec<ReqSpec>,
    pub muts: Vec<Mut>,
    pub write: WriteScript,
    /// the last request carries `Connection: close`
    pub close_last: bool,
    /// reproducer mode: mutator forms that hit a known finding are applied (generated cases leave them out)
    #[serde(default)]
    pub strict: bool,
}

pub const TE_FORMS: &[&[u8]] = &[
    b"xchunked",          // 0
    b"chunked, identity", // 1
    b"identity, chunked", // 2
    b"Chunked",           // 3
    b"\tchunked",         // 4
    b"chunked ;q=1",      // 5
    b"chunked ",          // 6
    b"chunked\t",         // 7
    b"CHUNKED",           // 8
    b"identity",          // 9
    b"chunked, chunked",  // 10
    b"gzip, chunked",     // 11
    b", chunked",         // 12
    b"chunked,",          // 13
    b"\"chunked\"",       // 14
    b"chunked\x0b",       // 15
    b"x-chunked",         // 16
    b"gzip,chunked",      // 17
    b"chunked;q=1",       // 18
    b"chunked",           // 19
];
pub const TE_SPLITS: &[(&[u8], &[u8])] = &[(b"chunked", b"identity"), (b"identity", b"chunked"), (b"gzip", b"chunked"), (b"chunked", b"chunked"), (b"chunked", b""), (b"", b"chunked")];

pub(super) fn cl_form(form: u8, n: usize) -> Vec<u8> {
    match form {
        0 => format!("+{n}"),
        1 => format!("{n},{n}"),
        2 => format!("{n}, {n}"),
        3 => format!("0x{n:x}"),
        4 => format!("{n} {n}"),
        5 => format!("0{n}"),
        6 => format!("{n} "),
        7 => format!("-{n}"),
        8 => format!("{n}.0"),
        9 => String::new(),
        10 => "18446744073709551616".to_string(),
        11 => format!("\t{n}"),
        12 => format!("{n}\t"),
        13 => format!("{n};q=1"),
        14 => format!("{n}\x0b"),
        15 => format!("{n}, {}", n + 1),
        16 => format!("00000000000000000000{n}"),
        17 => format!("{}", 4294967296u64 + n as u64),
        18 => format!("{n}e0"),
        _ => format!("{n}"),
    }
    .into_bytes()
}
pub const CL_FORMS: u8 = 19;
/// chunk mutations: 0 17-digit size, 1 many leading zeros, 2 0x prefix, 3 negative, 4 trailing space, 5 leading space,
/// 6 plus sign, 7 upper-case hex, 8 ext `;a=b`, 9 ext with spaces ` ; a = b`, 10 ext quoted with CRLF inside, 11 ext bare `;`,
/// 12 missing CRLF after data, 13 missing final CRLF, 14 trailer field, 15 trailer Content-Length, 16 trailer Transfer-Encoding,
/// 17 LF after size, 18 LF after data, 19 size ffffffffffffffff, 20 last chunk `00`, 21 ext on the last chunk, 22 CR only after size
pub const CHUNK_FORMS: u8 = 23;
/// 0 HTTP/1.0, 1 HTTP/1.2, 2 HTTP/2.0, 3 http/1.1, 4 HTTP/1.10, 5 missing, 6 HTTP/0.9, 7 HTTP/1.1 + trailing space, 8 HTTP/01.1
pub const VERSION_FORMS: u8 = 9;
/// 0 two identical Host, 1 two different Host (own, other), 2 (other, own), 3 empty Host, 4 no Host, 5 Host with port 80,
/// 6 absolute-form target of the other cluster, 7 Host with userinfo, 8 `own, other` list, 9 `own other`, 10 Host with trailing tab,
/// 11 upper-case host, 12 Host with trailing dot, 13 absolute-form own + Host other, 14 Host with port 0, 15 Host `own:`
pub const HOST_FORMS: u8 = 16;
/// 0 two spaces after the method, 1 tab separators, 2 leading CRLF, 3 leading space, 4 two spaces before the version, 5 space inside
/// the target, 6 lower-case method, 7 a fourth token, 8 CR LF replaced by CR, 9 two leading CRLF, 10 target without leading slash,
/// 11 asterisk with GET, 12 empty method, 13 method with a colon, 14 fragment in the target, 15 NUL in target, 16 empty target
pub const REQLINE_FORMS: u8 = 17;
const INSERT_TOKENS: &[&[u8]] = &[
    b"\r\n",
    b"\n",
    b"\r",
    b" ",
    b"\t",
    b":",
    b"\0",
    b"Content-Length: 0\r\n",
    b"Transfer-Encoding: chunked\r\n",
    b"0\r\n\r\n",
    b"\r\n\r\n",
    b"chunked",
    b",",
    b";",
    b"\x0b",
    b"\x0c",
    b"\x7f",
    b"\xc3\xa9",
    b"Content-Length: 7\r\n",
    b"Host: c1.lab\r\n",
];

// ------------------------------------------------------------------ building the byte stream

#[derive(Clone, Debug, PartialEq)]
enum Role {
    Host,
    Marker,
    Cl,
    Te,
    Extra(u8),
    Added,
}

#[derive(Clone, Debug)]
struct Hdr {
    role: Role,
    name: Vec<u8>,
    sep: Vec<u8>,
    value: Vec<u8>,
    eol: Vec<u8>,
}

#[derive(Clone, Debug)]
struct ChunkW {
    size: Vec<u8>,
    ext: Vec<u8>,
    eol: Vec<u8>,
    data: Vec<u8>,
    data_eol: Vec<u8>,
}

#[derive(Clone, Debug)]
struct Msg {
    pre: Vec<u8>,
    method: Vec<u8>,
    sp1: Vec<u8>,
    target: Vec<u8>,
    sp2: Vec<u8>,
    version: Vec<u8>,
    line_tail: Vec<u8>,
    line_eol: Vec<u8>,
    headers: Vec<Hdr>,
    blank: Vec<u8>,
    /// Content-Length body
    plain: Vec<u8>,
    /// chunked body
    chunks: Vec<ChunkW>,
    last_chunk: Option<ChunkW>,
    trailers: Vec<Vec<u8>>,
    final_eol: Vec<u8>,
    body_len: usize,
}

pub fn marker(nonce: u32, embedded: bool, k: usize) -> String {
    format!("{:06x}{}{k}", nonce & 0xff_ffff, if embedded { 'e' } else { 'r' })
}

fn letters(seed: u64, len: usize) -> Vec<u8> {
    lab::h1::content(seed, len)
}

fn payload_bytes(case: &Case, k: usize, r: &ReqSpec, len: usize) -> Vec<u8> {
    // (known finding: a request without any length swallows what follows; generated cases give it one)
    let cl0 = if !case.strict && KNOWN.with(|k| k.get()) { "Content-Length: 0\r\n" } else { "" };
    let emb = format!("GET /smug{k} HTTP/1.1\r\nHost: c{}.lab\r\nX-M: {}\r\n{cl0}\r\n", r.host % 2, marker(case.nonce, true, k)).into_bytes();
    match r.payload {
        1 => emb,
        2 => {
            let mut v = b"0\r\n\r\n".to_vec();
            v.extend(emb);
            v
        }
        _ => letters(case.nonce as u64 ^ (k as u64) << 32, len),
    }
}

fn hdr(role: Role, name: &str, value: &[u8]) -> Hdr {
    Hdr { role, name: name.as_bytes().to_vec(), sep: b": ".to_vec(), value: value.to_vec(), eol: b"\r\n".to_vec() }
}

fn build_msg(case: &Case, k: usize, r: &ReqSpec, last: bool) -> Msg {
    let host = format!("c{}.lab", r.host % 2);
    let target = if r.absolute { format!("http://{host}{}", r.path) } else { r.path.clone() };
    let mut headers = vec![hdr(Role::Host, "Host", host.as_bytes()), hdr(Role::Marker, "X-M", marker(case.nonce, false, k).as_bytes())];
    for (i, (n, v)) in r.extra.iter().enumerate() {
        let name = EXTRA_NAMES[*n as usize % EXTRA_NAMES.len()];
        if name == "Connection" {
            headers.push(hdr(Role::Extra(i as u8), name, b"keep-alive"));
        } else if name == "TE" {
            headers.push(hdr(Role::Extra(i as u8), name, b"trailers"));
        } else if name == "Cookie" {
            let v: String = v.chars().filter(|c| c.is_ascii_alphanumeric()).collect();
            headers.push(hdr(Role::Extra(i as u8), name, format!("a={v}; b=2").as_bytes()));
        } else if name == "X-Forwarded-Proto" {
            headers.push(hdr(Role::Extra(i as u8), name, b"http"));
        } else {
            headers.push(hdr(Role::Extra(i as u8), name, v.as_bytes()));
        }
    }
    if last && case.close_last {
        headers.retain(|h| !h.name.eq_ignore_ascii_case(b"connection"));
        headers.push(hdr(Role::Added, "Connection", b"close"));
    }
    let mut m = Msg {
        pre: vec![],
        method: METHODS[r.method as usize % METHODS.len()].as_bytes().to_vec(),
        sp1: b" ".to_vec(),
        target: target.into_bytes(),
        sp2: b" ".to_vec(),
        version: if r.http10 { b"HTTP/1.0".to_vec() } else { b"HTTP/1.1".to_vec() },
        line_tail: vec![],
        line_eol: b"\r\n".to_vec(),
        headers,
        blank: b"\r\n".to_vec(),
        plain: vec![],
        chunks: vec![],
        last_chunk: None,
        trailers: vec![],
        final_eol: vec![],
        body_len: 0,
    };
    match &r.body {
        Body::None => {}
        Body::Cl(len) => {
            let p = payload_bytes(case, k, r, *len);
            m.headers.push(hdr(Role::Cl, "Content-Length", p.len().to_string().as_bytes()));
            m.body_len = p.len();
            m.plain = p;
        }
        Body::Chunked(len, sizes) => {
            let p = payload_bytes(case, k, r, *len);
            m.headers.push(hdr(Role::Te, "Transfer-Encoding", b"chunked"));
            m.body_len = p.len();
            let sizes: Vec<usize> = sizes.iter().copied().filter(|s| *s > 0).collect();
            let (mut pos, mut i) = (0, 0);
            while pos < p.len() {
                let n = if sizes.is_empty() { p.len() - pos } else { sizes[i % sizes.len()] }.min(p.len() - pos);
                i += 1;
                m.chunks.push(ChunkW { size: format!("{n:x}").into_bytes(), ext: vec![], eol: b"\r\n".to_vec(), data: p[pos..pos + n].to_vec(), data_eol: b"\r\n".to_vec() });
                pos += n;
            }
            m.last_chunk = Some(ChunkW { size: b"0".to_vec(), ext: vec![], eol: b"\r\n".to_vec(), data: vec![], data_eol: vec![] });
            m.final_eol = b"\r\n".to_vec();
        }
    }
    m
}

fn serialise(m: &Msg) -> Vec<u8> {
    let mut v = m.pre.clone();
    for p in [&m.method, &m.sp1, &m.target, &m.sp2, &m.version, &m.line_tail, &m.line_eol] {
        v.extend_from_slice(p);
    }
    for h in &m.headers {
        v.extend_from_slice(&h.name);
        v.extend_from_slice(&h.sep);
        v.extend_from_slice(&h.value);
        v.extend_from_slice(&h.eol);
    }
    v.extend_from_slice(&m.blank);
    v.extend_from_slice(&m.plain);
    for c in m.chunks.iter().chain(m.last_chunk.iter()) {
        v.extend_from_slice(&c.size);
        v.extend_from_slice(&c.ext);
        v.extend_from_slice(&c.eol);
        v.extend_from_slice(&c.data);
        v.extend_from_slice(&c.data_eol);
    }
    for t in &m.trailers {
        v.extend_from_slice(t);
    }
    v.extend_from_slice(&m.final_eol);
    v
}

fn sel_index(m: &Msg, sel: Sel) -> usize {
    let want = |h: &Hdr| match sel {
        Sel::Framing => h.role == Role::Cl || h.role == Role::Te,
        Sel::Host => h.role == Role::Host,
        Sel::Marker => h.role == Role::Marker,
        Sel::Extra(i) => h.role == Role::Extra(i),
    };
    m.headers.iter().position(want).unwrap_or_else(|| match sel {
        Sel::Extra(i) => (i as usize) % m.headers.len().max(1),
        _ => 0,
    })
}

fn framing_index(m: &Msg) -> Option<usize> {
    m.headers.iter().position(|h| h.role == Role::Cl || h.role == Role::Te)
}

/// make sure the message has a Content-Length field; returns its index
fn ensure_cl(m: &mut Msg) -> usize {
    if let Some(i) = m.headers.iter().position(|h| h.role == Role::Cl) {
        return i;
    }
    let n = m.body_len;
    m.headers.push(hdr(Role::Cl, "Content-Length", n.to_string().as_bytes()));
    m.headers.len() - 1
}

fn ensure_te(m: &mut Msg) -> usize {
    if let Some(i) = m.headers.iter().position(|h| h.role == Role::Te) {
        return i;
    }
    m.headers.push(hdr(Role::Te, "Transfer-Encoding", b"chunked"));
    m.headers.len() - 1
}

thread_local! {
    /// exploration / sensitivity aid: VP_C03_NO_EXCLUSIONS=1 applies every form
    // all seven findings this switch steered around are repaired in sozu (see known_findings.jsonl, `fixed`):
    // nothing is excluded any more unless VP_C03_EXCLUSIONS is set (to reproduce the old behaviour on an old tree)
    static KNOWN: std::cell::Cell<bool> = std::cell::Cell::new(std::env::var("VP_C03_EXCLUSIONS").is_ok());
}

/// Transfer-Encoding forms sozu forwards without reading them the way a backend will (known finding)
const TE_KNOWN: &[u8] = &[0, 1, 5, 6, 7, 9, 13, 14, 16, 18];

/// The known finding a mutator would run into on the messages as they are now: generated cases leave
/// these out (counted in `excluded_known`), reproducers (`strict`) apply them.
fn known_shape(mu: &Mut, msgs: &[Msg]) -> Option<&'static str> {
    if !KNOWN.with(|k| k.get()) {
        return None;
    }
    let n = msgs.len();
    let has_te = |m: &Msg| m.headers.iter().any(|h| h.name.eq_ignore_ascii_case(b"transfer-encoding"));
    let http10 = |m: &Msg| m.version == b"HTTP/1.0";
    match mu {
        Mut::AddTe { req, form, .. } | Mut::TeForm { req, form } => {
            if TE_KNOWN.contains(&(*form % TE_FORMS.len() as u8)) {
                Some("unrecognised-transfer-encoding-forwarded")
            } else if http10(&msgs[pick_idx(*req, n)]) {
                Some("te-in-http10")
            } else {
                None
            }
        }
        Mut::TeSplit { req, form } => {
            if *form as usize % TE_SPLITS.len() == 0 {
                Some("unrecognised-transfer-encoding-forwarded")
            } else if http10(&msgs[pick_idx(*req, n)]) {
                Some("te-in-http10")
            } else {
                None
            }
        }
        Mut::Chunk { req, .. } if http10(&msgs[pick_idx(*req, n)]) => Some("te-in-http10"),
        Mut::Version { req, form } if form % VERSION_FORMS == 0 && has_te(&msgs[pick_idx(*req, n)]) => Some("te-in-http10"),
        Mut::ClForm { form, .. } if form % CL_FORMS == 0 => Some("content-length-value"),
        Mut::ReqLine { form, .. } if form % REQLINE_FORMS == 12 => Some("method"),
        Mut::ReqLine { form, .. } if form % REQLINE_FORMS == 16 => Some("request-target"),
        Mut::BadByte { req, sel, in_name, byte, .. } => {
            let m = &msgs[pick_idx(*req, n)];
            let i = sel_index(m, *sel);
            if *in_name && (*byte == b'"' || *byte == b'/') {
                Some("field-name")
            } else if !*in_name && m.headers[i].name.eq_ignore_ascii_case(b"transfer-encoding") && (0x20..=0x7e).contains(byte) {
                Some("unrecognised-transfer-encoding-forwarded")
            } else {
                None
            }
        }
        _ => None,
    }
}

fn mut_label(mu: &Mut) -> &'static str {
    match mu {
        Mut::AddTe { .. } => "mut:add_te",
        Mut::AddCl { .. } => "mut:add_cl",
        Mut::ClForm { .. } => "mut:cl_form",
        Mut::TeForm { .. } => "mut:te_form",
        Mut::TeSplit { .. } => "mut:te_split",
        Mut::WsColon { .. } => "mut:ws_before_colon",
        Mut::ObsFold { .. } => "mut:obs_fold",
        Mut::BareLf { .. } => "mut:bare_lf",
        Mut::BareCr { .. } => "mut:bare_cr",
        Mut::BadByte { .. } => "mut:bad_byte",
        Mut::Chunk { .. } => "mut:chunk",
        Mut::Version { .. } => "mut:version",
        Mut::Host { .. } => "mut:host",
        Mut::ReqLine { .. } => "mut:request_line",
        Mut::Flip { .. } => "mut:byte_flip",
        Mut::Delete { .. } => "mut:byte_delete",
        Mut::Dup { .. } => "mut:byte_dup",
        Mut::Insert { .. } => "mut:byte_insert",
        Mut::Truncate { .. } => "mut:truncate",
    }
}

fn apply_structured(msgs: &mut [Msg], specs: &[ReqSpec], mu: &Mut) {
    let n = msgs.len();
    let pick = |req: u32| pick_idx(req, n);
    match mu {
        Mut::AddTe { req, form, before } => {
            let m = &mut msgs[pick(*req)];
            let h = hdr(Role::Added, "Transfer-Encoding", TE_FORMS[*form as usize % TE_FORMS.len()]);
            match (framing_index(m), before) {
                (Some(i), true) => m.headers.insert(i, h),
                _ => m.headers.push(h),
            }
        }
        Mut::AddCl { req, delta, before } => {
            let m = &mut msgs[pick(*req)];
            let v = (m.body_len as i64 + *delta as i64).max(0);
            let h = hdr(Role::Added, "Content-Length", v.to_string().as_bytes());
            match (framing_index(m), before) {
                (Some(i), true) => m.headers.insert(i, h),
                _ => m.headers.push(h),
            }
        }
        Mut::ClForm { req, form } => {
            let m = &mut msgs[pick(*req)];
            let i = ensure_cl(m);
            m.headers[i].value = cl_form(*form % CL_FORMS, m.body_len);
        }
        Mut::TeForm { req, form } => {
            let m = &mut msgs[pick(*req)];
            let i = ensure_te(m);
            m.headers[i].value = TE_FORMS[*form as usize % TE_FORMS.len()].to_vec();
        }
        Mut::TeSplit { req, form } => {
            let m = &mut msgs[pick(*req)];
            let i = ensure_te(m);
            let (a, b) = TE_SPLITS[*form as usize % TE_SPLITS.len()];
            m.headers[i].value = a.to_vec();
            let h = hdr(Role::Added, "Transfer-Encoding", b);
            m.headers.insert(i + 1, h);
        }
        Mut::WsColon { req, sel, tab } => {
            let m = &mut msgs[pick(*req)];
            let i = sel_index(m, *sel);
            m.headers[i].sep = if *tab { b"\t: ".to_vec() } else { b" : ".to_vec() };
        }
        Mut::ObsFold { req, sel, cont } => {
            let m = &mut msgs[pick(*req)];
            let i = sel_index(m, *sel);
            let line: Vec<u8> = match cont % 3 {
                0 => {
                    // split the value over two lines
                    let v = m.headers[i].value.clone();
                    let cut = v.len() / 2;
                    m.headers[i].value = v[..cut].to_vec();
                    let mut l = b" ".to_vec();
                    l.extend_from_slice(&v[cut..]);
                    l
                }
                1 => format!("\tContent-Length: {}", m.body_len + 1).into_bytes(),
                _ => b" Transfer-Encoding: chunked".to_vec(),
            };
            m.headers[i].eol.extend_from_slice(&line);
            m.headers[i].eol.extend_from_slice(b"\r\n");
        }
        Mut::BareLf { req, which, sel } => {
            let m = &mut msgs[pick(*req)];
            match which % 4 {
                0 => {
                    m.line_eol = b"\n".to_vec();
                    for h in m.headers.iter_mut() {
                        h.eol = b"\n".to_vec();
                    }
                    m.blank = b"\n".to_vec();
                }
                1 => {
                    let i = sel_index(m, *sel);
                    m.headers[i].eol = b"\n".to_vec();
                }
                2 => m.blank = b"\n".to_vec(),
                _ => {
                    for c in m.chunks.iter_mut().chain(m.last_chunk.iter_mut()) {
                        c.eol = b"\n".to_vec();
                    }
                    if m.chunks.is_empty() {
                        m.line_eol = b"\n".to_vec();
                    }
                }
            }
        }
        Mut::BareCr { req, sel, payload } => {
            let m = &mut msgs[pick(*req)];
            let i = sel_index(m, *sel);
            let extra: Vec<u8> = match payload % 3 {
                0 => b"\rx".to_vec(),
                1 => format!("\rContent-Length: {}", m.body_len + 1).into_bytes(),
                _ => b"\rTransfer-Encoding: chunked".to_vec(),
            };
            m.headers[i].value.extend_from_slice(&extra);
        }
        Mut::BadByte { req, sel, in_name, byte, pos } => {
            let m = &mut msgs[pick(*req)];
            let i = sel_index(m, *sel);
            let field = if *in_name { &mut m.headers[i].name } else { &mut m.headers[i].value };
            let at = pick_idx(*pos, field.len() + 1);
            field.insert(at, *byte);
        }
        Mut::Chunk { req, form } => {
            let k = pick(*req);
            // needs a chunked body: rebuild the message body as chunked when it is not
            if msgs[k].last_chunk.is_none() {
                let m = &mut msgs[k];
                let p = std::mem::take(&mut m.plain);
                m.headers.retain(|h| h.role != Role::Cl);
                m.headers.push(hdr(Role::Te, "Transfer-Encoding", b"chunked"));
                let data = if p.is_empty() { letters(specs[k].method as u64, 5) } else { p };
                m.body_len = data.len();
                m.chunks.push(ChunkW { size: format!("{:x}", data.len()).into_bytes(), ext: vec![], eol: b"\r\n".to_vec(), data, data_eol: b"\r\n".to_vec() });
                m.last_chunk = Some(ChunkW { size: b"0".to_vec(), ext: vec![], eol: b"\r\n".to_vec(), data: vec![], data_eol: vec![] });
                m.final_eol = b"\r\n".to_vec();
            }
            let m = &mut msgs[k];
            if m.chunks.is_empty() {
                let data = letters(7, 5);
                m.body_len = 5;
                m.chunks.push(ChunkW { size: b"5".to_vec(), ext: vec![], eol: b"\r\n".to_vec(), data, data_eol: b"\r\n".to_vec() });
            }
            let c = &mut m.chunks[0];
            let size_txt = String::from_utf8_lossy(&c.size).to_string();
            match form % CHUNK_FORMS {
                0 => c.size = format!("1{:016x}", c.data.len()).into_bytes(),
                1 => c.size = format!("000000000000000000000000{size_txt}").into_bytes(),
                2 => c.size = format!("0x{size_txt}").into_bytes(),
                3 => c.size = format!("-{size_txt}").into_bytes(),
                4 => c.size = format!("{size_txt} ").into_bytes(),
                5 => c.size = format!(" {size_txt}").into_bytes(),
                6 => c.size = format!("+{size_txt}").into_bytes(),
                7 => c.size = size_txt.to_ascii_uppercase().into_bytes(),
                8 => c.ext = b";a=b".to_vec(),
                9 => c.ext = b" ; a = b".to_vec(),
                10 => c.ext = b";a=\"x\r\ny\"".to_vec(),
                11 => c.ext = b";".to_vec(),
                12 => c.data_eol = vec![],
                13 => m.final_eol = vec![],
                14 => m.trailers.push(b"X-Trailer: 1\r\n".to_vec()),
                15 => m.trailers.push(b"Content-Length: 3\r\n".to_vec()),
                16 => m.trailers.push(b"Transfer-Encoding: chunked\r\n".to_vec()),
                17 => c.eol = b"\n".to_vec(),
                18 => c.data_eol = b"\n".to_vec(),
                19 => c.size = b"ffffffffffffffff".to_vec(),
                20 => {
                    if let Some(l) = m.last_chunk.as_mut() {
                        l.size = b"00".to_vec();
                    }
                }
                21 => {
                    if let Some(l) = m.last_chunk.as_mut() {
                        l.ext = b";last=1".to_vec();
                    }
                }
                _ => c.eol = b"\r".to_vec(),
            }
        }
        Mut::Version { req, form } => {
            let m = &mut msgs[pick(*req)];
            match form % VERSION_FORMS {
                0 => m.version = b"HTTP/1.0".to_vec(),
                1 => m.version = b"HTTP/1.2".to_vec(),
                2 => m.version = b"HTTP/2.0".to_vec(),
                3 => m.version = b"http/1.1".to_vec(),
                4 => m.version = b"HTTP/1.10".to_vec(),
                5 => {
                    m.sp2 = vec![];
                    m.version = vec![];
                }
                6 => m.version = b"HTTP/0.9".to_vec(),
                7 => m.line_tail = b" ".to_vec(),
                _ => m.version = b"HTTP/01.1".to_vec(),
            }
        }
        Mut::Host { req, form } => {
            let k = pick(*req);
            let own = format!("c{}.lab", specs[k].host % 2);
            let other = format!("c{}.lab", (specs[k].host + 1) % 2);
            let m = &mut msgs[k];
            let i = sel_index(m, Sel::Host);
            let path = specs[k].path.clone();
            match form % HOST_FORMS {
                0 => m.headers.insert(i + 1, hdr(Role::Added, "Host", own.as_bytes())),
                1 => m.headers.insert(i + 1, hdr(Role::Added, "Host", other.as_bytes())),
                2 => m.headers.insert(i, hdr(Role::Added, "Host", other.as_bytes())),
                3 => m.headers[i].value = vec![],
                4 => {
                    m.headers.remove(i);
                }
                5 => m.headers[i].value = format!("{own}:80").into_bytes(),
                6 => m.target = format!("http://{other}{path}").into_bytes(),
                7 => m.headers[i].value = format!("{other}@{own}").into_bytes(),
                8 => m.headers[i].value = format!("{own}, {other}").into_bytes(),
                9 => m.headers[i].value = format!("{own} {other}").into_bytes(),
                10 => m.headers[i].value = format!("{own}\t").into_bytes(),
                11 => m.headers[i].value = own.to_ascii_uppercase().into_bytes(),
                12 => m.headers[i].value = format!("{own}.").into_bytes(),
                13 => {
                    m.target = format!("http://{own}{path}").into_bytes();
                    m.headers[i].value = other.into_bytes();
                }
                14 => m.headers[i].value = format!("{own}:0").into_bytes(),
                _ => m.headers[i].value = format!("{own}:").into_bytes(),
            }
        }
        Mut::ReqLine { req, form } => {
            let m = &mut msgs[pick(*req)];
            match form % REQLINE_FORMS {
                0 => m.sp1 = b"  ".to_vec(),
                1 => {
                    m.sp1 = b"\t".to_vec();
                    m.sp2 = b"\t".to_vec();
                }
                2 => m.pre = b"\r\n".to_vec(),
                3 => m.pre = b" ".to_vec(),
                4 => m.sp2 = b"  ".to_vec(),
                5 => m.target.extend_from_slice(b" x"),
                6 => m.method = m.method.to_ascii_lowercase(),
                7 => m.line_tail = b" extra".to_vec(),
                8 => m.line_eol = b"\r".to_vec(),
                9 => m.pre = b"\r\n\r\n".to_vec(),
                10 => {
                    if m.target.first() == Some(&b'/') {
                        m.target.remove(0);
                    }
                }
                11 => {
                    m.method = b"GET".to_vec();
                    m.target = b"*".to_vec();
                }
                12 => m.method = vec![],
                13 => m.method = b"GE:T".to_vec(),
                14 => m.target.extend_from_slice(b"#frag"),
                15 => m.target.extend_from_slice(b"\0x"),
                _ => m.target = vec![],
            }
        }
        _ => {}
    }
}

fn apply_bytes(stream: &mut Vec<u8>, mu: &Mut) {
    let n = stream.len();
    if n == 0 {
        return;
    }
    match mu {
        Mut::Flip { pos, mask } => {
            let i = pick_idx(*pos, n);
            stream[i] ^= if *mask == 0 { 1 } else { *mask };
        }
        Mut::Delete { pos, len } => {
            let i = pick_idx(*pos, n);
            let l = (*len as usize).max(1).min(n - i);
            stream.drain(i..i + l);
        }
        Mut::Dup { pos, len } => {
            let i = pick_idx(*pos, n);
            let l = (*len as usize).max(1).min(n - i);
            let span = stream[i..i + l].to_vec();
            let at = i + l;
            stream.splice(at..at, span);
        }
        Mut::Insert { pos, token } => {
            let i = pick_idx(*pos, n + 1);
            let t = INSERT_TOKENS[*token as usize % INSERT_TOKENS.len()];
            stream.splice(i..i, t.iter().copied());
        }
        Mut::Truncate { pos } => {
            let i = pick_idx(*pos, n).max(1);
            stream.truncate(i);
        }
        _ => {}
    }
}

pub struct Built {
    pub bytes: Vec<u8>,
    pub labels: Vec<&'static str>,
    pub excluded: u64,
}

pub fn build(case: &Case) -> Built {
    let n = case.reqs.len();
    let mut msgs: Vec<Msg> = case.reqs.iter().enumerate().map(|(k, r)| build_msg(case, k, r, k + 1 == n)).collect();
    let mut labels = vec![];
    let mut excluded = 0;
    // known finding `request-not-emitted-by-sozu:after-no-body`: a request without Content-Length / Transfer-Encoding
    // swallows the requests pipelined behind it; generated cases give such a request an explicit `Content-Length: 0`
    if !case.strict && KNOWN.with(|k| k.get()) {
        for k in 0..n.saturating_sub(1) {
            if case.reqs[k].body == Body::None {
                msgs[k].headers.push(hdr(Role::Cl, "Content-Length", b"0"));
                excluded += 1;
            }
        }
    }
    let mut applied: Vec<&Mut> = vec![];
    for mu in &case.muts {
        if !case.strict && known_shape(mu, &msgs).is_some() {
            excluded += 1;
            continue;
        }
        applied.push(mu);
        labels.push(mut_label(mu));
        apply_structured(&mut msgs, &case.reqs, mu);
    }
    let mut bytes = vec![];
    for m in &msgs {
        bytes.extend(serialise(m));
    }
    for mu in &applied {
        apply_bytes(&mut bytes, mu);
    }
    Built { bytes, labels, excluded }
}

// ------------------------------------------------------------------ strategies

fn header_value() -> impl Strategy<Value = String> {
    "[A-Za-z0-9][A-Za-z0-9;=,./_ -]{0,18}[A-Za-z0-9]".prop_map(|s| s)
}

fn body_len() -> impl Strategy<Value = usize> {
    prop_oneof![2 => Just(0usize), 6 => 1usize..60, 2 => 60usize..600, 1 => prop_oneof![Just(16384usize), Just(16393), 16000usize..40000]]
}

fn req_spec() -> impl Strategy<Value = ReqSpec> {
    (
        prop_oneof![4 => Just(0u8), 4 => Just(1u8), 1 => Just(2u8), 1 => Just(3u8), 1 => Just(4u8), 1 => Just(5u8), 1 => Just(6u8), 1 => Just(7u8)],
        "/[a-z0-9]{1,8}(/[a-z0-9]{1,5})?(\\?[a-z]=[0-9]{1,3})?",
        prop::bool::weighted(0.1),
        prop_oneof![4 => Just(0u8), 1 => Just(1u8)],
        prop::collection::vec((0u8..EXTRA_NAMES.len() as u8, header_value()), 0..4),
        prop_oneof![
            3 => Just(Body::None),
            4 => body_len().prop_map(Body::Cl),
            3 => (body_len(), prop::collection::vec(prop_oneof![Just(1usize), 1usize..40, 40usize..5000], 1..4)).prop_map(|(l, s)| Body::Chunked(l, s)),
        ],
        prop_oneof![5 => Just(0u8), 2 => Just(1u8), 2 => Just(2u8)],
        prop::bool::weighted(0.12),
    )
        .prop_map(|(method, path, absolute, host, mut extra, body, payload, http10)| {
            // one field per name (two Cookie / Connection fields are a different experiment)
            let mut seen = vec![];
            extra.retain(|(n, _)| {
                let keep = !seen.contains(n);
                seen.push(*n);
                keep
            });
            let http10 = http10 && !matches!(body, Body::Chunked(..));
            ReqSpec { method, path, absolute, host, extra, body, payload, http10 }
        })
}

fn sel() -> impl Strategy<Value = Sel> {
    prop_oneof![4 => Just(Sel::Framing), 2 => Just(Sel::Host), 1 => Just(Sel::Marker), 2 => (0u8..4).prop_map(Sel::Extra)]
}

fn bad_byte() -> impl Strategy<Value = u8> {
    prop_oneof![3 => Just(0u8), 3 => 1u8..9, 1 => Just(0x0bu8), 1 => Just(0x0cu8), 2 => 0x0eu8..0x20, 1 => Just(0x7fu8), 3 => 0x80u8..=0xff, 1 => Just(b' '), 1 => Just(b'('), 1 => Just(b'"'), 1 => Just(b'/')]
}

fn mutator() -> impl Strategy<Value = Mut> {
    let r = any::<u32>;
    prop_oneof![
        4 => (r(), 0u8..TE_FORMS.len() as u8, any::<bool>()).prop_map(|(req, form, before)| Mut::AddTe { req, form, before }),
        3 => (r(), prop_oneof![Just(0i8), Just(1), Just(-1), Just(5), -20i8..20], any::<bool>()).prop_map(|(req, delta, before)| Mut::AddCl { req, delta, before }),
        4 => (r(), 0u8..CL_FORMS).prop_map(|(req, form)| Mut::ClForm { req, form }),
        4 => (r(), 0u8..TE_FORMS.len() as u8).prop_map(|(req, form)| Mut::TeForm { req, form }),
        2 => (r(), 0u8..TE_SPLITS.len() as u8).prop_map(|(req, form)| Mut::TeSplit { req, form }),
        2 => (r(), sel(), any::<bool>()).prop_map(|(req, sel, tab)| Mut::WsColon { req, sel, tab }),
        2 => (r(), sel(), 0u8..3).prop_map(|(req, sel, cont)| Mut::ObsFold { req, sel, cont }),
        2 => (r(), 0u8..4, sel()).prop_map(|(req, which, sel)| Mut::BareLf { req, which, sel }),
        2 => (r(), sel(), 0u8..3).prop_map(|(req, sel, payload)| Mut::BareCr { req, sel, payload }),
        3 => (r(), sel(), any::<bool>(), bad_byte(), any::<u32>()).prop_map(|(req, sel, in_name, byte, pos)| Mut::BadByte { req, sel, in_name, byte, pos }),
        4 => (r(), 0u8..CHUNK_FORMS).prop_map(|(req, form)| Mut::Chunk { req, form }),
        2 => (r(), 0u8..VERSION_FORMS).prop_map(|(req, form)| Mut::Version { req, form }),
        3 => (r(), 0u8..HOST_FORMS).prop_map(|(req, form)| Mut::Host { req, form }),
        3 => (r(), 0u8..REQLINE_FORMS).prop_map(|(req, form)| Mut::ReqLine { req, form }),
        2 => (any::<u32>(), prop_oneof![Just(1u8), Just(0x20), Just(0x80), any::<u8>()]).prop_map(|(pos, mask)| Mut::Flip { pos, mask }),
        2 => (any::<u32>(), prop_oneof![Just(1u8), Just(2), 1u8..40]).prop_map(|(pos, len)| Mut::Delete { pos, len }),
        2 => (any::<u32>(), prop_oneof![Just(1u8), Just(2), 1u8..80]).prop_map(|(pos, len)| Mut::Dup { pos, len }),
        2 => (any::<u32>(), 0u8..INSERT_TOKENS.len() as u8).prop_map(|(pos, token)| Mut::Insert { pos, token }),
        1 => any::<u32>().prop_map(|pos| Mut::Truncate { pos }),
    ]
}

fn write_script() -> impl Strategy<Value = WriteScript> {
    // segmentation of the client's bytes: single write, dribbles, splits at generated sizes, short pauses
    let step = prop_oneof![
        5 => prop_oneof![Just(1usize), Just(2), Just(3), 1usize..40, 40usize..400, 400usize..20000].prop_map(WStep::Write),
        1 => (1u16..25).prop_map(WStep::PauseMs),
    ];
    prop_oneof![2 => Just(vec![]), 3 => prop::collection::vec(step, 1..30)].prop_map(|mut steps| {
        let mut budget = 80u64;
        for s in steps.iter_mut() {
            if let WStep::PauseMs(m) = s {
                let take = (*m as u64).min(budget);
                budget -= take;
                *m = take as u16;
            }
        }
        steps.retain(|s| !matches!(s, WStep::PauseMs(0)));
        WriteScript { steps, sndbuf: None }
    })
}

/// clean pipelined sequences (no mutator)
pub fn clean_strategy() -> impl Strategy<Value = Case> {
    (any::<u32>(), prop::collection::vec(req_spec(), 1..4), write_script(), prop::bool::weighted(0.7))
        .prop_map(|(nonce, reqs, write, close_last)| Case { nonce, reqs, muts: vec![], write, close_last, strict: false })
}

pub fn smuggle_strategy() -> impl Strategy<Value = Case> {
    (any::<u32>(), prop::collection::vec(req_spec(), 1..4), prop::collection::vec(mutator(), 1..4), write_script(), prop::bool::weighted(0.7))
        .prop_map(|(nonce, reqs, muts, write, close_last)| Case { nonce, reqs, muts, write, close_last, strict: false })
}

// ------------------------------------------------------------------ lab: recording backends

#[derive(Default)]
pub(super) struct Rec {
    /// bytes per (backend, connection), in order of arrival
    pub(super) raw: BTreeMap<(usize, usize), Vec<u8>>,
    pub(super) open: usize,
    /// total bytes recorded (progress indicator)
    pub(super) total: usize,
}

pub struct Lab {
    pub http: HttpLab,
    backends: Vec<Acceptor>,
    rec: Arc<Mutex<Rec>>,
    stop: Arc<AtomicBool>,
}

const CLUSTERS: usize = 2;

/// A backend that never interprets for the record: it stores every byte, and answers 200 (2-byte body) to each
/// request the STRICT reference reader can read on the connection so far, so that sozu keeps going.
pub(super) fn serve(backend: usize, conn: usize, mut stream: TcpStream, rec: Arc<Mutex<Rec>>, stop: Arc<AtomicBool>) {
    let _ = stream.set_read_timeout(Some(Duration::from_millis(25)));
    rec.lock().unwrap().open += 1;
    let strict = Opts::strict();
    let mut buf: Vec<u8> = vec![];
    let mut answered = 0usize;
    let mut tmp = vec![0u8; 65536];
    loop {
        match stream.read(&mut tmp) {
            Ok(0) => break,
            Ok(n) => {
                buf.extend_from_slice(&tmp[..n]);
                {
                    let mut g = rec.lock().unwrap();
                    g.raw.entry((backend, conn)).or_default().extend_from_slice(&tmp[..n]);
                    g.total += n;
                }
                let rd = http::read_requests(&buf, &strict);
                let done: Vec<&Req> = rd.reqs.iter().filter(|r| r.complete).collect();
                while answered < done.len() {
                    let q = done[answered];
                    let head = q.method.eq_ignore_ascii_case("HEAD");
                    let resp = format!(
                        "HTTP/1.1 200 OK\r\nContent-Length: 2\r\nX-C03: {backend}-{conn}-{answered}\r\n{}\r\n{}",
                        if head { "X-C03-Head: 1\r\n" } else { "" },
                        if head { "" } else { "ok" }
                    );
                    if stream.write_all(resp.as_bytes()).is_err() {
                        break;
                    }
                    answered += 1;
                }
            }
            Err(e) => match e.kind() {
                std::io::ErrorKind::WouldBlock | std::io::ErrorKind::TimedOut | std::io::ErrorKind::Interrupted => {
                    if stop.load(Ordering::SeqCst) {
                        break;
                    }
                }
                _ => break,
            },
        }
    }
    let mut g = rec.lock().unwrap();
    g.open = g.open.saturating_sub(1);
}

impl Lab {
    pub fn new() -> Lab {
        let mut http = HttpLab::new("c03", LabConfig::default(), 0);
        let rec = Arc::new(Mutex::new(Rec::default()));
        let stop = Arc::new(AtomicBool::new(false));
        let mut backends = vec![];
        for i in 0..CLUSTERS {
            let cluster = format!("c{i}");
            http.worker.add_cluster(&cluster, |_| {});
            http.worker.add_http_frontend(&cluster, http.http_addr, &format!("c{i}.lab"), "/");
            let (addr, listener) = lab::bound_listener();
            http.worker.add_backend(&cluster, &format!("{cluster}-0"), addr);
            let (r2, s2) = (rec.clone(), stop.clone());
            backends.push(Acceptor::spawn(listener, move |conn, stream| serve(i, conn, stream, r2.clone(), s2.clone())));
        }
        Lab { http, backends, rec, stop }
    }
}

impl Drop for Lab {
    fn drop(&mut self) {
        self.stop.store(true, Ordering::SeqCst);
        for b in self.backends.iter_mut() {
            b.stop();
        }
    }
}

pub struct Observed {
    /// what the client wrote
    pub sent: Vec<u8>,
    /// what the client received
    pub received: Vec<u8>,
    pub client_closed_by_peer: bool,
    /// (backend, conn) -> bytes
    pub at_backend: BTreeMap<(usize, usize), Vec<u8>>,
    pub listener_port: u16,
    /// marker prefix of this scenario (None: do not filter)
    pub nonce: Option<String>,
    /// backend connections were still open when the observation ended (the lab must not be reused)
    pub dirty: bool,
}

/// Drive one client connection: write `bytes` following the script while reading, stop when sozu closes or when
/// nothing moved (client and backends) for a quiet period after the last write.
fn observe(lab: &mut Lab, bytes: &[u8], write: &WriteScript) -> Result<Observed, Failure> {
    {
        let mut g = lab.rec.lock().unwrap();
        g.raw.clear();
        g.total = 0;
    }
    let stream = lab.http.client().map_err(|e| Failure::new("C03/connect-refused", format!("connect to the HTTP listener failed: {e}")))?;
    let _ = stream.set_read_timeout(Some(Duration::from_millis(10)));
    let mut w = stream.try_clone().expect("clone");
    let data = bytes.to_vec();
    let ws = write.clone();
    let writer = std::thread::spawn(move || {
        let r = script::write_scripted(&mut w, &data, &ws);
        r.is_ok()
    });
    let mut r = stream;
    let mut received = vec![];
    let mut closed = false;
    let mut tmp = vec![0u8; 65536];
    let start = Instant::now();
    let mut last_move = Instant::now();
    let mut last_total = 0usize;
    let quiet = Duration::from_millis(220);
    loop {
        match r.read(&mut tmp) {
            Ok(0) => {
                closed = true;
                break;
            }
            Ok(n) => {
                received.extend_from_slice(&tmp[..n]);
                last_move = Instant::now();
            }
            Err(e) => match e.kind() {
                std::io::ErrorKind::WouldBlock | std::io::ErrorKind::TimedOut | std::io::ErrorKind::Interrupted => {}
                _ => {
                    closed = true;
                    break;
                }
            },
        }
        let total = lab.rec.lock().unwrap().total;
        if total != last_total {
            last_total = total;
            last_move = Instant::now();
        }
        if !writer.is_finished() {
            last_move = Instant::now();
        }
        if last_move.elapsed() > quiet || start.elapsed() > Duration::from_secs(6) {
            break;
        }
    }
    // closing the client ends the session; the writer fails at once if it was still blocked
    let _ = r.shutdown(std::net::Shutdown::Both);
    let _ = writer.join();
    drop(r);
    // sozu closes its backend connections with the session
    let end = Instant::now() + Duration::from_millis(900);
    let mut dirty = true;
    let mut calm_since: Option<(Instant, usize)> = None;
    while Instant::now() < end {
        let accepted: usize = lab.backends.iter().map(|b| b.accepted.load(Ordering::SeqCst)).sum();
        let open = lab.rec.lock().unwrap().open;
        match (open, calm_since) {
            (0, Some((t, a))) if a == accepted => {
                if t.elapsed() >= Duration::from_millis(25) {
                    dirty = false;
                    break;
                }
            }
            (0, _) => calm_since = Some((Instant::now(), accepted)),
            _ => calm_since = None,
        }
        std::thread::sleep(Duration::from_millis(2));
    }
    let at_backend = lab.rec.lock().unwrap().raw.clone();
    Ok(Observed { sent: bytes.to_vec(), received, client_closed_by_peer: closed, at_backend, listener_port: lab.http.http_addr.port(), nonce: None, dirty })
}

// ------------------------------------------------------------------ oracle

pub(super) fn esc(b: &[u8], max: usize) -> String {
    let s = b.escape_ascii().to_string();
    engine::truncate(&s, max)
}

/// complete-message boundaries plus the start of an incomplete tail message
pub(super) fn shape(r: &Reading) -> Vec<(usize, usize, bool)> {
    r.reqs.iter().map(|q| (q.start, if q.complete { q.end } else { q.head_end }, q.complete)).collect()
}

/// number of leading messages of the strict reading on which every variant agrees
pub(super) fn agreed_prefix(bytes: &[u8], strict: &Reading, variants: &[Opts]) -> (usize, Option<&'static str>) {
    let base = shape(strict);
    let mut n = base.iter().filter(|x| x.2).count();
    let mut who = None;
    for v in variants {
        let rv = http::read_requests(bytes, v);
        let sv = shape(&rv);
        let mut k = 0;
        while k < base.len() && k < sv.len() && base[k] == sv[k] && base[k].2 {
            k += 1;
        }
        if k < n {
            who = Some(v.name);
            n = k;
        }
    }
    (n, who)
}

pub(super) fn first_variant_disagreeing(bytes: &[u8], strict: &Reading, variants: &[Opts]) -> Option<(&'static str, String)> {
    let base = shape(strict);
    for v in variants {
        let rv = http::read_requests(bytes, v);
        if shape(&rv) != base {
            return Some((v.name, rv.describe()));
        }
    }
    None
}

fn marker_of(q: &Req) -> Option<String> {
    q.header_str("x-m").filter(|m| m.len() >= 4)
}

pub(super) fn host_only(h: &str) -> String {
    let h = h.trim();
    let h = h.rsplit_once('@').map(|(_, x)| x).unwrap_or(h);
    let h = match h.rsplit_once(':') {
        Some((a, p)) if p.bytes().all(|c| c.is_ascii_digit()) => a,
        _ => h,
    };
    h.to_ascii_lowercase()
}

pub(super) fn framing_name(f: &Framing) -> &'static str {
    match f {
        Framing::None => "no-body",
        Framing::ContentLength(_) => "content-length",
        Framing::Chunked => "chunked",
    }
}

fn is_ulid(v: &[u8]) -> bool {
    v.len() == 26 && v.iter().all(|c| c.is_ascii_alphanumeric())
}

pub(super) fn find_sub(h: &[u8], n: &[u8]) -> bool {
    !n.is_empty() && h.windows(n.len()).any(|w| w == n)
}

fn count_sub(h: &[u8], n: &[u8]) -> usize {
    if n.is_empty() {
        return 0;
    }
    h.windows(n.len()).filter(|w| *w == n).count()
}

/// every `name: value` a lenient line splitter finds anywhere in the client's bytes
fn client_pairs(c: &[u8]) -> std::collections::BTreeSet<(String, Vec<u8>)> {
    let mut set = std::collections::BTreeSet::new();
    for line in c.split(|&b| b == b'\n') {
        let line = line.strip_suffix(b"\r").unwrap_or(line);
        // also lines a bare CR separates
        for part in line.split(|&b| b == b'\r') {
            if let Some(i) = part.iter().position(|&b| b == b':') {
                let name = String::from_utf8_lossy(&part[..i]).trim().to_ascii_lowercase();
                let value = String::from_utf8_lossy(&part[i + 1..]).trim_matches(|ch| ch == ' ' || ch == '\t').as_bytes().to_vec();
                // lossy conversions only matter for bytes sozu refuses anyway; keep the raw value too
                let raw: Vec<u8> = {
                    let mut v = &part[i + 1..];
                    while let [b' ' | b'\t', rest @ ..] = v {
                        v = rest;
                    }
                    while let [rest @ .., b' ' | b'\t'] = v {
                        v = rest;
                    }
                    v.to_vec()
                };
                set.insert((name.clone(), value));
                set.insert((name, raw));
            }
        }
    }
    set
}

/// A Transfer-Encoding value, in a head sozu wrote, that is not a plain token list ending in `chunked`
/// (`chunked`, `gzip, chunked`, any letter case): raw value as forwarded.
pub fn noncanonical_te(o: &[u8]) -> Option<String> {
    let mut start = 0;
    while start < o.len() {
        let end = o[start..].windows(4).position(|w| w == b"\r\n\r\n").map(|p| start + p + 2).unwrap_or(o.len());
        let block = &o[start..end];
        if find_sub(block, b"\r\nSozu-Id: ") {
            for line in block.split(|&b| b == b'\n') {
                let line = line.strip_suffix(b"\r").unwrap_or(line);
                if line.len() > 18 && line[..18].eq_ignore_ascii_case(b"transfer-encoding:") {
                    let raw = &line[18..];
                    let raw = raw.strip_prefix(b" ").unwrap_or(raw);
                    let tokens: Vec<&[u8]> = raw.split(|&b| b == b',').map(|t| t.strip_prefix(b" ").unwrap_or(t)).collect();
                    let ok = !tokens.is_empty() && tokens.iter().all(|t| !t.is_empty() && t.iter().all(|&c| http::is_tchar(c))) && tokens.last().unwrap().eq_ignore_ascii_case(b"chunked");
                    if !ok {
                        return Some(String::from_utf8_lossy(raw).to_string());
                    }
                } else if line.len() == 18 && line.eq_ignore_ascii_case(b"transfer-encoding:") {
                    return Some(String::new());
                }
            }
        }
        start = end + 2;
    }
    None
}

/// The oracle: a pure function of what was sent, what every backend connection received and what the client got back.
pub fn judge(obs: &Observed) -> CheckResult {
    match judge_inner(obs) {
        Err(f) if ["C03/backend-stream", "C03/request-not-emitted", "C03/no-length-request", "C03/forwarded-differs"].iter().any(|p| f.signature.starts_with(p)) => {
            // one root cause, many symptoms: sozu forwarded a Transfer-Encoding it did not itself read as the backend will
            match obs.at_backend.values().find_map(|o| noncanonical_te(o)) {
                Some(raw) => Err(Failure::new(
                    "C03/unrecognised-transfer-encoding-forwarded",
                    format!("sozu forwarded the field `Transfer-Encoding: {}` (not a token list ending in chunked) instead of refusing or normalising it; symptom [{}]: {}", raw.escape_debug(), f.signature, f.message),
                )),
                None => Err(f),
            }
        }
        other => other,
    }
}

fn judge_inner(obs: &Observed) -> CheckResult {
    let mut rep = CaseReport::default();
    let strict = Opts::strict();
    let variants = http::variants();
    let c = &obs.sent;
    let sc = http::read_requests(c, &strict);
    let (agreed, _) = agreed_prefix(c, &sc, &variants);
    let client_clean = sc.tail == Tail::Clean && agreed == sc.reqs.len();
    let norm = http::read_requests(c, &Opts::normalising());
    let pairs = client_pairs(c);
    let ctx = |o: &[u8]| format!("client sent {:?}; backend received {:?}", esc(c, 700), esc(o, 900));

    let mut found_total = 0usize;
    let mut markers_at_backend: BTreeMap<String, usize> = BTreeMap::new();
    for ((b, conn), o) in &obs.at_backend {
        // a connection sozu opened late for the previous scenario's session (its client had already gone)
        if let Some(nonce) = &obs.nonce {
            if let Some(p) = o.windows(5).position(|w| w == b"X-M: ") {
                let m = &o[p + 5..(p + 11).min(o.len())];
                if m.len() == 6 && m.iter().all(|c| c.is_ascii_hexdigit()) && m != nonce.as_bytes() && !find_sub(c, m) {
                    rep.class("stale_backend_connection_ignored");
                    continue;
                }
            }
        }
        let s = http::read_requests(o, &strict);
        // (B) every request a backend can find was emitted by sozu as a request (it carries the per-request
        // correlation header sozu adds to each head it understood) — checked first: it names the effect
        for (k, q) in s.reqs.iter().enumerate() {
            found_total += 1;
            let ids = q.header_values("sozu-id");
            if ids.len() != 1 {
                let prev_none = k > 0 && s.reqs[k - 1].framing == Framing::None;
                let sig = if prev_none {
                    "C03/no-length-request-swallows-following-bytes".to_string()
                } else if k == 0 {
                    "C03/request-not-emitted-by-sozu:first".to_string()
                } else {
                    format!("C03/request-not-emitted-by-sozu:after-{}", framing_name(&s.reqs[k - 1].framing))
                };
                fail!(
                    sig,
                    "backend c{b} connection {conn}: a strict RFC 9112 reader finds {} requests, request {k} ({} {}) carries {} Sozu-Id fields: sozu did not write it as a request (it forwarded it as part of another message), yet the backend will serve it. strict reading: {}. {}",
                    s.reqs.len(),
                    q.method,
                    q.target,
                    ids.len(),
                    s.describe(),
                    ctx(o)
                );
            }
        }
        // bytes sozu forwarded behind a request that has no body framing (they are not a head sozu wrote)
        if let (Some(last), Tail::Reject { at, detail, .. }) = (s.reqs.last(), &s.tail) {
            let rest = &o[last.end.min(o.len())..];
            let head_end = rest.windows(4).position(|w| w == b"\r\n\r\n").map(|p| p + 4).unwrap_or(rest.len());
            let stamped = find_sub(&rest[..head_end], b"\r\nSozu-Id: ");
            if last.complete && last.framing == Framing::None && *at >= last.end && !stamped {
                fail!(
                    "C03/no-length-request-swallows-following-bytes",
                    "backend c{b} connection {conn}: request {} ({} {}) has neither Content-Length nor Transfer-Encoding, so it ends with its head (RFC 9112 §6.3), but sozu forwarded {} more bytes behind it that it did not write as a request head (a strict reader refuses them: {detail}). {}",
                    s.reqs.len() - 1,
                    last.method,
                    last.target,
                    rest.len(),
                    ctx(o)
                );
            }
        }
        // (1) the stream is RFC 9112 for the most conservative reader
        if let Tail::Reject { at, class, detail } = &s.tail {
            let mut others = String::new();
            for v in variants.iter().chain(http::diagnostic_variants().iter()) {
                let rv = http::read_requests(o, v);
                if rv.accepted() && !rv.reqs.is_empty() {
                    others.push_str(&format!(" | a `{}` backend reads: {}", v.name, rv.describe()));
                    if others.len() > 900 {
                        break;
                    }
                }
            }
            fail!(
                format!("C03/backend-stream-not-rfc9112:{class}"),
                "backend c{b} connection {conn}: what sozu wrote is refused by a strict RFC 9112 reader at offset {at}: {detail} (after {} readable requests){}. {}",
                s.reqs.len(),
                engine::truncate(&others, 1000),
                ctx(o)
            );
        }
        // (1) … and every permissive reader finds the same boundaries
        if let Some((name, reading)) = first_variant_disagreeing(o, &s, &variants) {
            fail!(
                format!("C03/backend-stream-ambiguous:{name}"),
                "backend c{b} connection {conn}: the strict reader finds {} but a `{name}` backend finds {}. {}",
                s.describe(),
                reading,
                ctx(o)
            );
        }
        for (k, q) in s.reqs.iter().enumerate() {
            // host as routed == host as read by the backend
            let want = format!("c{b}.lab");
            let got = q.host.clone().unwrap_or_default();
            if host_only(&got) != want {
                fail!("C03/host-differs-from-route", "backend c{b} connection {conn}: request {k} was routed to cluster c{b} (host {want}) but a backend reads host {got:?}. {}", ctx(o));
            }
            // (4) header provenance
            for (n, v) in &q.headers {
                let ln = n.to_ascii_lowercase();
                if pairs.contains(&(ln.clone(), v.clone())) {
                    continue;
                }
                let ok = match ln.as_str() {
                    "host" => find_sub(c, v) || v.is_empty(),
                    "x-forwarded-for" => {
                        v.as_slice() == b"127.0.0.1"
                            || v.strip_suffix(b", 127.0.0.1").map(|p| pairs.contains(&("x-forwarded-for".into(), p.to_vec()))).unwrap_or(false)
                    }
                    "forwarded" => {
                        let txt = String::from_utf8_lossy(v).to_string();
                        match txt.rfind("proto=http;for=\"127.0.0.1:") {
                            Some(0) => txt.ends_with("\";by=127.0.0.1"),
                            Some(i) if i >= 2 => txt.ends_with("\";by=127.0.0.1") && &txt[i - 2..i] == ", " && pairs.contains(&("forwarded".into(), txt[..i - 2].as_bytes().to_vec())),
                            _ => false,
                        }
                    }
                    "x-forwarded-port" => v.as_slice() == obs.listener_port.to_string().as_bytes(),
                    "x-forwarded-proto" => v.as_slice() == b"http",
                    "x-request-id" | "sozu-id" => is_ulid(v),
                    "connection" => v.as_slice() == b"close",
                    // the cookie jar is re-serialised (`k=v; k=v`, a crumb without `=` becomes `=v`): every crumb's text is the client's
                    "cookie" => v.split(|&x| x == b';').all(|crumb| {
                        let t = String::from_utf8_lossy(crumb).trim().trim_matches('=').as_bytes().to_vec();
                        t.is_empty() || find_sub(c, &t)
                    }),
                    _ => false,
                };
                if !ok {
                    fail!(
                        format!("C03/header-not-from-client:{}", if ln.len() <= 24 && ln.bytes().all(http::is_tchar) { ln.clone() } else { "other".into() }),
                        "backend c{b} connection {conn}: request {k} carries the field {n:?}: {:?} which the client did not send and which is not in sozu's documented added set. {}",
                        esc(v, 200),
                        ctx(o)
                    );
                }
            }
            // (2) correspondence with the client's message
            let Some(m) = marker_of(q) else {
                rep.class("forwarded_without_marker");
                continue;
            };
            *markers_at_backend.entry(m.clone()).or_insert(0) += 1;
            // the client's messages with this marker (a duplicated span can carry it twice): strict reading where the
            // client's stream is unambiguous, TE-wins normalising reading elsewhere
            let mut cands: Vec<(&Req, &str)> = sc.reqs.iter().take(agreed).filter(|p| marker_of(p).as_deref() == Some(m.as_str())).map(|p| (p, "strict")).collect();
            if cands.is_empty() {
                cands = norm.reqs.iter().filter(|p| marker_of(p).as_deref() == Some(m.as_str())).map(|p| (p, "te-wins-normalised")).collect();
            }
            if cands.is_empty() {
                rep.class("forwarded_from_a_message_no_reference_reader_accepts");
                continue;
            }
            let how = cands[0].1;
            rep.class(if how == "strict" { "forwarded_compared_strict" } else { "forwarded_compared_normalised" });
            let compare = |p: &Req| -> Option<(&'static str, String)> {
                if p.method != q.method {
                    Some(("method", format!("{:?} vs {:?}", p.method, q.method)))
                } else if p.target != q.target {
                    Some(("target", format!("{:?} vs {:?}", p.target, q.target)))
                } else if p.version != q.version {
                    Some(("version", format!("{:?} vs {:?}", p.version, q.version)))
                } else if host_only(&p.host.clone().unwrap_or_default()) != host_only(&got) {
                    Some(("host", format!("{:?} vs {:?}", p.host, q.host)))
                } else if q.complete && p.complete && p.body != q.body {
                    Some(("body", format!("{} bytes ({:?}) vs {} bytes ({:?})", p.body.len(), p.framing, q.body.len(), q.framing)))
                } else if !q.complete && !p.body.starts_with(&q.body) {
                    Some(("body-prefix", format!("{} bytes vs {} bytes forwarded so far", p.body.len(), q.body.len())))
                } else if q.complete && !p.complete {
                    Some(("body-end", format!("the client's message is incomplete ({:?}, {} bytes so far) but the forwarded one is complete ({:?}, {} bytes)", p.framing, p.body.len(), q.framing, q.body.len())))
                } else {
                    None
                }
            };
            let diffs: Vec<Option<(&'static str, String)>> = cands.iter().map(|(p, _)| compare(p)).collect();
            let diff = if diffs.iter().any(|d| d.is_none()) { None } else { diffs.into_iter().next().flatten() };
            if let Some((field, d)) = diff {
                fail!(
                    format!("C03/forwarded-differs:{field}"),
                    "backend c{b} connection {conn}: request {k} (marker {m}) differs from the client's message as the {how} reader reads it: {field}: {d}. {}",
                    ctx(o)
                );
            }
        }
    }
    // (2) a client message reaches the backends at most as often as the client sent it
    for (m, n) in &markers_at_backend {
        let sent = count_sub(c, m.as_bytes());
        if *n > sent {
            fail!("C03/request-duplicated", "marker {m} occurs {sent} times in the client's bytes but {n} requests at the backends carry it. client sent {:?}", esc(c, 700));
        }
    }
    // client side
    let (resps, rtail) = http::read_responses(&obs.received, obs.client_closed_by_peer, |r| r.header_str("x-c03-head").is_some());
    if let Tail::Reject { at, class, detail } = &rtail {
        fail!(
            format!("C03/client-response-stream-unreadable:{class}"),
            "what the client received is not a sequence of HTTP/1.1 responses at offset {at}: {detail}; received {:?}; client sent {:?}",
            esc(&obs.received, 900),
            esc(c, 700)
        );
    }
    let from_backend = resps.iter().filter(|r| r.header_str("x-c03").is_some()).count();
    let mut ids: Vec<String> = resps.iter().filter_map(|r| r.header_str("x-c03")).collect();
    ids.sort();
    let n_ids = ids.len();
    ids.dedup();
    if ids.len() != n_ids {
        fail!("C03/backend-response-delivered-twice", "the client received the same backend response twice: {:?}", esc(&obs.received, 900));
    }
    if from_backend > found_total {
        fail!("C03/more-backend-answers-than-requests", "the client received {from_backend} backend responses but the backends saw {found_total} requests");
    }

    // ---- measurement
    rep.nontrivial = !client_clean || sc.reqs.len() >= 2;
    rep.class_if(client_clean, "client_stream_clean");
    rep.class_if(!client_clean, "client_stream_not_strictly_readable");
    rep.class_if(sc.reqs.len() >= 2, "pipelined_2+");
    rep.class_if(found_total > 0, "reached_a_backend");
    rep.class_if(found_total == 0, "nothing_reached_a_backend");
    rep.class_if(resps.iter().any(|r| r.status == 400), "answered_400");
    rep.class_if(resps.iter().any(|r| r.status >= 401 && r.header_str("x-c03").is_none()), "answered_other_proxy_error");
    rep.class_if(from_backend > 0, "answered_by_backend");
    rep.class_if(resps.is_empty() && obs.client_closed_by_peer, "closed_without_answer");
    rep.class_if(!client_clean && found_total > 0, "malformed_or_ambiguous_yet_forwarded");
    rep.class_if(obs.at_backend.len() >= 2, "2+_backend_connections");
    rep.inner_evaluations = found_total as u64;
    Ok(rep)
}

// ------------------------------------------------------------------ scenario

pub fn scenario(lab: &mut Lab, case: &Case) -> Result<(CaseReport, bool), Failure> {
    if !lab.http.worker.alive() {
        return Err(Failure::new("C03/worker-died", format!("the worker thread is gone: {:?}", lab.http.worker.join())));
    }
    let built = build(case);
    if built.bytes.is_empty() {
        let mut rep = CaseReport::default();
        rep.class("empty_stream");
        return Ok((rep, false));
    }
    let mut obs = observe(lab, &built.bytes, &case.write)?;
    obs.nonce = Some(format!("{:06x}", case.nonce & 0xff_ffff));
    if !lab.http.worker.alive() {
        return Err(Failure::new("C03/worker-died", format!("the worker thread died during the scenario: {:?}; client sent {:?}", lab.http.worker.join(), esc(&built.bytes, 900))));
    }
    let mut rep = match judge(&obs) {
        Ok(r) => r,
        Err(f) if std::env::var("VP_C03_SURVEY").is_ok() => {
            // exploration aid: tally signatures instead of stopping at the first
            eprintln!("SURVEY {} :: MUTS {:?} NREQ {} :: {}", f.signature, case.muts, case.reqs.len(), engine::truncate(&f.message, 1800));
            let mut r = CaseReport::default();
            r.class(format!("FAIL:{}", f.signature));
            r
        }
        Err(f) => return Err(f),
    };
    rep.excluded_known += built.excluded;
    for l in &built.labels {
        rep.class(*l);
    }
    rep.class_if(built.labels.is_empty(), "no_mutator_applied");
    rep.class_if(!case.write.steps.is_empty(), "segmented_writes");
    Ok((rep, obs.dirty))
}

const SUB_CLEAN: &str = "clean";
const SUB_CLEANWIRE: &str = "cleanwire";
const SUB_SMUGGLE: &str = "smuggle";

fn child(args: &Args, sub: &'static str, total: u64) -> Stats {
    lab::init_ports(args.shard.map(|s| s.0).unwrap_or(0) + if sub == SUB_CLEANWIRE { 7 } else { 0 });
    let labcell: RefCell<Option<Lab>> = RefCell::new(None);
    let flaky = std::cell::Cell::new(0u64);
    let run_on = |fresh: bool, case: &Case| -> CheckResult {
        let mut lab = match (fresh, labcell.borrow_mut().take()) {
            (false, Some(l)) => l,
            (_, old) => {
                drop(old);
                Lab::new()
            }
        };
        let r = scenario(&mut lab, case);
        match r {
            Ok((rep, dirty)) => {
                *labcell.borrow_mut() = if dirty { None } else { Some(lab) };
                Ok(rep)
            }
            Err(f) => {
                *labcell.borrow_mut() = None;
                Err(f)
            }
        }
    };
    let check = |case: &Case| -> CheckResult {
        let first = run_on(false, case);
        let Err(f) = first else { return first };
        for _ in 0..2 {
            if let Err(f2) = run_on(true, case) {
                return Err(if f2.signature == f.signature { f2 } else { f });
            }
        }
        flaky.set(flaky.get() + 1);
        let mut rep = CaseReport::default();
        rep.class("flaky_unconfirmed");
        Ok(rep)
    };
    let mut st = if sub == SUB_CLEANWIRE {
        engine::run_lab_shard(args, "C03", sub, total, clean_strategy(), check, 60)
    } else {
        engine::run_lab_shard(args, "C03", sub, total, smuggle_strategy(), check, 120)
    };
    st.flaky_unconfirmed += flaky.get();
    st
}

// ------------------------------------------------------------------ `clean`: the readers against clean input (in-process guard)

/// a failure here means "fix the reference reader", not "sozu is wrong"
pub fn clean_check(case: &Case) -> CheckResult {
    let mut rep = CaseReport::default();
    let built = build(&Case { muts: vec![], ..case.clone() });
    let b = &built.bytes;
    let strict = http::read_requests(b, &Opts::strict());
    if strict.tail != Tail::Clean || strict.reqs.len() != case.reqs.len() {
        fail!("C03/clean:strict-reader-refuses-clean-input", "{} requests generated, strict reading: {}; bytes {:?}", case.reqs.len(), strict.describe(), esc(b, 1200));
    }
    for (k, (q, r)) in strict.reqs.iter().zip(&case.reqs).enumerate() {
        let want_marker = marker(case.nonce, false, k);
        let want_len = match (&r.body, r.payload) {
            (Body::None, _) => 0,
            (Body::Cl(l), 0) | (Body::Chunked(l, _), 0) => *l,
            _ => payload_bytes(case, k, r, 0).len(),
        };
        if q.method != METHODS[r.method as usize % METHODS.len()] || marker_of(q).as_deref() != Some(want_marker.as_str()) || q.body.len() != want_len || host_only(&q.host.clone().unwrap_or_default()) != format!("c{}.lab", r.host % 2) {
            fail!("C03/clean:strict-reader-misreads-clean-input", "request {k}: generated {r:?}, read {} {} host {:?} body {} marker {:?}", q.method, q.target, q.host, q.body.len(), marker_of(q));
        }
    }
    for v in http::variants().iter().chain(std::iter::once(&Opts::normalising())) {
        let rv = http::read_requests(b, v);
        if rv.boundaries() != strict.boundaries() || rv.tail != Tail::Clean {
            fail!(format!("C03/clean:variant-disagrees-on-clean-input:{}", v.name), "strict: {}; {}: {}; bytes {:?}", strict.describe(), v.name, rv.describe(), esc(b, 1200));
        }
    }
    // second opinion: the lab's own strict message reader
    let mut conn = lab::h1::H1Conn::new(std::io::Cursor::new(b.clone()));
    for (k, q) in strict.reqs.iter().enumerate() {
        match conn.next_message(lab::h1::Kind::Request, Instant::now() + Duration::from_secs(5)) {
            lab::h1::ReadOutcome::Message(m) if m.body == q.body && m.method() == Some(q.method.as_str()) && m.end == lab::h1::End::Clean => {}
            other => fail!("C03/clean:readers-disagree-on-clean-input", "request {k}: model reads {} {} body {}, lab reader: {}", q.method, q.target, q.body.len(), lab::h1::describe(&other)),
        }
    }
    rep.nontrivial = case.reqs.len() >= 2;
    rep.class_if(case.reqs.len() >= 2, "pipelined_2+");
    rep.class_if(case.reqs.iter().any(|r| matches!(r.body, Body::Chunked(..))), "chunked_body");
    rep.class_if(case.reqs.iter().any(|r| matches!(r.body, Body::Cl(..))), "content_length_body");
    rep.class_if(case.reqs.iter().any(|r| r.payload != 0 && r.body != Body::None), "embedded_request_in_body");
    rep.inner_evaluations = case.reqs.len() as u64;
    Ok(rep)
}

/// fixed expectations: the asset corpus is accepted, every known smuggling shape is refused by the strict
/// reader (or read differently by some variant). Returns complaints.
fn reader_self_test() -> Vec<String> {
    let mut bad = vec![];
    let strict = Opts::strict();
    if let Ok(txt) = std::fs::read("/repo/lib/assets/http-requests.txt") {
        let mut crlf = Vec::with_capacity(txt.len() + 1000);
        for (i, &c) in txt.iter().enumerate() {
            if c == b'\n' && (i == 0 || txt[i - 1] != b'\r') {
                crlf.push(b'\r');
            }
            crlf.push(c);
        }
        let r = http::read_requests(&crlf, &strict);
        if r.tail != Tail::Clean || r.reqs.len() < 50 {
            bad.push(format!("http-requests.txt: {} requests, tail {:?}", r.reqs.len(), r.tail));
        }
        for v in http::variants() {
            let rv = http::read_requests(&crlf, &v);
            if rv.boundaries() != r.boundaries() {
                bad.push(format!("http-requests.txt: variant {} disagrees", v.name));
            }
        }
    }
    let h = "POST / HTTP/1.1\r\nHost: a\r\n";
    let smug = "0\r\n\r\nGET /x HTTP/1.1\r\nHost: a\r\n\r\n";
    let shapes: Vec<(String, &str)> = vec![
        (format!("{h}Content-Length: {}\r\nTransfer-Encoding: chunked\r\n\r\n{smug}", smug.len()), "both-cl-and-te"),
        (format!("{h}Transfer-Encoding: xchunked\r\n\r\n{smug}"), "te-final-not-chunked"),
        (format!("{h}Transfer-Encoding: chunked, identity\r\n\r\n{smug}"), "te-final-not-chunked"),
        (format!("{h}Transfer-Encoding: chunked\r\nTransfer-Encoding: identity\r\n\r\n{smug}"), "te-final-not-chunked"),
        (format!("{h}Content-Length: +5\r\n\r\nabcde"), "content-length-value"),
        (format!("{h}Content-Length: 5, 5\r\n\r\nabcde"), "dup-content-length"),
        (format!("{h}Content-Length: 5\r\nContent-Length: 6\r\n\r\nabcdef"), "dup-content-length"),
        (format!("{h}Content-Length : 5\r\n\r\nabcde"), "ws-before-colon"),
        (format!("{h}X: a\r\n Content-Length: 5\r\n\r\nabcde"), "obs-fold"),
        (format!("{h}X: a\nContent-Length: 5\r\n\r\nabcde"), "bare-lf"),
        (format!("{h}X: a\rContent-Length: 5\r\n\r\nabcde"), "bare-cr"),
        (format!("{h}X: a\0b\r\n\r\n"), "nul-in-value"),
        (format!("{h}Transfer-Encoding: chunked\r\n\r\n5;a=\"\r\n\"\r\nabcde\r\n0\r\n\r\n"), "chunk-ext"),
        (format!("{h}Transfer-Encoding: chunked\r\n\r\n0x5\r\nabcde\r\n0\r\n\r\n"), "chunk-size"),
        ("POST / HTTP/1.0\r\nTransfer-Encoding: chunked\r\n\r\n0\r\n\r\n".to_string(), "te-in-http10"),
        (format!("{h}Host: b\r\n\r\n"), "host-count"),
        ("GET  / HTTP/1.1\r\nHost: a\r\n\r\n".to_string(), "request-line"),
    ];
    for (bytes, class) in &shapes {
        let r = http::read_requests(bytes.as_bytes(), &strict);
        match &r.tail {
            Tail::Reject { class: c, .. } if c == class => {}
            other => bad.push(format!("strict reader on {bytes:?}: expected reject {class}, got {other:?}")),
        }
    }
    // the variants see the smuggled request where the strict reader refuses
    let clte = format!("{h}Content-Length: {}\r\nTransfer-Encoding: chunked\r\n\r\n{smug}", smug.len());
    let te = http::read_requests(clte.as_bytes(), &http::variants()[0]);
    let cl = http::read_requests(clte.as_bytes(), &http::variants()[1]);
    if te.reqs.len() != 2 || cl.reqs.len() != 1 {
        bad.push(format!("CL.TE sample: te-wins finds {} requests, cl-wins {}", te.reqs.len(), cl.reqs.len()));
    }
    bad
}

// ------------------------------------------------------------------ run

pub fn run(args: &Args) -> i32 {
    if args.shard.is_some() && args.only.as_deref() == Some(super::c03_h2::SUB) {
        let st = super::c03_h2::child(args, args.cases(super::c03_h2::QUICK, super::c03_h2::THOROUGH));
        return engine::shard::child_finish(args, &st);
    }
    if args.shard.is_some() {
        let sub = if args.only.as_deref() == Some(SUB_CLEANWIRE) { SUB_CLEANWIRE } else { SUB_SMUGGLE };
        let total = if sub == SUB_CLEANWIRE { args.cases(320, 3_000) } else { args.cases(1_600, 20_000) };
        let st = child(args, sub, total);
        return engine::shard::child_finish(args, &st);
    }
    let mut ev = Evidence::new(args, "exploration");
    ev.rule(
        SUB_CLEAN,
        "guard for the reference readers (a failure means: fix the reader): grammar-generated clean pipelined request sequences (1..3 requests, 8 methods, origin/absolute targets, 0..3 harmless fields, no body / Content-Length / chunked bodies whose content may itself be a complete request) must be read by the strict RFC 9112 reader exactly as generated, by all 14 permissive variants and the TE-wins normalising reader with the same boundaries, and by the lab's independent message reader with the same bodies; /repo/lib/assets/http-requests.txt (LF -> CRLF) must be accepted; 17 fixed smuggling shapes must be refused with the expected reason. Non-trivial: 2+ requests.",
    );
    ev.rule(
        SUB_CLEANWIRE,
        "wire lab, same clean grammar, generated segmentation of the client's writes: what sozu writes to the recording backends for clean input must pass the whole oracle of `smuggle` (guard: sozu's normal output is accepted by the readers). Non-trivial: 2+ pipelined requests.",
    );
    ev.rule(
        SUB_SMUGGLE,
        "wire lab: one client connection to a live worker (2 clusters c0.lab / c1.lab, each with a recording backend that stores every byte per connection and answers 200 to each request the STRICT reader can read). Client bytes = clean grammar sequence (1..3 pipelined requests, each with a unique marker field; bodies may embed a complete request) + 1..3 mutators from the catalogue (CL+TE / TE+CL, duplicate / conflicting / malformed Content-Length values, 20 Transfer-Encoding value forms, TE split over two fields, whitespace before colon, obs-fold, bare LF, bare CR, NUL/CTL/0x80+ bytes in names and values, 23 chunk-framing forms, 9 version forms incl. HTTP/1.0 + TE, 16 Host forms, 17 request-line forms, byte flip / delete / duplicate / token insert / truncate) written with generated segmentation. Oracle on O = bytes each backend connection received: (1) the strict RFC 9112 reader accepts O and 14 permissive variant readers find the same boundaries; (2) every request any strict reading finds in O carries exactly one Sozu-Id (sozu wrote it as a request head, i.e. it is a request sozu itself understood), its host is the routed cluster's, it occurs at most as often as the client sent its marker, and method / target / version / host / body equal the client's message as read by the strict reader (unambiguous client messages) or by the TE-wins normalising reader (ambiguous ones); (3) ambiguous or malformed client input either does not reach a backend or reaches it in a form satisfying (1)-(2); (4) no CR / LF / NUL / CTL in forwarded field values (strict reader), every forwarded field is one the client sent or one of sozu's documented additions (Host rewritten from the authority, X-Forwarded-For/-Port/-Proto, Forwarded, X-Request-Id, Sozu-Id, Connection: close, re-serialised Cookie). The client's received bytes must be a readable response sequence, no backend response twice. A failure in a connection where sozu forwarded a Transfer-Encoding value that is not a token list ending in chunked is reported under the one signature of that root cause. A failure is re-run twice on a fresh worker. Non-trivial: the client stream is not accepted byte-for-byte by the strict reader and all variants, or it holds 2+ requests.",
    );
    ev.assume("clean / cleanwire / smuggle exercise the HTTP/1.1 frontend -> HTTP/1.1 backend path; the HTTP/2 frontend -> HTTP/1.1 backend path is sub-check h2smuggle (props/c03_h2.rs); h2c backends, the in-process tier and the h1_smuggle fuzz target of the design are not built");
    ev.assume("`any RFC-conforming backend` is approximated by one strict and 14 permissive reference readers; a backend quirk not modelled by a variant is invisible");
    ev.assume("the end of a scenario is a quiet period (220 ms without a byte on either side): bytes sozu would forward later are not seen; every verdict is a positive observation on bytes that did arrive, never an absence");
    ev.assume("default features (tolerant-http1-parser off), default listener options (no X-Real-IP injection), CONNECT and Upgrade / Expect: 100-continue are not generated");

    // ---- clean (in-process)
    if args.wants(SUB_CLEAN) && args.replay.is_none() {
        for c in reader_self_test() {
            ev.inconclusive(SUB_CLEAN, format!("reference reader self-test: {c}"));
        }
    }
    ev.floor(SUB_CLEAN, "pipelined_2+", 0.4);
    ev.floor(SUB_CLEAN, "embedded_request_in_body", 0.1);
    engine::run_pbt(&mut ev, args, SUB_CLEAN, args.cases(4_000, 100_000), clean_strategy, clean_check);

    // ---- wire lab
    ev.floor(SUB_CLEANWIRE, "pipelined_2+", 0.4);
    ev.floor(SUB_CLEANWIRE, "reached_a_backend", 0.8);
    ev.floor(SUB_SMUGGLE, "client_stream_not_strictly_readable", 0.4);
    ev.floor(SUB_SMUGGLE, "reached_a_backend", 0.15);
    ev.floor(SUB_SMUGGLE, "malformed_or_ambiguous_yet_forwarded", 0.02);
    let watchdog = Duration::from_secs(args.tier.pick(600, 5400));
    engine::shard::run_sharded(&mut ev, args, SUB_CLEANWIRE, 16, watchdog);
    engine::shard::run_sharded(&mut ev, args, SUB_SMUGGLE, 16, watchdog);
    super::c03_h2::describe(&mut ev);
    engine::shard::run_sharded(&mut ev, args, super::c03_h2::SUB, 16, watchdog);
    ev.finish()
}
