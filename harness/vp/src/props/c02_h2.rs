//! C02 sub-check `h2answers` — every request answered exactly once, HTTP/2 frontend (DESIGN §4 C02).
//!
//! One HTTP/2 connection (TLS, ALPN h2) to a live worker, 1..4 request streams opened together or one
//! after the other; every stream is routed by `:authority` to a cluster whose backend behaviour is
//! generated per stream (HTTP/1.1 mock backends of `c02.rs`, an h2c mock backend with fault injection
//! defined here). The oracle reads what the client's own frame reader saw on each stream.

use std::{
    cell::RefCell,
    collections::BTreeMap,
    net::{SocketAddr, TcpStream},
    sync::{Arc, Mutex, atomic::Ordering},
    time::{Duration, Instant},
};

use proptest::prelude::*;
use serde::{Deserialize, Serialize};
use sozu_command_lib::{
    config::ListenerBuilder,
    proto::command::{ActivateListener, AddCertificate, CertificateAndKey, ListenerType, PathRule, RequestHttpFrontend, RulePosition, request::RequestType},
    scm_socket::Listeners,
    state::ConfigState,
};

use super::c02::{self, Act, CutPos};
use crate::{
    engine::{self, Args, CaseReport, CheckResult, Evidence, Failure, Stats, pick_idx},
    gens::certs,
    lab::{
        self, LabConfig, LabWorker,
        h1::{Acceptor, BodyFraming, content, first_mismatch},
        h2::{self, Frame, H2Conn, H2Event, Settings},
    },
};

pub const SUB: &str = "h2answers";
pub const QUICK: u64 = 480;
pub const THOROUGH: u64 = 4_800;

const FRONT_TIMEOUT: u32 = 3;
const BACK_TIMEOUT: u32 = 2;
const CONNECT_TIMEOUT: u32 = 1;
const REQUEST_TIMEOUT: u32 = 2;
/// what "beyond the configured timeouts" is observed to
const SLACK: Duration = Duration::from_millis(2500);

// ------------------------------------------------------------------ case

/// the cluster a stream that reaches a backend is routed to
#[derive(Clone, Copy, Debug, Serialize, Deserialize, PartialEq)]
pub enum Target {
    /// HTTP/1.1 cluster `ha` (host ha.lab)
    Ha,
    /// HTTP/1.1 cluster `hb` (host hb.lab)
    Hb,
    /// h2c cluster `g` (host g.lab)
    G,
}

/// where in its response the h2c backend misbehaves
#[derive(Clone, Debug, Serialize, Deserialize, PartialEq)]
pub enum Point {
    /// request read, nothing sent
    BeforeHeaders,
    /// response HEADERS sent, no DATA
    AfterHeaders,
    /// HEADERS and 1..len-1 body bytes sent
    MidBody(u32),
}

#[derive(Clone, Debug, Serialize, Deserialize, PartialEq)]
pub enum Cause {
    /// the backend answers 200 with the generated body
    Normal,
    /// unknown host -> 404
    NoRoute,
    /// frontend without cluster -> 401
    Deny,
    /// cluster without backend -> 503
    NoBackend,
    /// an authority the connection's certificate does not cover -> 421
    WrongCertificate,
    /// a second connection of one address to a cluster limited to one -> 429
    PerIpLimit,
    /// the cluster's only backend address refuses connections -> 503
    Refuses,
    /// the cluster's only backend accepts and closes at once -> 502 | 503
    ClosesAtAccept,
    /// HTTP/1.1 backend reads the request, closes without a byte (FIN or RST) -> 502
    ClosesWithoutAnswer { reset: bool },
    /// HTTP/1.1 backend answers bytes that are not HTTP -> 502
    Garbage { kind: u32, linger: bool },
    /// HTTP/1.1 backend sends a prefix of its response, then closes (FIN or RST, at once or 30 ms later)
    Cuts { at: CutPos, reset: bool, pause: bool },
    /// HTTP/1.1 backend reads the request and never answers -> 504
    Stalls,
    /// HTTP/1.1 backend sends a prefix of its response, then goes silent
    StallsMidResponse { at: CutPos },
    /// h2c backend resets the stream
    H2Rst { at: Point, code: u32 },
    /// h2c backend sends GOAWAY (last stream id = the highest it has seen) and closes the connection
    H2Goaway { at: Point, code: u32 },
    /// h2c backend closes the connection (FIN or RST)
    H2Close { at: Point, reset: bool },
    /// h2c backend goes silent on this stream (the connection stays open)
    H2Stalls { at: Point },
}

impl Cause {
    pub fn label(&self) -> &'static str {
        match self {
            Cause::Normal => "normal",
            Cause::NoRoute => "no_route",
            Cause::Deny => "deny",
            Cause::NoBackend => "no_backend",
            Cause::WrongCertificate => "wrong_certificate",
            Cause::PerIpLimit => "per_ip_limit",
            Cause::Refuses => "backend_refuses",
            Cause::ClosesAtAccept => "backend_closes_at_accept",
            Cause::ClosesWithoutAnswer { .. } => "h1_closes_without_answer",
            Cause::Garbage { .. } => "h1_garbage",
            Cause::Cuts { at, .. } => {
                if matches!(at, CutPos::StatusLine(_) | CutPos::Headers(_)) { "h1_cuts_head" } else { "h1_cuts_body" }
            }
            Cause::Stalls => "h1_stalls",
            Cause::StallsMidResponse { at } => {
                if matches!(at, CutPos::StatusLine(_) | CutPos::Headers(_)) { "h1_stalls_in_head" } else { "h1_stalls_mid_body" }
            }
            Cause::H2Rst { at: Point::BeforeHeaders, .. } => "h2c_rst_before_headers",
            Cause::H2Rst { .. } => "h2c_rst_mid_response",
            Cause::H2Goaway { at: Point::BeforeHeaders, .. } => "h2c_goaway_before_headers",
            Cause::H2Goaway { .. } => "h2c_goaway_mid_response",
            Cause::H2Close { at: Point::BeforeHeaders, .. } => "h2c_close_before_headers",
            Cause::H2Close { .. } => "h2c_close_mid_response",
            Cause::H2Stalls { at: Point::BeforeHeaders } => "h2c_stalls",
            Cause::H2Stalls { .. } => "h2c_stalls_mid_response",
        }
    }
    pub fn is_fault(&self) -> bool {
        *self != Cause::Normal
    }
    /// the backend never produces an answer in time: the outcome waits for back_timeout
    pub fn is_stall(&self) -> bool {
        matches!(self, Cause::Stalls | Cause::StallsMidResponse { .. } | Cause::H2Stalls { .. })
    }
    fn is_h1_backend_fault(&self) -> bool {
        matches!(self, Cause::ClosesWithoutAnswer { .. } | Cause::Garbage { .. } | Cause::Cuts { .. } | Cause::Stalls | Cause::StallsMidResponse { .. })
    }
    fn is_h2c_fault(&self) -> bool {
        matches!(self, Cause::H2Rst { .. } | Cause::H2Goaway { .. } | Cause::H2Close { .. } | Cause::H2Stalls { .. })
    }
    /// the h2c backend connection itself goes away: every stream that shares it is hit
    fn kills_h2c_connection(&self) -> bool {
        matches!(self, Cause::H2Goaway { .. } | Cause::H2Close { .. })
    }
    fn reaches_programmable_backend(&self) -> bool {
        *self == Cause::Normal || self.is_h1_backend_fault() || self.is_h2c_fault()
    }
}

#[derive(Clone, Debug, Serialize, Deserialize)]
pub struct StreamSpec {
    pub cause: Cause,
    pub target: Target,
    /// request body (0 = GET without body), written with the head
    pub req_len: usize,
    pub resp_len: usize,
    /// HTTP/1.1 backend: the framing of the response; h2c backend: `Chunked(sizes)` = DATA frame sizes,
    /// `ContentLength` = a content-length field and default frames, `CloseDelimited` = neither
    pub resp_framing: BodyFraming,
    /// HTTP/1.1 backend: `Connection: close` on a Content-Length / chunked response (and close after it)
    pub resp_conn_close: bool,
    /// HTTP/1.1 backend: close the keep-alive connection silently after the complete response
    pub backend_closes_after: bool,
    /// regression files only (never generated): the HTTP/1.1 backend waits this long before it sends its (normal) response
    #[serde(default)]
    pub resp_delay_ms: u16,
    /// regression files only (never generated): the client waits this long before it opens this stream
    #[serde(default)]
    pub gap_ms: u16,
}

#[derive(Clone, Debug, Serialize, Deserialize)]
pub struct Case {
    pub seed: u64,
    /// use the listener whose 401/404/421/429/502/503/504 templates carry no `Connection: close`
    /// (sozu's default templates do, and an HTTP/2 connection is then drained with GOAWAY after the answer)
    pub keepalive_answers: bool,
    /// all streams are opened before any answer is read; otherwise stream k+1 is opened once stream k has its outcome
    pub all_at_once: bool,
    pub streams: Vec<StreamSpec>,
    /// do not exclude the shapes of known findings (regression files of known findings set this)
    #[serde(default)]
    pub strict: bool,
}

fn chunk_sizes() -> impl Strategy<Value = Vec<usize>> {
    prop::collection::vec(prop_oneof![Just(1usize), 1usize..64, 64usize..5000, Just(16384), 5000usize..20000], 1..4)
}

fn body_len(max: usize) -> impl Strategy<Value = usize> {
    prop_oneof![2 => 0usize..3, 4 => 3usize..600, 2 => 600usize..max.max(601), 1 => prop_oneof![Just(16383usize), Just(16384), Just(16393), Just(16394)]]
}

fn cut_pos() -> impl Strategy<Value = CutPos> {
    prop_oneof![
        2 => any::<u32>().prop_map(CutPos::StatusLine),
        3 => any::<u32>().prop_map(CutPos::Headers),
        2 => Just(CutPos::HeadEnd),
        6 => any::<u32>().prop_map(CutPos::Body),
        2 => Just(CutPos::BodyMinus1),
    ]
}

fn point() -> impl Strategy<Value = Point> {
    prop_oneof![3 => Just(Point::BeforeHeaders), 2 => Just(Point::AfterHeaders), 4 => any::<u32>().prop_map(Point::MidBody)]
}

fn rst_code() -> impl Strategy<Value = u32> {
    prop_oneof![Just(h2::INTERNAL_ERROR), Just(h2::CANCEL), Just(h2::REFUSED_STREAM), Just(h2::NO_ERROR), Just(h2::PROTOCOL_ERROR), Just(h2::ENHANCE_YOUR_CALM)]
}

fn fault() -> impl Strategy<Value = Cause> {
    prop_oneof![
        4 => Just(Cause::NoRoute),
        3 => Just(Cause::Deny),
        3 => Just(Cause::NoBackend),
        3 => Just(Cause::WrongCertificate),
        3 => Just(Cause::PerIpLimit),
        6 => Just(Cause::Refuses),
        5 => Just(Cause::ClosesAtAccept),
        8 => any::<bool>().prop_map(|reset| Cause::ClosesWithoutAnswer { reset }),
        7 => (any::<u32>(), any::<bool>()).prop_map(|(kind, linger)| Cause::Garbage { kind, linger }),
        22 => (cut_pos(), any::<bool>(), prop::bool::weighted(0.6)).prop_map(|(at, reset, pause)| Cause::Cuts { at, reset, pause }),
        5 => Just(Cause::Stalls),
        4 => cut_pos().prop_map(|at| Cause::StallsMidResponse { at }),
        9 => (point(), rst_code()).prop_map(|(at, code)| Cause::H2Rst { at, code }),
        5 => (point(), prop_oneof![Just(h2::NO_ERROR), Just(h2::INTERNAL_ERROR), Just(h2::ENHANCE_YOUR_CALM)]).prop_map(|(at, code)| Cause::H2Goaway { at, code }),
        8 => (point(), any::<bool>()).prop_map(|(at, reset)| Cause::H2Close { at, reset }),
        4 => point().prop_map(|at| Cause::H2Stalls { at }),
    ]
}

fn stream_with(cause: impl Strategy<Value = Cause>) -> impl Strategy<Value = StreamSpec> {
    (
        cause,
        prop_oneof![3 => Just(Target::Ha), 2 => Just(Target::Hb), 3 => Just(Target::G)],
        prop_oneof![3 => Just(0usize), 1 => 1usize..1000],
        body_len(60_000),
        prop_oneof![4 => Just(BodyFraming::ContentLength), 4 => chunk_sizes().prop_map(BodyFraming::Chunked), 1 => Just(BodyFraming::CloseDelimited)],
        prop::bool::weighted(0.3),
        prop::bool::weighted(0.3),
    )
        .prop_map(|(cause, target, req_len, resp_len, resp_framing, resp_conn_close, backend_closes_after)| normalise(StreamSpec { cause, target, req_len, resp_len, resp_framing, resp_conn_close, backend_closes_after, resp_delay_ms: 0, gap_ms: 0 }))
}

/// Make a stream self-consistent (by construction, not by filtering).
pub fn normalise(mut s: StreamSpec) -> StreamSpec {
    if s.cause.is_h1_backend_fault() && s.target == Target::G {
        s.target = Target::Ha;
    }
    if s.cause.is_h2c_fault() {
        s.target = Target::G;
    }
    match &s.cause {
        Cause::Cuts { .. } | Cause::StallsMidResponse { .. } => {
            // a cut of a close-delimited response is a clean end by definition: only length-delimited framings
            if s.resp_framing == BodyFraming::CloseDelimited {
                s.resp_framing = BodyFraming::ContentLength;
            }
            s.resp_len = s.resp_len.max(2);
            s.backend_closes_after = false;
        }
        Cause::H2Rst { at, .. } | Cause::H2Goaway { at, .. } | Cause::H2Close { at, .. } | Cause::H2Stalls { at } => {
            // a response that has started always has body bytes still to come when the fault happens
            if *at != Point::BeforeHeaders {
                s.resp_len = s.resp_len.max(2);
            }
        }
        Cause::Normal => {}
        _ => s.backend_closes_after = false,
    }
    if s.target == Target::G {
        s.resp_conn_close = false;
        s.backend_closes_after = false;
    }
    if s.resp_framing == BodyFraming::CloseDelimited && s.target != Target::G {
        s.resp_conn_close = false;
        s.backend_closes_after = false;
    }
    if s.resp_conn_close {
        s.backend_closes_after = false;
    }
    s
}

pub fn strategy() -> impl Strategy<Value = Case> {
    (
        any::<u64>(),
        any::<bool>(),
        prop::bool::weighted(0.45),
        stream_with(fault()),
        prop::collection::vec(stream_with(prop_oneof![3 => Just(Cause::Normal), 2 => fault()]), 0..4),
        any::<u32>(),
        prop::bool::weighted(0.35),
    )
        .prop_map(|(seed, keepalive_answers, all_at_once, f, mut others, pos, same_backend)| {
            // often: every stream that reaches an HTTP/1.1 backend goes to the same one (keep-alive reuse)
            if same_backend {
                for s in others.iter_mut() {
                    if s.target == Target::Hb {
                        s.target = Target::Ha;
                    }
                }
            }
            let at = pick_idx(pos, others.len() + 1);
            others.insert(at, f);
            let all_at_once = all_at_once && others.len() > 1;
            Case { seed, keepalive_answers, all_at_once, streams: others, strict: false }
        })
}

// ------------------------------------------------------------------ the h2c mock backend

#[derive(Clone, Debug, PartialEq)]
enum GEvent {
    Rst(u32),
    /// GOAWAY(last = highest stream seen, code), the connection is closed 20 ms later
    Goaway(u32),
    Close { reset: bool },
    Stall,
}

/// What the h2c backend does with the request carrying `x-lab-req: <n>`.
#[derive(Clone, Debug)]
struct GAct {
    body: Vec<u8>,
    frame_sizes: Vec<usize>,
    content_length: bool,
    /// (body bytes sent before the event: None = before HEADERS, Some(k) = after HEADERS and k body bytes; event)
    fault: Option<(Option<usize>, GEvent)>,
}

#[derive(Clone, Debug)]
struct GRec {
    conn: usize,
    lab_req: Option<usize>,
}

#[derive(Default)]
struct GShared {
    actions: BTreeMap<usize, GAct>,
    recorded: Vec<GRec>,
    errors: Vec<String>,
}

fn linger0(s: &TcpStream) {
    use std::os::fd::AsRawFd;
    let l = libc::linger { l_onoff: 1, l_linger: 0 };
    unsafe {
        libc::setsockopt(s.as_raw_fd(), libc::SOL_SOCKET, libc::SO_LINGER, &l as *const _ as *const libc::c_void, std::mem::size_of::<libc::linger>() as u32);
    }
}

fn serve_g(conn_idx: usize, stream: TcpStream, shared: Arc<Mutex<GShared>>) {
    let _ = stream.set_read_timeout(Some(Duration::from_millis(10)));
    let mut c = H2Conn::new(stream, true, Settings::default());
    c.auto_window_update = true;
    if c.start().is_err() {
        return;
    }
    if let Err(e) = c.expect_preface(Instant::now() + Duration::from_secs(5)) {
        shared.lock().unwrap().errors.push(format!("h2c backend conn {conn_idx}: {e}"));
        return;
    }
    c.replenish(0);
    let mut handled: Vec<u32> = vec![];
    let mut last_activity = Instant::now();
    // what an event does to the connection: true = the connection ends now
    let apply = |c: &mut H2Conn<TcpStream>, sid: u32, ev: &GEvent| -> bool {
        match ev {
            GEvent::Rst(code) => {
                let _ = c.send(&Frame::rst(sid, *code));
                false
            }
            GEvent::Goaway(code) => {
                let last = c.max_stream_seen;
                let _ = c.send(&Frame::goaway(last, *code));
                std::thread::sleep(Duration::from_millis(20));
                true
            }
            GEvent::Close { reset } => {
                if *reset {
                    linger0(&c.s);
                }
                true
            }
            GEvent::Stall => false,
        }
    };
    loop {
        c.replenish_open();
        match c.next_frame(Instant::now() + Duration::from_millis(10)) {
            H2Event::Frame(f) => {
                last_activity = Instant::now();
                if f.typ == h2::GOAWAY {
                    break;
                }
            }
            H2Event::Timeout => {
                if last_activity.elapsed() > Duration::from_secs(8) {
                    break;
                }
            }
            H2Event::Eof | H2Event::Reset => break,
        }
        let done: Vec<u32> = c.streams.iter().filter(|(id, s)| s.end_stream && s.headers_done && !handled.contains(id) && s.reset.is_none()).map(|(id, _)| *id).collect();
        for sid in done {
            handled.push(sid);
            let lab_req = h2::hdr(&c.streams[&sid].headers, "x-lab-req").and_then(|v| v.trim().parse::<usize>().ok());
            let action = {
                let mut g = shared.lock().unwrap();
                g.recorded.push(GRec { conn: conn_idx, lab_req });
                lab_req.and_then(|n| g.actions.get(&n).cloned())
            };
            let action = action.unwrap_or(GAct { body: vec![], frame_sizes: vec![], content_length: true, fault: None });
            if let Some((None, ev)) = &action.fault {
                if apply(&mut c, sid, ev) {
                    return;
                }
                continue;
            }
            let mut headers = vec![(":status".to_string(), "200".to_string()), ("x-lab-resp".to_string(), lab_req.unwrap_or(0).to_string())];
            if action.content_length {
                headers.push(("content-length".to_string(), action.body.len().to_string()));
            }
            let end_on_headers = action.body.is_empty() && action.fault.is_none();
            if c.send_headers(sid, &headers, end_on_headers, None).is_err() {
                return;
            }
            if end_on_headers {
                continue;
            }
            match &action.fault {
                Some((Some(k), ev)) => {
                    let k = (*k).min(action.body.len());
                    if k > 0 {
                        let _ = c.send_body(sid, &action.body[..k], &action.frame_sizes, None, false, Instant::now() + Duration::from_secs(5));
                    }
                    if apply(&mut c, sid, ev) {
                        return;
                    }
                }
                _ => {
                    if let Err(e) = c.send_body(sid, &action.body, &action.frame_sizes, None, true, Instant::now() + Duration::from_secs(5)) {
                        shared.lock().unwrap().errors.push(format!("h2c backend conn {conn_idx} stream {sid}: {e}"));
                    }
                }
            }
            last_activity = Instant::now();
        }
    }
}

// ------------------------------------------------------------------ lab

const KEEPALIVE_CODES: &[(u16, &str)] = &[(401, "Unauthorized"), (404, "Not Found"), (421, "Misdirected Request"), (429, "Too Many Requests"), (502, "Bad Gateway"), (503, "Service Unavailable"), (504, "Gateway Timeout")];

fn keepalive_body(code: u16) -> String {
    format!("lab answer {code}")
}

fn lab_config() -> LabConfig {
    LabConfig { front_timeout: FRONT_TIMEOUT, back_timeout: BACK_TIMEOUT, connect_timeout: CONNECT_TIMEOUT, request_timeout: REQUEST_TIMEOUT, ..LabConfig::default() }
}

const SNI: &str = "ha.lab";

pub struct Lab {
    pub worker: LabWorker,
    /// listener with sozu's default answers (all carry `Connection: close`)
    addr_close: SocketAddr,
    /// listener whose proxy answers carry a Content-Length and no `Connection: close`
    addr_keep: SocketAddr,
    backends: Vec<Acceptor>,
    _refusing: std::os::fd::OwnedFd,
    h1: Arc<Mutex<c02::Shared>>,
    g: Arc<Mutex<GShared>>,
    scenario_no: usize,
}

impl Lab {
    pub fn new() -> Lab {
        let mut worker = LabWorker::start("c02h2", lab_config(), Listeners::default(), &ConfigState::new());
        let mut addrs = vec![];
        for keep in [false, true] {
            let addr = lab::free_addr();
            let mut b = ListenerBuilder::new_https(addr.into());
            b.with_front_timeout(Some(FRONT_TIMEOUT)).with_back_timeout(Some(BACK_TIMEOUT)).with_connect_timeout(Some(CONNECT_TIMEOUT)).with_request_timeout(Some(REQUEST_TIMEOUT));
            let mut l = b.to_tls(None).expect("https listener config");
            l.certificate = Some(certs::LAB_CERT.to_string());
            l.key = Some(certs::LAB_KEY.to_string());
            l.alpn_protocols = vec!["h2".into(), "http/1.1".into()];
            if keep {
                for (code, reason) in KEEPALIVE_CODES {
                    let body = keepalive_body(*code);
                    l.answers.insert(code.to_string(), format!("HTTP/1.1 {code} {reason}\r\nContent-Length: {}\r\nX-Lab-Answer: {code}\r\n\r\n{body}", body.len()));
                }
            }
            worker.must(RequestType::AddHttpsListener(l));
            worker.must(RequestType::AddCertificate(AddCertificate {
                address: addr.into(),
                certificate: CertificateAndKey { certificate: certs::LAB_CERT.to_string(), certificate_chain: vec![], key: certs::LAB_KEY.to_string(), versions: vec![], names: vec![] },
                expired_at: None,
            }));
            worker.must(RequestType::ActivateListener(ActivateListener { address: addr.into(), proxy: ListenerType::Https.into(), from_scm: false }));
            addrs.push(addr);
        }
        let h1 = Arc::new(Mutex::new(c02::Shared::default()));
        let g = Arc::new(Mutex::new(GShared::default()));
        let mut backends = vec![];
        // ha, hb, lim: programmable HTTP/1.1 backends 0, 1, 2
        for (i, cluster) in ["ha", "hb", "lim"].iter().enumerate() {
            worker.add_cluster(cluster, |c| {
                if *cluster == "lim" {
                    c.max_connections_per_ip = Some(1);
                }
            });
            let (addr, listener) = lab::bound_listener();
            worker.add_backend(cluster, &format!("{cluster}-0"), addr);
            let sh = h1.clone();
            backends.push(Acceptor::spawn(listener, move |_conn, stream| c02::serve(i, stream, sh.clone())));
        }
        // g: the h2c backend (index 3)
        worker.add_cluster("g", |c| c.http2 = Some(true));
        let (addr, listener) = lab::bound_listener();
        worker.add_backend("g", "g-0", addr);
        let sg = g.clone();
        backends.push(Acceptor::spawn(listener, move |conn, stream| serve_g(conn, stream, sg.clone())));
        // cb: the backend accepts and closes at once
        worker.add_cluster("cb", |_| {});
        let (addr, listener) = lab::bound_listener();
        worker.add_backend("cb", "cb-0", addr);
        backends.push(Acceptor::spawn(listener, move |_conn, stream| drop(stream)));
        // rf: the backend address refuses connections
        worker.add_cluster("rf", |_| {});
        let (addr, refusing) = c02::bound_not_listening();
        worker.add_backend("rf", "rf-0", addr);
        // nb: no backend at all
        worker.add_cluster("nb", |_| {});
        for listener in &addrs {
            let mut front = |cluster: Option<&str>, host: &str| {
                worker.must(RequestType::AddHttpsFrontend(RequestHttpFrontend {
                    cluster_id: cluster.map(|c| c.to_string()),
                    address: (*listener).into(),
                    hostname: host.to_string(),
                    path: PathRule::prefix("/".to_string()),
                    position: RulePosition::Tree.into(),
                    ..Default::default()
                }));
            };
            for cluster in ["ha", "hb", "lim", "g", "cb", "rf", "nb"] {
                front(Some(cluster), &format!("{cluster}.lab"));
            }
            // a frontend without a cluster denies
            front(None, "deny.lab");
            // a routable host the lab certificate (*.lab, lab, localhost) does not cover
            front(Some("ha"), "wrongcert.test");
        }
        Lab { worker, addr_close: addrs[0], addr_keep: addrs[1], backends, _refusing: refusing, h1, g, scenario_no: 0 }
    }
}

// ------------------------------------------------------------------ the client

type Tls = rustls::StreamOwned<rustls::ClientConnection, TcpStream>;

fn connect(addr: SocketAddr) -> Result<H2Conn<Tls>, String> {
    let (tls, _info) = h2::tls_connect(addr, SNI, &["h2"]).map_err(|e| format!("TLS connect: {e}"))?;
    if tls.conn.alpn_protocol() != Some(b"h2") {
        return Err(format!("ALPN negotiated {:?}, wanted h2", tls.conn.alpn_protocol().map(String::from_utf8_lossy)));
    }
    let mut c = H2Conn::new(tls, false, Settings::default());
    c.start().map_err(|e| format!("send preface: {e}"))?;
    let deadline = Instant::now() + Duration::from_secs(5);
    loop {
        match c.next_frame(deadline) {
            H2Event::Frame(f) => {
                if f.typ == h2::SETTINGS && f.flags & h2::F_ACK == 0 {
                    break;
                }
            }
            H2Event::Timeout => {
                if Instant::now() >= deadline {
                    return Err("sozu sent no SETTINGS".into());
                }
            }
            other => return Err(format!("connection ended during the SETTINGS exchange: {other:?}")),
        }
    }
    // generous windows: flow control is C14's subject
    c.auto_window_update = true;
    c.replenish(0);
    let _ = c.s.sock.set_read_timeout(Some(Duration::from_millis(4)));
    Ok(c)
}

fn close_client(mut c: H2Conn<Tls>) {
    let _ = c.send(&Frame::goaway(0, h2::NO_ERROR));
    c.s.conn.send_close_notify();
    let _ = c.s.conn.complete_io(&mut c.s.sock);
    let _ = c.s.sock.shutdown(std::net::Shutdown::Both);
}

/// How a stream ended, as the client's frame reader saw it.
#[derive(Clone, Debug, PartialEq)]
enum Outcome {
    /// HEADERS ... END_STREAM
    Complete,
    Rst(u32),
    /// a GOAWAY whose last stream id is below this stream
    Goaway { last: u32, code: u32 },
    /// the connection ended (after a GOAWAY that covered the stream, or without one)
    ConnClosed { goaway: Option<(u32, u32)>, how: &'static str },
    /// the connection was closed before the client had written the whole request
    NotReceived,
}

impl Outcome {
    /// the stream was refused in a way that guarantees it was not processed (RFC 9113 8.7): safe to retry
    fn unprocessed(&self) -> bool {
        matches!(self, Outcome::Rst(code) if *code == h2::REFUSED_STREAM) || matches!(self, Outcome::Goaway { .. } | Outcome::NotReceived)
    }
    fn name(&self) -> String {
        match self {
            Outcome::Complete => "complete".into(),
            Outcome::Rst(c) => format!("rst:{c}"),
            Outcome::Goaway { code, .. } => format!("goaway:{code}"),
            Outcome::ConnClosed { .. } => "connection-closed".into(),
            Outcome::NotReceived => "not-received".into(),
        }
    }
}

/// One attempt of one stream on one client connection.
#[derive(Clone, Debug)]
struct Run {
    id: u32,
    conn_no: usize,
    sent_at: Instant,
    outcome: Option<(Outcome, Instant)>,
    /// header blocks received: (:status, x-lab-resp, x-lab-answer, content-length)
    blocks: Vec<(Option<u16>, Option<String>, Option<String>, Option<String>)>,
    body: Vec<u8>,
    /// every frame of this stream in order of arrival
    frames: Vec<String>,
    /// HEADERS / DATA received after END_STREAM
    after_end: Vec<String>,
    end_stream: bool,
}

impl Run {
    fn describe(&self) -> String {
        format!(
            "stream {} on client connection {}: frames [{}], outcome {}",
            self.id,
            self.conn_no,
            self.frames.join(", "),
            match &self.outcome {
                Some((o, at)) => format!("{o:?} after {:.2} s", at.duration_since(self.sent_at).as_secs_f64()),
                None => "none".into(),
            }
        )
    }
    fn final_blocks(&self) -> Vec<u16> {
        self.blocks.iter().filter_map(|b| b.0).filter(|s| *s >= 200).collect()
    }
}

struct ClientConn {
    c: H2Conn<Tls>,
    no: usize,
    next_id: u32,
    /// connection-level events in order of arrival
    events: Vec<String>,
    dead: bool,
}

impl ClientConn {
    fn usable(&self) -> bool {
        !self.dead && !self.c.eof && self.c.goaway.is_none()
    }
}

/// account one received frame to the run it belongs to
fn note_frame(cc: &mut ClientConn, runs: &mut [Run], f: &Frame) {
    let now = Instant::now();
    match f.typ {
        h2::GOAWAY => {
            let (last, code) = cc.c.goaway.unwrap_or((0, 0));
            cc.events.push(format!("GOAWAY(last_stream_id={last}, code={code})"));
            for r in runs.iter_mut().filter(|r| r.conn_no == cc.no && r.outcome.is_none() && r.id > last) {
                r.outcome = Some((Outcome::Goaway { last, code }, now));
            }
            return;
        }
        h2::SETTINGS | h2::PING | h2::WINDOW_UPDATE | h2::PRIORITY => return,
        _ => {}
    }
    let Some(r) = runs.iter_mut().find(|r| r.conn_no == cc.no && r.id == f.stream) else {
        cc.events.push(format!("{} on stream {} (not a stream of this scenario)", f.type_name(), f.stream));
        return;
    };
    let end = f.flags & h2::F_END_STREAM != 0 && (f.typ == h2::DATA || f.typ == h2::HEADERS);
    match f.typ {
        h2::HEADERS | h2::CONTINUATION => {
            let mut text = format!("{}(len={}", f.type_name(), f.payload.len());
            if f.flags & h2::F_END_HEADERS != 0 {
                if let Some(st) = cc.c.streams.get(&f.stream) {
                    // the first block of a stream is its header list, any later one is kept as the trailer list
                    let list = if r.blocks.is_empty() { &st.headers } else { &st.trailers };
                    let status = h2::hdr(list, ":status").and_then(|s| s.parse::<u16>().ok());
                    r.blocks.push((status, h2::hdr(list, "x-lab-resp"), h2::hdr(list, "x-lab-answer"), h2::hdr(list, "content-length")));
                    text.push_str(&format!(", :status={status:?}"));
                }
            }
            if end {
                text.push_str(", END_STREAM");
            }
            text.push(')');
            if r.end_stream {
                r.after_end.push(text.clone());
            }
            r.frames.push(text);
        }
        h2::DATA => {
            let n = f.content().map(|c| c.len()).unwrap_or(0);
            let text = format!("DATA({n}{})", if end { ", END_STREAM" } else { "" });
            if r.end_stream {
                r.after_end.push(text.clone());
            } else if let Some(c) = f.content() {
                r.body.extend_from_slice(c);
            }
            // long bodies: keep the log readable
            if r.frames.len() < 40 || end {
                r.frames.push(text);
            }
        }
        h2::RST_STREAM => {
            let code = f.u32_at(0).unwrap_or(0);
            r.frames.push(format!("RST_STREAM({code})"));
            if r.outcome.is_none() {
                r.outcome = Some((Outcome::Rst(code), now));
            }
        }
        _ => r.frames.push(format!("{}(len={})", f.type_name(), f.payload.len())),
    }
    // END_STREAM on a HEADERS frame whose block continues counts when the block is complete: H2Conn sets
    // `end_stream` then; take it from there
    let ended = cc.c.streams.get(&f.stream).map(|s| s.end_stream).unwrap_or(false);
    if ended && !r.end_stream {
        r.end_stream = true;
        if r.outcome.is_none() {
            r.outcome = Some((Outcome::Complete, now));
        }
    }
}

/// read frames until `done` says so or the deadline passes
fn pump(cc: &mut ClientConn, runs: &mut [Run], deadline: Instant, done: &dyn Fn(&[Run]) -> bool) {
    loop {
        if done(runs) || cc.dead {
            return;
        }
        match cc.c.next_frame(Instant::now() + Duration::from_millis(8)) {
            H2Event::Frame(f) => note_frame(cc, runs, &f),
            H2Event::Timeout => {
                if Instant::now() >= deadline {
                    return;
                }
            }
            ev @ (H2Event::Eof | H2Event::Reset) => {
                let how = if matches!(ev, H2Event::Eof) { "closed" } else { "reset" };
                cc.events.push(format!("connection {how}"));
                cc.dead = true;
                let now = Instant::now();
                let goaway = cc.c.goaway;
                for r in runs.iter_mut().filter(|r| r.conn_no == cc.no && r.outcome.is_none()) {
                    r.outcome = Some((Outcome::ConnClosed { goaway, how }, now));
                }
                return;
            }
        }
    }
}

fn host_of(s: &StreamSpec) -> &'static str {
    match &s.cause {
        Cause::NoRoute => "nohost.lab",
        Cause::Deny => "deny.lab",
        Cause::NoBackend => "nb.lab",
        Cause::WrongCertificate => "wrongcert.test",
        Cause::PerIpLimit => "lim.lab",
        Cause::Refuses => "rf.lab",
        Cause::ClosesAtAccept => "cb.lab",
        _ => match s.target {
            Target::Ha => "ha.lab",
            Target::Hb => "hb.lab",
            Target::G => "g.lab",
        },
    }
}

/// the frames of one request (HEADERS, and one DATA frame for a body: at most 1000 bytes, inside every initial window)
fn request_frames(cc: &mut ClientConn, host: &str, n: usize, body: &[u8]) -> (u32, Vec<u8>) {
    let id = cc.next_id;
    cc.next_id += 2;
    let mut headers = vec![
        (":method".to_string(), if body.is_empty() { "GET" } else { "POST" }.to_string()),
        (":scheme".to_string(), "https".to_string()),
        (":authority".to_string(), host.to_string()),
        (":path".to_string(), format!("/r{n}")),
        ("x-lab-req".to_string(), n.to_string()),
    ];
    if !body.is_empty() {
        headers.push(("content-length".to_string(), body.len().to_string()));
    }
    let block = cc.c.encode_headers(&headers);
    let mut bytes = Frame::new(h2::HEADERS, h2::F_END_HEADERS | if body.is_empty() { h2::F_END_STREAM } else { 0 }, id, block).encode();
    if !body.is_empty() {
        bytes.extend(Frame::data(id, body, true, None).encode());
    }
    (id, bytes)
}

fn new_run(id: u32, conn_no: usize) -> Run {
    Run { id, conn_no, sent_at: Instant::now(), outcome: None, blocks: vec![], body: vec![], frames: vec![], after_end: vec![], end_stream: false }
}

/// write one request; Err: the connection did not take it
fn send_request(cc: &mut ClientConn, host: &str, n: usize, body: &[u8]) -> Result<Run, String> {
    let (id, bytes) = request_frames(cc, host, n, body);
    cc.c.write_raw(&bytes).map_err(|e| format!("request on stream {id}: {e}"))?;
    Ok(new_run(id, cc.no))
}

// ------------------------------------------------------------------ plan

struct Plan {
    n: usize,
    host: &'static str,
    req_body: Vec<u8>,
    resp_body: Vec<u8>,
    /// "cl" | "chunked" | "close" | "h2c"
    framing: &'static str,
    /// text for messages: what the backend was told to do
    what: String,
}

/// Thousands of tiny chunks / DATA frames run into the session loop's iteration budget (known finding of C01 / C14,
/// counter `http.infinite_loop.error`): the sizes are scaled so that a body needs at most about `max_pieces` pieces.
fn scaled(sizes: &[usize], len: usize, max_pieces: usize) -> Vec<usize> {
    let cycle: usize = sizes.iter().map(|f| (*f).max(1)).sum();
    let est = len.saturating_mul(sizes.len()) / cycle.max(1) + 1;
    let k = est.div_ceil(max_pieces).max(1);
    sizes.iter().map(|f| (*f).max(1) * k).collect()
}

fn framing_name(s: &StreamSpec) -> &'static str {
    if s.target == Target::G {
        return "h2c";
    }
    match s.resp_framing {
        BodyFraming::ContentLength => "cl",
        BodyFraming::Chunked(_) => "chunked",
        BodyFraming::CloseDelimited => "close",
    }
}

/// Shapes of two findings repaired in sozu (reproducers regressions/C02/h2answers-fixed-*.json); they are steered
/// around only when VP_C02H2_EXCLUSIONS is set. Returns the streams as they are
/// played and, for every stream that was changed, the slug of the finding it was steered around.
///
/// (1) C02/h2-session-closed-by-idle-h2c-backend-timeout: an h2c backend connection whose streams are done keeps
/// its back_timeout armed; when it fires the whole client connection is closed, and a stream still waiting for
/// another backend gets neither its 504 nor its response. The only long waits generated are the HTTP/1.1
/// backend's stalls: with an open h2c backend connection on the client connection the same stall is played by
/// the h2c backend (whose own timer then has a linked stream to answer).
/// (2) C02/h2-backend-h2-connection-broken-after-cancelled-stream: once sozu has given up a stream on an h2c
/// backend connection (backend timeout) the connection is unusable, the next stream sent on it is answered 502.
/// After an h2c stall, later streams of a one-after-the-other scenario do not go to the h2c cluster: they are
/// played as a normal request to HTTP/1.1 cluster ha.
fn steer(case: &Case) -> Vec<(StreamSpec, Option<&'static str>)> {
    let mut out: Vec<(StreamSpec, Option<&'static str>)> = vec![];
    let mut poisoned = false;
    for (i, s) in case.streams.iter().enumerate() {
        let mut played = (s.clone(), None);
        // both shapes are repaired in sozu: generated cases play them as they are unless VP_C02H2_EXCLUSIONS is set
        // (exploring an older tree)
        if !case.strict && std::env::var_os("VP_C02H2_EXCLUSIONS").is_some() {
            if poisoned && !case.all_at_once {
                let to_g = s.target == Target::G && s.cause.reaches_programmable_backend();
                // the h2c connection of the earlier stall is still open (its timer is armed again once the
                // cancelled stream is gone): a wait for an HTTP/1.1 backend is shape (1), and cannot move to the
                // h2c backend because of shape (2)
                if to_g || idle_h2c_shape(case, i) {
                    let mut t = s.clone();
                    t.cause = Cause::Normal;
                    t.target = Target::Ha;
                    played = (normalise(t), Some(if to_g { "h2c-connection-broken-after-cancelled-stream" } else { "idle-h2c-backend-timeout" }));
                }
            } else if idle_h2c_shape(case, i) {
                let mut t = s.clone();
                t.target = Target::G;
                t.cause = match &s.cause {
                    Cause::StallsMidResponse { at: CutPos::Body(f) } => Cause::H2Stalls { at: Point::MidBody(*f) },
                    Cause::StallsMidResponse { at: CutPos::BodyMinus1 } => Cause::H2Stalls { at: Point::MidBody(u32::MAX) },
                    Cause::StallsMidResponse { at: CutPos::HeadEnd } => Cause::H2Stalls { at: Point::AfterHeaders },
                    _ => Cause::H2Stalls { at: Point::BeforeHeaders },
                };
                played = (normalise(t), Some("idle-h2c-backend-timeout"));
            }
        }
        if matches!(played.0.cause, Cause::H2Stalls { .. }) {
            poisoned = true;
        }
        out.push(played);
    }
    out
}

/// stream `i` waits for an HTTP/1.1 backend (stall, or a delayed response in a regression file) while an h2c
/// backend connection opened for another stream of the same client connection sits idle
fn idle_h2c_shape(case: &Case, i: usize) -> bool {
    let s = &case.streams[i];
    let waits = matches!(s.cause, Cause::Stalls | Cause::StallsMidResponse { .. }) || (s.cause == Cause::Normal && s.target != Target::G && s.resp_delay_ms > 0);
    let leaves_h2c_open = |o: &StreamSpec| o.target == Target::G && o.cause.reaches_programmable_backend() && !o.cause.kills_h2c_connection();
    waits && case.streams.iter().enumerate().any(|(j, o)| j != i && (case.all_at_once || j < i) && leaves_h2c_open(o))
}

/// one after the other: stream `i` goes to the h2c cluster after an earlier stream stalled there
fn after_h2c_stall_shape(case: &Case, i: usize) -> bool {
    let s = &case.streams[i];
    !case.all_at_once && s.target == Target::G && s.cause.reaches_programmable_backend() && case.streams[..i].iter().any(|o| matches!(o.cause, Cause::H2Stalls { .. }))
}

fn governing(s: &StreamSpec) -> Duration {
    match &s.cause {
        Cause::NoRoute | Cause::Deny | Cause::NoBackend | Cause::WrongCertificate | Cause::PerIpLimit => Duration::ZERO,
        Cause::Refuses | Cause::ClosesAtAccept => Duration::from_secs(CONNECT_TIMEOUT as u64),
        _ => Duration::from_secs(BACK_TIMEOUT as u64),
    }
}

/// statuses of proxy-made answers the property's table allows for the cause (see RULE for the reasoning)
fn admissible_statuses(c: &Cause) -> &'static [u16] {
    match c {
        Cause::Normal => &[],
        Cause::NoRoute => &[404],
        Cause::Deny => &[401],
        Cause::NoBackend | Cause::Refuses => &[503],
        Cause::WrongCertificate => &[421],
        Cause::PerIpLimit => &[429],
        Cause::ClosesAtAccept => &[502, 503],
        // closing without an answer: sozu may not have handed the whole request over when the close arrives,
        // retries, and ends without a usable backend (503): both rows of the table fit
        Cause::ClosesWithoutAnswer { .. } => &[502, 503],
        Cause::Garbage { .. } | Cause::Cuts { .. } => &[502],
        Cause::Stalls | Cause::StallsMidResponse { .. } | Cause::H2Stalls { .. } => &[504],
        Cause::H2Rst { at: Point::BeforeHeaders, .. } | Cause::H2Goaway { at: Point::BeforeHeaders, .. } | Cause::H2Close { at: Point::BeforeHeaders, .. } => &[502, 503],
        Cause::H2Rst { .. } | Cause::H2Goaway { .. } | Cause::H2Close { .. } => &[502],
    }
}

/// may the stream end in an explicit abort (RST_STREAM, GOAWAY below it, connection close)?
fn abort_admissible(c: &Cause) -> bool {
    match c {
        // the backend had started its response
        Cause::Cuts { .. } | Cause::StallsMidResponse { .. } => true,
        Cause::H2Rst { .. } => true,
        Cause::H2Goaway { at, .. } | Cause::H2Close { at, .. } | Cause::H2Stalls { at } => *at != Point::BeforeHeaders,
        _ => false,
    }
}

// ------------------------------------------------------------------ scenario

fn worker_died(lab: &mut Lab, when: &str) -> Failure {
    Failure::new("C02/h2-worker-died", format!("the worker thread is gone {when}: {:?}", lab.worker.join()))
}

fn open_conn(lab: &mut Lab, addr: SocketAddr, no: usize) -> Result<ClientConn, Failure> {
    match connect(addr) {
        Ok(c) => Ok(ClientConn { c, no, next_id: 1, events: vec![], dead: false }),
        Err(e) => {
            if !lab.worker.alive() {
                return Err(worker_died(lab, "when a client connection was opened"));
            }
            // the harness could not open its connection: never a verdict about sozu
            panic!("harness: HTTP/2 connection to the HTTPS listener failed: {e}");
        }
    }
}

pub fn scenario(lab: &mut Lab, case: &Case) -> CheckResult {
    // sozu's session loop has an iteration budget whose kills are a registered known finding (C01): a
    // failure that coincides with that counter moving is that finding, whatever its shape
    let loop_kills_before = lab.worker.counter("http.infinite_loop.error").unwrap_or(0);
    match scenario_inner(lab, case) {
        Err(f) if !case.strict && lab.worker.alive() && lab.worker.counter("http.infinite_loop.error").unwrap_or(0) > loop_kills_before => {
            if std::env::var("VP_C02H2_SURVEY").is_ok() {
                eprintln!("LOOPBUDGET {} :: {} :: {}", f.signature, engine::truncate(&f.message, 3000), serde_json::to_string(case).unwrap_or_default());
            }
            let mut rep = CaseReport::default();
            rep.excluded_known += 1;
            rep.class("session_ended_by_loop_iteration_budget(known)");
            rep.class("lab_dirty");
            Ok(rep)
        }
        // strict reproducers of the idle-h2c-backend finding: the failure it produces gets the finding's own signature
        Err(f) if case.strict && (0..case.streams.len()).any(|i| idle_h2c_shape(&Case { strict: false, ..case.clone() }, i)) && f.message.contains("connection closed") && (f.signature == "C02/h2-healthy-stream-lost" || f.signature.ends_with(":connection-closed")) => {
            Err(Failure::new("C02/h2-session-closed-by-idle-h2c-backend-timeout", format!("an h2c backend connection of this client connection was idle when its back_timeout expired: [{}] {}", f.signature, f.message)))
        }
        Err(f) if case.strict && (0..case.streams.len()).any(|i| after_h2c_stall_shape(case, i)) && (f.signature == "C02/h2-healthy-stream-lost" || f.signature.starts_with("C02/h2-status-for-cause:")) && f.message.contains(":status=Some(502)") => {
            Err(Failure::new("C02/h2-backend-h2-connection-broken-after-cancelled-stream", format!("an earlier stream of this client connection had timed out on the same h2c backend connection: [{}] {}", f.signature, f.message)))
        }
        other => other,
    }
}

fn scenario_inner(lab: &mut Lab, case: &Case) -> CheckResult {
    let mut rep = CaseReport::default();
    if !lab.worker.alive() {
        return Err(worker_died(lab, "before the scenario"));
    }
    if case.streams.is_empty() || case.streams.len() > 8 {
        return Ok(rep);
    }
    lab.scenario_no += 1;
    let base = lab.scenario_no * 32;
    let addr = if case.keepalive_answers { lab.addr_keep } else { lab.addr_close };
    let mut classes: Vec<String> = vec![];

    // ---- plan the backends' behaviour
    let mut excluded = 0u64;
    let mut specs: Vec<StreamSpec> = vec![];
    let mut plans: Vec<Plan> = vec![];
    {
        let mut h1_actions = BTreeMap::new();
        let mut g_actions = BTreeMap::new();
        let steered_all = steer(case);
        for (i, generated) in case.streams.iter().enumerate() {
            let _ = generated;
            let (s, steered) = steered_all[i].clone();
            if let Some(slug) = steered {
                excluded += 1;
                classes.push(format!("steered_around:{slug}"));
            }
            let n = base + i;
            let resp_seed = case.seed ^ (0xA000 + i as u64);
            let req_body = content(case.seed ^ (0xB000 + i as u64), s.req_len);
            let resp_body = content(resp_seed, s.resp_len);
            let mut what = String::new();
            if s.cause.reaches_programmable_backend() {
                if s.target == Target::G {
                    let frame_sizes = match &s.resp_framing {
                        BodyFraming::Chunked(v) => scaled(v, s.resp_len, 200),
                        _ => vec![],
                    };
                    let k_of = |at: &Point| -> Option<usize> {
                        match at {
                            Point::BeforeHeaders => None,
                            Point::AfterHeaders => Some(0),
                            Point::MidBody(f) => Some(1 + pick_idx(*f, resp_body.len().saturating_sub(1))),
                        }
                    };
                    let fault = match &s.cause {
                        Cause::H2Rst { at, code } => Some((k_of(at), GEvent::Rst(*code))),
                        Cause::H2Goaway { at, code } => Some((k_of(at), GEvent::Goaway(*code))),
                        Cause::H2Close { at, reset } => Some((k_of(at), GEvent::Close { reset: *reset })),
                        Cause::H2Stalls { at } => Some((k_of(at), GEvent::Stall)),
                        _ => None,
                    };
                    what = match &fault {
                        None => format!("h2c backend answers 200 with {} body bytes", resp_body.len()),
                        Some((None, ev)) => format!("h2c backend: {ev:?} once the request is read, nothing sent"),
                        Some((Some(k), ev)) => format!("h2c backend: HEADERS 200 and {k} of {} body bytes (no END_STREAM), then {ev:?}", resp_body.len()),
                    };
                    g_actions.insert(n, GAct { body: resp_body.clone(), frame_sizes, content_length: s.resp_framing == BodyFraming::ContentLength, fault });
                } else {
                    let framing = match &s.resp_framing {
                        BodyFraming::Chunked(v) => BodyFraming::Chunked(scaled(v, s.resp_len, 400)),
                        other => other.clone(),
                    };
                    let (bytes, _) = c02::response_bytes(n, resp_seed, s.resp_len, &framing, s.resp_conn_close);
                    let head_len = bytes.windows(4).position(|w| w == b"\r\n\r\n").map(|p| p + 4).unwrap_or(bytes.len());
                    let total = bytes.len();
                    let closes = s.resp_conn_close || s.resp_framing == BodyFraming::CloseDelimited;
                    let act = match &s.cause {
                        Cause::ClosesWithoutAnswer { reset } => {
                            what = format!("HTTP/1.1 backend reads the request and closes ({})", if *reset { "RST" } else { "FIN" });
                            Act::CloseWithoutAnswer { reset: *reset }
                        }
                        Cause::Stalls => {
                            what = "HTTP/1.1 backend reads the request and never answers".into();
                            Act::Stall
                        }
                        Cause::Garbage { kind, linger } => {
                            let g = c02::GARBAGE[pick_idx(*kind, c02::GARBAGE.len())];
                            what = format!("HTTP/1.1 backend answers {:?}", String::from_utf8_lossy(g));
                            Act::Garbage { bytes: g.to_vec(), linger: *linger }
                        }
                        Cause::Cuts { at, reset, pause } => {
                            let cut = c02::cut_offset(&bytes, at);
                            what = format!(
                                "HTTP/1.1 backend: {} response{} of {total} bytes (head {head_len}, body {}) cut after {cut} bytes, {}{}",
                                framing_name(&s),
                                if s.resp_conn_close { " with `Connection: close`" } else { "" },
                                resp_body.len(),
                                if *reset { "RST" } else { "FIN" },
                                if *pause { " 30 ms later" } else { " at once" }
                            );
                            Act::Respond { bytes, cut: Some(cut), reset: *reset, pause_before_close: *pause, stall_after_cut: false, close_after: true, delay_ms: 0 }
                        }
                        Cause::StallsMidResponse { at } => {
                            let cut = c02::cut_offset(&bytes, at);
                            what = format!("HTTP/1.1 backend: {} response of {total} bytes (head {head_len}, body {}) stops after {cut} bytes and stays silent", framing_name(&s), resp_body.len());
                            Act::Respond { bytes, cut: Some(cut), reset: false, pause_before_close: false, stall_after_cut: true, close_after: true, delay_ms: 0 }
                        }
                        _ => {
                            what = format!(
                                "HTTP/1.1 backend answers 200, {} body of {} bytes{}{}",
                                framing_name(&s),
                                resp_body.len(),
                                if s.resp_conn_close { ", `Connection: close`" } else { "" },
                                if s.backend_closes_after { ", then closes its keep-alive connection silently" } else { "" }
                            );
                            Act::Respond { bytes, cut: None, reset: false, pause_before_close: false, stall_after_cut: false, close_after: s.backend_closes_after || closes, delay_ms: s.resp_delay_ms as u64 }
                        }
                    };
                    h1_actions.insert(n, act);
                }
            }
            plans.push(Plan { n, host: host_of(&s), req_body, resp_body, framing: framing_name(&s), what });
            specs.push(s);
        }
        let mut g1 = lab.h1.lock().unwrap();
        g1.actions = h1_actions;
        g1.recorded.clear();
        let mut g2 = lab.g.lock().unwrap();
        g2.actions = g_actions;
        g2.recorded.clear();
        g2.errors.clear();
    }
    let n_streams = specs.len();

    // ---- a connection of the same source address that holds the only slot of cluster `lim`
    let mut conns: Vec<ClientConn> = vec![];
    let mut runs: Vec<Run> = vec![];
    // the attempts of each stream, as indices into `runs`
    let mut attempts: Vec<Vec<usize>> = vec![vec![]; n_streams];
    let mut holder: Option<ClientConn> = None;
    if specs.iter().any(|s| s.cause == Cause::PerIpLimit) {
        for attempt in 0..25 {
            let mut h = open_conn(lab, addr, 1000 + attempt)?;
            let mut hr = vec![send_request(&mut h, "lim.lab", base + 16, &[]).map_err(|e| Failure::new("C02/h2-per-ip-slot-not-acquired", format!("the holder connection did not take its request: {e}")))?];
            pump(&mut h, &mut hr, Instant::now() + Duration::from_secs(4), &|r| r[0].outcome.is_some());
            let status = hr[0].final_blocks().first().copied();
            if hr[0].outcome.as_ref().map(|o| o.0 == Outcome::Complete).unwrap_or(false) && status == Some(200) {
                holder = Some(h);
                break;
            }
            // the slot of a connection closed a moment ago has not been released yet
            if status == Some(429) && attempt < 24 {
                close_client(h.c);
                std::thread::sleep(Duration::from_millis(30));
                continue;
            }
            fail!("C02/h2-per-ip-slot-not-acquired", "the first connection to the limited cluster was not served: {}", hr[0].describe());
        }
    }

    // ---- play: batches of streams (one batch = all of them, or one stream after the other)
    let batches: Vec<Vec<usize>> = if case.all_at_once { vec![(0..n_streams).collect()] } else { (0..n_streams).map(|i| vec![i]).collect() };
    let mut cur: Option<usize> = None;
    // (client connection, target) -> the backend closed its keep-alive connection after the last response on it
    let mut silently_closed: BTreeMap<(usize, u8), bool> = BTreeMap::new();
    let mut race_502 = vec![false; n_streams];
    let mut reused_backend_conn = vec![false; n_streams];
    let mut used_target_on_conn: Vec<(usize, u8)> = vec![];
    let tkey = |t: Target| t as u8;
    let backend_index = |t: Target| match t {
        Target::Ha => 0usize,
        Target::Hb => 1,
        Target::G => 3,
    };
    for batch in batches {
        let mut todo = batch.clone();
        for round in 0..2 {
            if todo.is_empty() {
                break;
            }
            if cur.map(|k| !conns[k].usable()).unwrap_or(true) {
                let no = conns.len();
                conns.push(open_conn(lab, addr, no)?);
                cur = Some(no);
                if no > 0 {
                    classes.push("continued_on_new_connection".into());
                }
            }
            let k = cur.unwrap();
            let accepted_before: Vec<usize> = lab.backends.iter().map(|b| b.accepted.load(Ordering::SeqCst)).collect();
            let mut sent: Vec<usize> = vec![];
            // every request of the batch goes out in one write: sozu has all of them before it answers any
            let mut wire: Vec<u8> = vec![];
            let mut ids: Vec<u32> = vec![];
            for &i in &todo {
                let s = &specs[i];
                if s.gap_ms > 0 && round == 0 {
                    // keep reading while waiting: a GOAWAY must be seen before the next stream is opened
                    pump(&mut conns[k], &mut runs, Instant::now() + Duration::from_millis(s.gap_ms as u64), &|_| false);
                }
                if round == 0 && !case.all_at_once && s.cause.reaches_programmable_backend() && s.target != Target::G {
                    race_502[i] = *silently_closed.get(&(k, tkey(s.target))).unwrap_or(&false);
                }
                let (id, bytes) = request_frames(&mut conns[k], plans[i].host, plans[i].n, &plans[i].req_body);
                ids.push(id);
                wire.extend(bytes);
            }
            let written = conns[k].c.write_raw(&wire);
            if let Err(e) = &written {
                // sozu closed the connection while the client was writing: these requests were not (all) received,
                // they are sent again on a new connection. What sozu sent before closing is read first.
                conns[k].events.push(format!("write failed: {e}"));
                pump(&mut conns[k], &mut runs, Instant::now() + Duration::from_millis(300), &|_| false);
                conns[k].dead = true;
                let now = Instant::now();
                let goaway = conns[k].c.goaway;
                for r in runs.iter_mut().filter(|r| r.conn_no == k && r.outcome.is_none()) {
                    r.outcome = Some((Outcome::ConnClosed { goaway, how: "closed while the client was writing" }, now));
                }
            }
            for (&i, id) in todo.iter().zip(ids.iter()) {
                let mut r = new_run(*id, k);
                if let Err(e) = &written {
                    r.outcome = Some((Outcome::NotReceived, r.sent_at));
                    r.frames.push(format!("request not written: {e}"));
                }
                attempts[i].push(runs.len());
                sent.push(runs.len());
                runs.push(r);
            }
            let deadline = todo.iter().zip(sent.iter()).map(|(i, r)| runs[*r].sent_at + governing(&specs[*i]) + SLACK).max().unwrap();
            let wait_for = sent.clone();
            pump(&mut conns[k], &mut runs, deadline, &|rs| wait_for.iter().all(|r| rs[*r].outcome.is_some()));
            // what follows an answer at once (a GOAWAY after a proxy answer, a reset after END_STREAM)
            pump(&mut conns[k], &mut runs, Instant::now() + Duration::from_millis(15), &|_| false);
            let accepted_after: Vec<usize> = lab.backends.iter().map(|b| b.accepted.load(Ordering::SeqCst)).collect();
            // bookkeeping for keep-alive reuse (sequential only: one stream per batch)
            if !case.all_at_once && todo.len() == 1 {
                let i = todo[0];
                let s = &specs[i];
                if s.cause.reaches_programmable_backend() {
                    let bi = backend_index(s.target);
                    let complete_200 = runs[sent[0]].outcome.as_ref().map(|o| o.0 == Outcome::Complete).unwrap_or(false) && runs[sent[0]].final_blocks() == vec![200];
                    if used_target_on_conn.contains(&(k, tkey(s.target))) && accepted_after[bi] == accepted_before[bi] && complete_200 {
                        reused_backend_conn[i] = true;
                    }
                    used_target_on_conn.push((k, tkey(s.target)));
                    if s.target != Target::G {
                        silently_closed.insert((k, tkey(s.target)), s.cause == Cause::Normal && s.backend_closes_after && complete_200);
                    }
                }
            }
            // streams refused unprocessed are retried once (RFC 9113 8.7), on a new connection when this one is going away
            todo = todo.iter().zip(sent.iter()).filter(|(_, r)| runs[**r].outcome.as_ref().map(|o| o.0.unprocessed()).unwrap_or(false)).map(|(i, _)| *i).collect();
            if !todo.is_empty() && round == 0 {
                classes.push("retried_after_refusal".into());
            }
        }
    }
    // late frames on every connection still open
    for cc in conns.iter_mut() {
        if !cc.dead {
            pump(cc, &mut runs, Instant::now() + Duration::from_millis(10), &|_| false);
        }
    }
    let conn_events: Vec<String> = conns.iter().map(|c| format!("client connection {}: [{}]", c.no, c.events.join(", "))).collect();
    let goaway_seen = conns.iter().any(|c| c.c.goaway.is_some());
    for cc in conns {
        close_client(cc.c);
    }
    if let Some(h) = holder {
        close_client(h.c);
    }
    if !lab.worker.alive() {
        return Err(worker_died(lab, "during the scenario"));
    }

    // ---- judge every stream on its last attempt
    let any_conn_killer = specs.iter().any(|s| s.cause.kills_h2c_connection());
    let mut healthy_n = 0usize;
    let mut failing_backend_n = 0usize;
    for i in 0..n_streams {
        let s = &specs[i];
        let p = &plans[i];
        let label = s.cause.label();
        let run = &runs[*attempts[i].last().expect("every stream was attempted")];
        // a stream of the h2c cluster opened together with one whose cause takes the h2c connection away
        let collateral = case.all_at_once && s.target == Target::G && s.cause.reaches_programmable_backend() && !s.cause.kills_h2c_connection() && any_conn_killer;
        let healthy = s.cause == Cause::Normal && !race_502[i] && !collateral;
        if healthy {
            healthy_n += 1;
        }
        if s.cause.is_fault() && !matches!(s.cause, Cause::NoRoute | Cause::Deny | Cause::NoBackend | Cause::WrongCertificate | Cause::PerIpLimit) {
            failing_backend_n += 1;
        }
        let ctx = format!(
            "stream {i} of {n_streams} ({label}; {}; host {}; {}{}{}{}; listener with {} answers): {}{}; {}",
            if case.all_at_once { "all opened at once" } else { "one after the other" },
            p.host,
            p.what,
            if race_502[i] { "; the backend had closed its keep-alive connection after the previous response" } else { "" },
            if collateral { "; shares the h2c connection with a stream whose cause closes it" } else { "" },
            if attempts[i].len() > 1 { format!("; attempt {} (earlier: {})", attempts[i].len(), attempts[i][..attempts[i].len() - 1].iter().map(|r| runs[*r].describe()).collect::<Vec<_>>().join(" | ")) } else { String::new() },
            if case.keepalive_answers { "keep-alive" } else { "default" },
            run.describe(),
            if run.body.is_empty() { String::new() } else { format!(", {} body bytes", run.body.len()) },
            conn_events.join("; ")
        );
        if std::env::var("VP_C02H2_SHOW").is_ok() {
            eprintln!("SHOW {ctx}");
        }
        if matches!(run.outcome, Some((Outcome::NotReceived, _))) {
            // twice the connection went away while the request was being written: sozu never had the request
            classes.push("request_never_received".into());
            continue;
        }
        let limit = governing(s) + SLACK;
        let Some((outcome, at)) = &run.outcome else {
            fail!(format!("C02/h2-unanswered-beyond-timeout:{label}"), "{ctx}: no END_STREAM, RST_STREAM, GOAWAY or close within {:.1} s (governing timeout {} s + {:.1} s)", limit.as_secs_f64(), governing(s).as_secs(), SLACK.as_secs_f64());
        };
        if at.duration_since(run.sent_at) > limit {
            fail!(format!("C02/h2-unanswered-beyond-timeout:{label}"), "{ctx}: the outcome came after {:.2} s, beyond the governing timeout {} s + {:.1} s", at.duration_since(run.sent_at).as_secs_f64(), governing(s).as_secs(), SLACK.as_secs_f64());
        }
        // ---- exactly one answer
        let finals = run.final_blocks();
        if finals.len() > 1 {
            fail!("C02/h2-second-response", "{ctx}: {} header blocks with a final status ({finals:?}) on one stream", finals.len());
        }
        if !run.after_end.is_empty() {
            fail!("C02/h2-frames-after-end-stream", "{ctx}: after END_STREAM the stream received {:?}", run.after_end);
        }
        let first = run.blocks.first().cloned();
        let is_backends = first.as_ref().map(|b| b.1.is_some()).unwrap_or(false);
        if let Some((_, Some(tag), _, _)) = &first {
            if tag != &p.n.to_string() {
                fail!("C02/h2-response-of-another-stream", "{ctx}: the response head carries x-lab-resp {tag:?}, this request is {}", p.n);
            }
        }
        let lost = |why: &str| -> Failure {
            Failure::new("C02/h2-healthy-stream-lost", format!("{ctx}: a request to a healthy backend did not get its complete response: {why}; RFC 9113 gives a server no reason to end other streams (5.4.2: a stream error leaves them untouched) or the connection because one backend failed"))
        };
        match outcome {
            Outcome::Complete => {
                let Some((Some(status), _, answer_tag, declared)) = first.clone() else {
                    fail!("C02/h2-answer-malformed", "{ctx}: END_STREAM without a header block carrying :status");
                };
                if let Some(d) = declared.as_ref().and_then(|d| d.parse::<usize>().ok()) {
                    if d != run.body.len() {
                        if is_backends {
                            fail!(format!("C02/h2-truncated-body-presented-complete:{}", p.framing), "{ctx}: the response declares content-length {d} and ends with END_STREAM after {} body bytes", run.body.len());
                        }
                        fail!("C02/h2-answer-malformed", "{ctx}: the proxy answer {status} declares content-length {d} and ends after {} body bytes", run.body.len());
                    }
                }
                if is_backends {
                    if status != 200 {
                        fail!("C02/h2-relayed-status-differs", "{ctx}: the backend answers 200, the client received {status}");
                    }
                    if let Some(off) = first_mismatch(&run.body, &p.resp_body) {
                        if s.cause == Cause::Normal {
                            fail!("C02/h2-relayed-body-differs", "{ctx}: the backend sent a {}-byte body, the client received {} bytes ending with END_STREAM; first difference at offset {off}", p.resp_body.len(), run.body.len());
                        }
                        fail!(
                            format!("C02/h2-truncated-body-presented-complete:{}", p.framing),
                            "{ctx}: the backend's response never ended (body of {} bytes announced), the client received HEADERS, {} body bytes and END_STREAM: a truncated body presented as complete (first difference at offset {off})",
                            p.resp_body.len(),
                            run.body.len()
                        );
                    }
                    if !s.cause.reaches_programmable_backend() {
                        fail!(format!("C02/h2-status-for-cause:{label}:200"), "{ctx}: a backend's response on a stream the proxy has to answer itself");
                    }
                    classes.push(if s.cause == Cause::Normal { if race_502[i] { "close_between_keepalive->200".to_string() } else { "normal->200".to_string() } } else { format!("{label}->complete_all_body_data_had_arrived") });
                } else {
                    // a proxy-made answer
                    let mut admissible: Vec<u16> = admissible_statuses(&s.cause).to_vec();
                    if race_502[i] {
                        admissible.push(502);
                    }
                    if collateral {
                        admissible.extend([502, 503]);
                    }
                    if !admissible.contains(&status) {
                        if healthy {
                            return Err(lost(&format!("it was answered {status} by the proxy")));
                        }
                        fail!(format!("C02/h2-status-for-cause:{label}:{status}"), "{ctx}: expected {}, the proxy answered {status}", if admissible.is_empty() { "the backend's 200".to_string() } else { format!("{admissible:?}") });
                    }
                    if case.keepalive_answers && KEEPALIVE_CODES.iter().any(|(c, _)| *c == status) && (run.body != keepalive_body(status).as_bytes() || answer_tag.as_deref() != Some(status.to_string().as_str())) {
                        fail!("C02/h2-answer-malformed", "{ctx}: the listener's {status} template has the body {:?} and x-lab-answer {status}, the client received {:?} / {answer_tag:?}", keepalive_body(status), engine::truncate(&String::from_utf8_lossy(&run.body), 200));
                    }
                    classes.push(format!("{label}->{status}"));
                    if race_502[i] && status == 502 {
                        classes.push("close_between_keepalive->502".into());
                    }
                }
            }
            aborted => {
                if healthy {
                    return Err(lost(&format!("{aborted:?}")));
                }
                if !(abort_admissible(&s.cause) || collateral) {
                    let mut admissible: Vec<u16> = admissible_statuses(&s.cause).to_vec();
                    if race_502[i] {
                        admissible.push(502);
                    }
                    fail!(format!("C02/h2-status-for-cause:{label}:{}", aborted.name()), "{ctx}: expected {}, the stream was aborted", if s.cause == Cause::Normal { "the backend's 200 (or 502)".to_string() } else { format!("a complete answer {admissible:?}") });
                }
                // The bytes relayed before an explicit abort are not constrained by the property (nothing is
                // presented as complete); that they are a prefix of the backend's body is observed, not demanded.
                if is_backends && (run.body.len() > p.resp_body.len() || first_mismatch(&run.body, &p.resp_body[..run.body.len()]).is_some()) {
                    classes.push("observed:bytes_before_abort_not_a_prefix_of_the_backends_body".into());
                }
                classes.push(format!(
                    "{label}->abort:{}{}",
                    match aborted {
                        Outcome::Rst(_) => "rst_stream",
                        Outcome::Goaway { .. } => "goaway",
                        _ => "connection_close",
                    },
                    if run.blocks.is_empty() { "" } else { "_after_partial_relay" }
                ));
            }
        }
        if reused_backend_conn[i] {
            classes.push("backend_connection_reused".into());
        }
    }

    // ---- the proxy still serves: a plain request on a fresh connection
    {
        let n = base + 31;
        let mut pc = open_conn(lab, addr, 2000)?;
        let mut pr = vec![send_request(&mut pc, "ha.lab", n, &[]).map_err(|e| Failure::new("C02/h2-probe-after-scenario-not-served", format!("a fresh connection after the scenario did not take a request: {e}")))?];
        pump(&mut pc, &mut pr, Instant::now() + Duration::from_secs(5), &|r| r[0].outcome.is_some());
        let ok = pr[0].outcome.as_ref().map(|o| o.0 == Outcome::Complete).unwrap_or(false) && pr[0].final_blocks() == vec![200] && pr[0].blocks[0].1.as_deref() == Some(n.to_string().as_str());
        if !ok {
            fail!("C02/h2-probe-after-scenario-not-served", "a plain request on a fresh connection after the scenario was not served: {}; scenario: {}", pr[0].describe(), conn_events.join("; "));
        }
        close_client(pc.c);
    }
    if !lab.worker.alive() {
        return Err(worker_died(lab, "after the scenario"));
    }

    // ---- measurement
    rep.nontrivial = failing_backend_n >= 1 && n_streams >= 2;
    rep.excluded_known = excluded;
    for s in &specs {
        classes.push(format!("cause:{}", s.cause.label()));
        if let Cause::Cuts { reset, .. } = &s.cause {
            classes.push(format!("cut:{}:{}{}", framing_name(s), if *reset { "rst" } else { "fin" }, if s.resp_conn_close { ":connection_close" } else { "" }));
        }
        if s.target == Target::G && s.cause.reaches_programmable_backend() {
            classes.push("h2c_backend".into());
        }
        if s.cause == Cause::Normal && s.backend_closes_after {
            classes.push("backend_closes_keepalive_silently".into());
        }
        if s.cause.is_stall() {
            classes.push("waits_for_back_timeout".into());
        }
    }
    if healthy_n >= 1 && failing_backend_n >= 1 {
        classes.push("healthy_stream_beside_failure".into());
        if case.all_at_once {
            classes.push("healthy_stream_beside_failure:all_at_once".into());
        }
    }
    {
        // streams that shared one h2c backend connection, one of them failing
        let g = lab.g.lock().unwrap();
        let mut by_conn: BTreeMap<usize, Vec<usize>> = BTreeMap::new();
        for r in &g.recorded {
            if let Some(n) = r.lab_req {
                if n >= base && n < base + n_streams {
                    by_conn.entry(r.conn).or_default().push(n - base);
                }
            }
        }
        if by_conn.values().any(|v| v.len() >= 2) {
            classes.push("streams_share_h2c_backend_connection".into());
        }
        if by_conn.values().any(|v| v.len() >= 2 && v.iter().any(|i| specs[*i].cause.is_fault()) && v.iter().any(|i| specs[*i].cause == Cause::Normal)) {
            classes.push("streams_share_h2c_backend_connection:one_fails".into());
        }
    }
    classes.push(if case.all_at_once { "all_at_once" } else if n_streams >= 2 { "sequential_2+" } else { "single_stream" }.into());
    classes.push(if case.keepalive_answers { "listener:keepalive_answers" } else { "listener:default_answers" }.into());
    if goaway_seen {
        classes.push("goaway_from_sozu_seen".into());
    }
    if failing_backend_n >= 2 {
        classes.push("failing_backends_2+".into());
    }
    if case.strict {
        classes.push("strict".into());
    }
    classes.sort();
    classes.dedup();
    rep.classes = classes;
    rep.inner_evaluations = n_streams as u64 + 1;
    Ok(rep)
}

// ------------------------------------------------------------------ runner

pub const RULE: &str = "HTTP/2 frontend: one client connection (TLS, ALPN h2, own frame codec and HPACK, SNI ha.lab, certificate *.lab) to a live worker (two HTTPS listeners: sozu's default answers, which carry `Connection: close` and make sozu drain the HTTP/2 connection with GOAWAY(NO_ERROR) after the answer, and 401/404/421/429/502/503/504 templates with a Content-Length and without `Connection: close`; timeouts front 3 s, back 2 s, connect 1 s, request 2 s). 1..4 request streams (GET, or POST with up to 1000 body bytes), all opened before any answer is read or one after the other (the next is opened once the previous has its outcome); each is routed by :authority to a cluster whose behaviour is generated per stream: normal (HTTP/1.1 clusters ha / hb: 200 with keyed body of 0..60000 bytes, Content-Length / chunked / close-delimited, with or without `Connection: close`, the backend optionally closing its keep-alive connection silently afterwards; h2c cluster g: HEADERS + DATA frames of generated sizes, with or without content-length); unknown host (404); frontend without cluster (401); cluster without backend (503); authority outside the certificate (421); second connection of the address to a cluster limited to one (429); backend address refusing connections (503); backend closing at accept (502|503); HTTP/1.1 backend closing once it has read the request, FIN or RST (502|503); answering bytes that are not HTTP (502); cutting its response at a generated offset - in the status line, in the header section, at the blank line, in the body, one byte before the end - by FIN or RST, at once or 30 ms after the prefix; never answering (504); going silent after a prefix of the response; h2c backend at three points (request read and nothing sent / HEADERS sent / HEADERS and 1..len-1 body bytes sent): RST_STREAM (6 codes), GOAWAY (3 codes) followed by closing the connection, closing the connection (FIN or RST), going silent on the stream. Streams to one HTTP/1.1 cluster sent one after the other reuse its keep-alive connection; streams to the h2c cluster share one backend connection. Oracle, per stream, from the frames the client's own reader received (a stream refused unprocessed - RST_STREAM(REFUSED_STREAM), GOAWAY with a lower last-stream-id, connection gone while the request was being written - is sent once more, on a new connection when this one is going away, RFC 9113 8.7; the last attempt is judged): (a) exactly one outcome: a complete response (HEADERS ... END_STREAM) or an explicit abort (RST_STREAM on the stream, GOAWAY below it, connection close); never two header blocks with a final status, never HEADERS / DATA after END_STREAM; (b) the outcome arrives within governing timeout + 2.5 s (governing: 0 for routing answers, connect_timeout for refusing / closing-at-accept backends, back_timeout for everything that reaches a backend); (c) a complete response carrying the backend's tag is the response to THIS request (tag = request number), has status 200 and the backend's exact body; it is admissible for a fault only when every body byte had arrived (otherwise C02/h2-truncated-body-presented-complete: END_STREAM on fewer bytes than the backend's unfinished response, or than its own content-length); (d) a complete response without the tag is a proxy answer: its status must be in the property's table for the cause (given in brackets above; cut or silent after a prefix: 502 resp. 504 as the only answer, i.e. nothing had been relayed; h2c fault before any response byte: 502 or 503; h2c fault after HEADERS: 502), its content-length equals its body, and on the template listener it is the configured template; (e) an abort is admissible only where the backend had started a response (cut / silent after a prefix, h2c fault after HEADERS) and for an h2c RST_STREAM before HEADERS (relaying the backend's reset); for every other cause an abort is C02/h2-status-for-cause:<cause>:<abort>; (f) a request to a healthy backend (cause normal) must get its complete exact 200 whatever happens to the other streams and whatever sozu does to the connection (C02/h2-healthy-stream-lost: answered by the proxy, reset, or lost with the connection); exceptions, stated: after the HTTP/1.1 backend closed its idle keep-alive connection the next request to that cluster on the same client connection admits 502 besides 200 (close between keep-alive requests); a stream to the h2c cluster opened together with one whose cause closes the h2c connection admits 502 / 503 / abort besides 200; (g) after the scenario a plain request on a fresh connection is served. A failure is re-run twice on a fresh worker and reported only when it reproduces (else flaky_unconfirmed); a connection the harness cannot open is a harness panic (inconclusive); a failure that coincides with sozu's loop-iteration counter http.infinite_loop.error moving is the registered loop-budget finding (excluded_known). Non-trivial: at least one stream whose backend fails (refuses, closes, cuts, stalls, garbage, h2c faults) and at least one other stream in the scenario; distinct by case hash.";

pub fn describe(ev: &mut Evidence, replay: bool) {
    ev.rule(SUB, RULE);
    ev.assume("h2answers: HTTP/2 client over TLS only; backends HTTP/1.1 and h2c; HTTP/1.1 client -> h2c backend, client-side faults (a client that stops mid-request: 408) and a backend that never completes the TCP handshake are not played here (408 is part of h1h1). 'beyond the configured timeouts' is observed to governing timeout + 2.5 s, not forever");
    ev.assume("h2answers, places where more than one outcome is admitted because the property is silent or two readings are defensible: backend closing at accept, or once it has read the request, 502|503 (sozu retries what it has not handed over completely, then has no usable backend); h2c fault before any response byte 502|503 (same reasoning), and for a backend RST_STREAM also the relayed RST_STREAM; cut inside the response head 502 or abort ('once a response has started' can be read from the backend's or the client's side); cut / silence after the head 502 / 504 as the only answer (nothing relayed yet) or abort; a complete 200 after a cut when every body byte had arrived before it; close between keep-alive requests 200|502; streams sharing an h2c connection that another stream's cause closes 200|502|503|abort; RST_STREAM after END_STREAM is not judged; bytes relayed before an abort are not required to be a prefix of the backend's body (class observed:bytes_before_abort_not_a_prefix_of_the_backends_body counts it)");
    ev.assume("h2answers: sozu answering a failure with its default template drains the HTTP/2 connection (GOAWAY NO_ERROR, new streams refused with REFUSED_STREAM): RFC 9113 6.8 allows a server to do so at any time, in-flight streams must still complete (checked), refused streams are retried on a new connection as a client would; the template listener keeps the connection so that later streams share it with the failed one");
    ev.assume("h2answers: two shapes found by this sub-check were repaired in sozu and are generated like any other (reproducers regressions/C02/h2answers-fixed-*.json): a wait for an HTTP/1.1 backend while an h2c backend connection of the same client connection is idle (C02/h2-session-closed-by-idle-h2c-backend-timeout: played as the same stall on the h2c backend), and a stream to the h2c cluster after an h2c stall on the same client connection (C02/h2-backend-h2-connection-broken-after-cancelled-stream: played as a normal request to an HTTP/1.1 cluster); chunk sizes and h2c DATA frame sizes are scaled so that a body needs at most ~400 chunks / ~200 frames (loop-iteration budget, finding of C01/C14)");
    if replay {
        return;
    }
    for (class, frac) in [
        ("cause:normal", 0.40),
        ("cause:no_route", 0.02),
        ("cause:deny", 0.02),
        ("cause:no_backend", 0.02),
        ("cause:wrong_certificate", 0.02),
        ("cause:per_ip_limit", 0.02),
        ("cause:backend_refuses", 0.04),
        ("cause:backend_closes_at_accept", 0.04),
        ("cause:h1_closes_without_answer", 0.07),
        ("cause:h1_garbage", 0.05),
        ("cause:h1_cuts_head", 0.06),
        ("cause:h1_cuts_body", 0.12),
        ("cause:h1_stalls", 0.02),
        ("cause:h1_stalls_mid_body", 0.01),
        ("cause:h2c_rst_before_headers", 0.015),
        ("cause:h2c_rst_mid_response", 0.04),
        ("cause:h2c_goaway_before_headers", 0.01),
        ("cause:h2c_goaway_mid_response", 0.015),
        ("cause:h2c_close_before_headers", 0.012),
        ("cause:h2c_close_mid_response", 0.03),
        ("cause:h2c_stalls", 0.01),
        ("cause:h2c_stalls_mid_response", 0.01),
        ("cut:cl:fin:connection_close", 0.006),
        ("cut:chunked:fin", 0.02),
        ("h1_cuts_body->abort:rst_stream_after_partial_relay", 0.06),
        ("healthy_stream_beside_failure", 0.30),
        ("healthy_stream_beside_failure:all_at_once", 0.10),
        ("h2c_backend", 0.30),
        ("streams_share_h2c_backend_connection:one_fails", 0.03),
        ("backend_connection_reused", 0.015),
        ("all_at_once", 0.20),
        ("sequential_2+", 0.25),
        ("waits_for_back_timeout", 0.08),
        ("listener:keepalive_answers", 0.30),
        ("listener:default_answers", 0.30),
    ] {
        ev.floor(SUB, class, frac);
    }
}

pub fn child(args: &Args, total: u64) -> Stats {
    lab::init_ports(args.shard.map(|s| s.0).unwrap_or(0));
    let labcell: RefCell<Option<Lab>> = RefCell::new(None);
    let flaky = std::cell::Cell::new(0u64);
    let survey = std::env::var("VP_C02H2_SURVEY").is_ok();
    let run_on = |fresh: bool, case: &Case| -> CheckResult {
        let mut lab = match (fresh, labcell.borrow_mut().take()) {
            (false, Some(l)) => l,
            (_, old) => {
                drop(old);
                Lab::new()
            }
        };
        let r = scenario(&mut lab, case);
        let keep = matches!(&r, Ok(rep) if !rep.classes.iter().any(|c| c == "lab_dirty"));
        *labcell.borrow_mut() = if keep { Some(lab) } else { None };
        r
    };
    let check = |case: &Case| -> CheckResult {
        let first = run_on(false, case);
        let Err(f) = first else { return first };
        for _ in 0..2 {
            if let Err(f2) = run_on(true, case) {
                let f = if f2.signature == f.signature { f2 } else { f };
                if survey {
                    // development aid: list every failing shape instead of stopping at the first
                    eprintln!("SURVEY {} :: {} :: {}", f.signature, engine::truncate(&f.message, 3000), serde_json::to_string(case).unwrap_or_default());
                    let mut rep = CaseReport::default();
                    rep.class(format!("FAIL:{}", f.signature));
                    return Ok(rep);
                }
                return Err(f);
            }
        }
        flaky.set(flaky.get() + 1);
        engine::note_flaky("C02", &f, &serde_json::to_string(case).unwrap_or_default());
        let mut rep = CaseReport::default();
        rep.class("flaky_unconfirmed");
        Ok(rep)
    };
    let mut st = engine::run_lab_shard(args, "C02", SUB, total, strategy(), check, 24);
    st.flaky_unconfirmed += flaky.get();
    st
}
