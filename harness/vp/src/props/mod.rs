//! One module per property; `dispatch` selects by id.
use crate::engine::Args;

pub mod c01;
pub mod c01_h2c;
pub mod c02;
pub mod c02_h2;
pub mod c03;
pub mod c03_h2;
pub mod c04;
pub mod c05;
pub mod c06;
pub mod c07;
pub mod c08;
pub mod c09;
pub mod c10;
pub mod c10_lab;
pub mod c10_lab2;
pub mod c11;
pub mod c12;
pub mod c13;
pub mod c13_h2;
pub mod c14;
pub mod c15;
pub mod c15_conn;
pub mod c16;
pub mod c16_adm;
pub mod c16_lab;
pub mod c17;
pub mod c17_lab;
pub mod c18;
pub mod c18_lab;
pub mod c19;
pub mod c19_lab;
pub mod c20;
pub mod h2flow;

pub fn dispatch(args: &Args) -> i32 {
    match args.id.as_str() {
        "C01" => c01::run(args),
        "C02" => c02::run(args),
        "C03" => c03::run(args),
        "C04" => c04::run(args),
        "C05" => c05::run(args),
        "C06" => c06::run(args),
        "C07" => c07::run(args),
        "C08" => c08::run(args),
        "C09" => c09::run(args),
        "C10" => c10::run(args),
        "C11" => c11::run(args),
        "C12" => c12::run(args),
        "C13" => c13::run(args),
        "C14" => c14::run(args),
        "C15" => c15::run(args),
        "C16" => c16::run(args),
        "C17" => c17::run(args),
        "C18" => c18::run(args),
        "C19" => c19::run(args),
        "C20" => c20::run(args),
        other => {
            eprintln!("unknown property id {other}");
            2
        }
    }
}
