//! One module per property; `dispatch` selects by id.
use crate::engine::Args;

pub mod c04;
pub mod c05;
pub mod c06;
pub mod c07;

pub fn dispatch(args: &Args) -> i32 {
    match args.id.as_str() {
        "C04" => c04::run(args),
        "C05" => c05::run(args),
        "C06" => c06::run(args),
        "C07" => c07::run(args),
        other => {
            eprintln!("unknown property id {other}");
            2
        }
    }
}
