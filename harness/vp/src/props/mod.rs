//! One module per property; `dispatch` selects by id.
use crate::engine::Args;

pub mod c04;

pub fn dispatch(args: &Args) -> i32 {
    match args.id.as_str() {
        "C04" => c04::run(args),
        other => {
            eprintln!("unknown property id {other}");
            2
        }
    }
}
