//! C09 — the main process's verdict to a client matches what the workers did (DESIGN §4 C09).
//!
//! Rig: a real `CommandHub` (`run()` in its own thread, `worker_timeout = 1` s) on a unix socket in
//! a private temp dir, W fake workers registered through `Server::register_worker` (each one end of
//! a socket pair driven by a harness thread that follows a generated script; their pid is a
//! harmless `sleep` child because `close_worker` SIGKILLs it), K real clients speaking the
//! length-prefixed protobuf protocol on the command socket. The harness ends use their own framing
//! code (8-byte little-endian total length + prost payload), not sozu's `Channel`.
//!
//! Oracle: per client request exactly one final `Response` within worker_timeout + 3 s, about the
//! right request, whose status is Ok only if every worker that was alive at dispatch answered it Ok
//! in time, and Failure if one of them failed / stayed silent / disconnected; the hub survives,
//! answers a final `Status` truthfully and stops on the closing stop verb.

use std::{
    collections::{BTreeMap, BinaryHeap},
    io::{Read, Write},
    os::{fd::AsRawFd, unix::net::UnixStream},
    path::Path,
    process::{Child, Command, Stdio},
    sync::{
        Arc, Mutex,
        atomic::{AtomicBool, AtomicUsize, Ordering},
        mpsc,
    },
    time::{Duration, Instant},
};

use proptest::prelude::*;
use prost::Message;
use serde::{Deserialize, Serialize};
use sozu::command::server::CommandHub;
use sozu_command_lib::{
    channel::Channel,
    config::Config,
    proto::command::{
        AddBackend, Cluster, ClusterHashes, ClusterInformation, ClusterInformations, HardStop,
        QueryClustersHashes, Request, Response, ResponseContent, ResponseStatus, RunState,
        SocketAddress, SoftStop, Status, WorkerRequest, WorkerResponse, request::RequestType,
        response_content::ContentType,
    },
    scm_socket::ScmSocket,
};

use crate::engine::{self, Args, CaseReport, CheckResult, Evidence, Failure, pick_idx};

// ---------------------------------------------------------------------------
// timing constants (everything scheduled stays well away from the 1 s worker timeout)

const WORKER_TIMEOUT_S: u64 = 1;
/// a final answer must arrive within worker_timeout + 3 s
const FINAL_DEADLINE: Duration = Duration::from_millis(WORKER_TIMEOUT_S * 1000 + 3000);
/// keep reading that long after a final answer to catch a second one
const SECOND_FINAL_WINDOW: Duration = Duration::from_millis(300);
/// generated in-time delays
const DELAYS_MS: [u64; 3] = [0, 20, 60];
/// a late answer comes this long after the request reached the worker (timeout + 1.5 s)
const LATE_MS: u64 = 2500;
/// an in-time answer that left the worker later than this after the client sent the request means the
/// harness itself was starved: the request is not judged
const SLACK_LIMIT: Duration = Duration::from_millis(600);
/// a worker whose channel closed at least this long before a request was sent is dead at dispatch
const DEAD_MARGIN: Duration = Duration::from_millis(300);

// ---------------------------------------------------------------------------
// the case

#[derive(Clone, Copy, Debug, PartialEq, Eq, PartialOrd, Ord, Serialize, Deserialize)]
pub enum Beh {
    Ok,
    Failure,
    /// never answers this request
    Silent,
    /// drops its channel when the request arrives
    CloseChannel,
    /// answers Ok twice
    DuplicateOk,
    /// answers Ok after worker_timeout + 1.5 s
    LateOk,
    ProcessingThenOk,
    /// a Processing notice, then nothing
    ProcessingOnly,
    /// answers Ok with an id the hub never sent, then nothing
    UnknownId,
}

impl Beh {
    fn is_good(self) -> bool {
        matches!(self, Beh::Ok | Beh::DuplicateOk | Beh::ProcessingThenOk)
    }
    /// no terminal answer reaches the hub within the worker timeout
    fn is_unanswered(self) -> bool {
        matches!(self, Beh::Silent | Beh::CloseChannel | Beh::LateOk | Beh::ProcessingOnly | Beh::UnknownId)
    }
}

#[derive(Clone, Copy, Debug, PartialEq, Eq, Serialize, Deserialize)]
pub enum Verb {
    AddCluster,
    AddBackend,
    QueryClusterById,
    /// carries no content: only client 1 sends it (the workers tell the requests apart by arrival order)
    QueryClustersHashes,
    /// carries no content: only client 0 sends it
    Status,
    /// a state file of `n` AddCluster requests
    LoadState { n: u8 },
}

#[derive(Clone, Copy, Debug, PartialEq, Eq, PartialOrd, Ord)]
enum VerbClass {
    Mutating,
    Query,
    Status,
    LoadState,
    Stop,
}

impl VerbClass {
    fn name(self) -> &'static str {
        match self {
            VerbClass::Mutating => "mutating",
            VerbClass::Query => "query",
            VerbClass::Status => "status",
            VerbClass::LoadState => "loadstate",
            VerbClass::Stop => "stop",
        }
    }
}

impl Verb {
    fn class(self) -> VerbClass {
        match self {
            Verb::AddCluster | Verb::AddBackend => VerbClass::Mutating,
            Verb::QueryClusterById | Verb::QueryClustersHashes => VerbClass::Query,
            Verb::Status => VerbClass::Status,
            Verb::LoadState { .. } => VerbClass::LoadState,
        }
    }
}

#[derive(Clone, Copy, Debug, Serialize, Deserialize)]
pub struct BehD {
    pub beh: Beh,
    /// index into DELAYS_MS
    pub delay: u8,
}

#[derive(Clone, Debug, Serialize, Deserialize)]
pub struct Req {
    pub verb: Verb,
    /// index into DELAYS_MS: pause of the client before it sends this request
    pub start_delay: u8,
    /// behaviour of worker i for this request (the first `workers` entries are used)
    pub per_worker: Vec<BehD>,
}

#[derive(Clone, Debug, Serialize, Deserialize)]
pub struct Stop {
    pub soft: bool,
    pub per_worker: Vec<BehD>,
}

#[derive(Clone, Debug, Serialize, Deserialize)]
pub struct Case {
    pub workers: u8,
    /// each client sends its requests one after the other on one connection (the protocol carries no
    /// request id in a Response); the clients run concurrently
    pub clients: Vec<Vec<Req>>,
    pub stop: Stop,
    /// reproducer mode for the two known findings (`load_state` and SoftStop scatter without a timeout):
    /// by default a worker never leaves a LoadState without a terminal answer (Silent, LateOk,
    /// ProcessingOnly, UnknownId, CloseChannel are played as Failure there; a CloseChannel on any request
    /// is played as Failure when another client sends a LoadState, which it could strand) and never
    /// closes its channel on SoftStop (played as Ok); what was replaced is counted in excluded_known.
    /// With `strict` nothing is replaced and the scenario fails with `C09/no-final-answer:loadstate` /
    /// `C09/no-final-answer:stop`.
    #[serde(default)]
    pub strict: bool,
    /// Status must answer Failure when a worker did not answer Ok (the literal reading of the property;
    /// by default an Ok whose content tells the truth about every worker is accepted for Status)
    #[serde(default)]
    pub strict_status: bool,
    /// a client writes all its requests at once instead of waiting for each final answer (never generated)
    #[serde(default)]
    pub pipeline: bool,
}

fn behd() -> impl Strategy<Value = BehD> {
    (
        prop_oneof![
            10 => Just(Beh::Ok),
            2 => Just(Beh::Failure),
            2 => Just(Beh::Silent),
            1 => Just(Beh::CloseChannel),
            2 => Just(Beh::DuplicateOk),
            1 => Just(Beh::LateOk),
            2 => Just(Beh::ProcessingThenOk),
            1 => Just(Beh::ProcessingOnly),
            1 => Just(Beh::UnknownId),
        ],
        (0u8..3).no_shrink(),
    )
        .prop_map(|(beh, delay)| BehD { beh, delay })
}

/// verbs a client may send, by client index (content-less verbs have one designated sender each)
fn verbs_for(client: usize) -> Vec<Verb> {
    let mut v = vec![
        Verb::AddCluster,
        Verb::AddBackend,
        Verb::QueryClusterById,
        Verb::LoadState { n: 1 },
    ];
    match client {
        0 => v.insert(3, Verb::Status),
        1 => v.insert(3, Verb::QueryClustersHashes),
        _ => {}
    }
    v
}

type RawReq = (u32, u8, Vec<BehD>);

pub fn strategy() -> impl Strategy<Value = Case> {
    let req = (any::<u32>(), (0u8..3).no_shrink(), prop::collection::vec(behd(), 3));
    (
        1u8..4,
        prop::collection::vec(prop::collection::vec(req, 1..3), 1..4),
        (prop::bool::weighted(0.25), prop::collection::vec(behd(), 3)),
    )
        .prop_map(|(workers, raw, (soft, stop_b))| {
            let clients = raw
                .into_iter()
                .enumerate()
                .map(|(ci, reqs): (usize, Vec<RawReq>)| {
                    let allowed = verbs_for(ci);
                    reqs.into_iter()
                        .map(|(v, start_delay, per_worker)| {
                            let verb = match allowed[pick_idx(v, allowed.len())] {
                                // the size of the state file rides on the low bit of the same draw
                                Verb::LoadState { .. } => Verb::LoadState { n: 1 + (v & 1) as u8 },
                                other => other,
                            };
                            Req { verb, start_delay, per_worker }
                        })
                        .collect()
                })
                .collect();
            Case { workers, clients, stop: Stop { soft, per_worker: stop_b }, strict: false, strict_status: false, pipeline: false }
        })
}

// ---------------------------------------------------------------------------
// framing used by the harness ends (what command/src/channel.rs documents: usize LE total length, payload)

const DELIM: usize = std::mem::size_of::<usize>();

fn frame<M: Message>(m: &M) -> Vec<u8> {
    let payload = m.encode_to_vec();
    let mut out = Vec::with_capacity(payload.len() + DELIM);
    out.extend_from_slice(&(payload.len() + DELIM).to_le_bytes());
    out.extend_from_slice(&payload);
    out
}

enum ReadOutcome<M> {
    Msg(M),
    Nothing,
    Closed(String),
}

struct FrameReader {
    buf: Vec<u8>,
}

impl FrameReader {
    fn new() -> Self {
        FrameReader { buf: Vec::new() }
    }

    fn take<M: Message + Default>(&mut self) -> Option<Result<M, String>> {
        if self.buf.len() < DELIM {
            return None;
        }
        let len = usize::from_le_bytes(self.buf[..DELIM].try_into().unwrap());
        if len < DELIM || len > (4 << 20) {
            return Some(Err(format!("bad frame length {len}")));
        }
        if self.buf.len() < len {
            return None;
        }
        let m = M::decode(&self.buf[DELIM..len]).map_err(|e| format!("undecodable frame: {e}"));
        self.buf.drain(..len);
        Some(m)
    }

    /// one message if available within `wait`
    fn poll<M: Message + Default>(&mut self, s: &mut UnixStream, wait: Duration) -> ReadOutcome<M> {
        if let Some(r) = self.take::<M>() {
            return match r {
                Ok(m) => ReadOutcome::Msg(m),
                Err(e) => ReadOutcome::Closed(e),
            };
        }
        let _ = s.set_read_timeout(Some(wait.max(Duration::from_millis(1))));
        let mut tmp = [0u8; 16384];
        match s.read(&mut tmp) {
            Ok(0) => ReadOutcome::Closed("peer closed the connection".into()),
            Ok(n) => {
                self.buf.extend_from_slice(&tmp[..n]);
                match self.take::<M>() {
                    Some(Ok(m)) => ReadOutcome::Msg(m),
                    Some(Err(e)) => ReadOutcome::Closed(e),
                    None => ReadOutcome::Nothing,
                }
            }
            Err(e) if matches!(e.kind(), std::io::ErrorKind::WouldBlock | std::io::ErrorKind::TimedOut | std::io::ErrorKind::Interrupted) => {
                ReadOutcome::Nothing
            }
            Err(e) => ReadOutcome::Closed(format!("read error: {e}")),
        }
    }
}

// ---------------------------------------------------------------------------
// fake workers

#[derive(Clone, Copy, Debug, PartialEq, Eq)]
enum SentKind {
    Ok,
    Failure,
    Processing,
    BogusId,
}

#[derive(Clone, Debug)]
struct WorkerRecord {
    /// request key -> when each worker request carrying it arrived
    received: BTreeMap<String, Vec<Instant>>,
    /// request key -> what was written back, when
    sent: BTreeMap<String, Vec<(SentKind, Instant)>>,
    closed_at: Option<Instant>,
    /// the hub closed its end (or the read failed)
    hub_gone: Option<String>,
    /// key of the Status request received after the scenario proper (the closing Status)
    closing_status_key: Option<String>,
    unknown_requests: Vec<String>,
}

struct WorkerShared {
    /// key -> scripted behaviour
    script: BTreeMap<String, BehD>,
    epilogue: AtomicBool,
    /// answer everything Ok at once, the stop verb included
    rescue: AtomicBool,
    quit: AtomicBool,
    pending: AtomicUsize,
    record: Mutex<WorkerRecord>,
}

struct Scheduled {
    due: Instant,
    seq: u64,
    key: String,
    id: String,
    kind: SentKind,
    twice: bool,
    close: bool,
    content: Option<ResponseContent>,
}

impl PartialEq for Scheduled {
    fn eq(&self, o: &Self) -> bool {
        self.due == o.due && self.seq == o.seq
    }
}
impl Eq for Scheduled {}
impl PartialOrd for Scheduled {
    fn partial_cmp(&self, o: &Self) -> Option<std::cmp::Ordering> {
        Some(self.cmp(o))
    }
}
impl Ord for Scheduled {
    fn cmp(&self, o: &Self) -> std::cmp::Ordering {
        // BinaryHeap is a max-heap: earliest due first
        o.due.cmp(&self.due).then(o.seq.cmp(&self.seq))
    }
}

/// what a worker request is about: the tag of the client request that caused it
fn request_key(req: &Request, status_seen: &mut usize, hashes_seen: &mut usize) -> Option<String> {
    match req.request_type.as_ref()? {
        RequestType::AddCluster(c) => Some(c.cluster_id.split('s').next().unwrap_or("").to_string()),
        RequestType::AddBackend(b) => Some(b.cluster_id.clone()),
        RequestType::QueryClusterById(id) => Some(id.clone()),
        RequestType::Status(_) => {
            *status_seen += 1;
            Some(format!("status#{}", *status_seen - 1))
        }
        RequestType::QueryClustersHashes(_) => {
            *hashes_seen += 1;
            Some(format!("hashes#{}", *hashes_seen - 1))
        }
        RequestType::HardStop(_) | RequestType::SoftStop(_) => Some("stop".to_string()),
        _ => None,
    }
}

fn ok_content(req: &Request, key: &str, worker: u32) -> Option<ResponseContent> {
    match req.request_type.as_ref()? {
        RequestType::QueryClusterById(id) => Some(
            ContentType::Clusters(ClusterInformations {
                vec: vec![ClusterInformation {
                    configuration: Some(Cluster { cluster_id: id.clone(), ..Default::default() }),
                    ..Default::default()
                }],
            })
            .into(),
        ),
        RequestType::QueryClustersHashes(_) => {
            let mut map = BTreeMap::new();
            map.insert(format!("[{key}]"), worker as u64);
            Some(ContentType::ClusterHashes(ClusterHashes { map }).into())
        }
        _ => None,
    }
}

fn worker_main(id: u32, mut stream: UnixStream, shared: Arc<WorkerShared>) {
    let mut reader = FrameReader::new();
    let mut heap: BinaryHeap<Scheduled> = BinaryHeap::new();
    let mut seq = 0u64;
    let mut status_seen = 0usize;
    let mut hashes_seen = 0usize;
    let mut bogus = 0usize;
    let mut open = true;
    loop {
        if shared.quit.load(Ordering::SeqCst) {
            break;
        }
        // fire what is due
        let now = Instant::now();
        while heap.peek().map(|s| s.due <= now).unwrap_or(false) {
            let s = heap.pop().unwrap();
            if !open {
                continue;
            }
            if s.close {
                let _ = stream.shutdown(std::net::Shutdown::Both);
                open = false;
                shared.record.lock().unwrap().closed_at = Some(Instant::now());
                continue;
            }
            let status = match s.kind {
                SentKind::Ok | SentKind::BogusId => ResponseStatus::Ok,
                SentKind::Failure => ResponseStatus::Failure,
                SentKind::Processing => ResponseStatus::Processing,
            };
            let msg = WorkerResponse {
                id: s.id.clone(),
                status: status as i32,
                message: format!("[{}] {:?} from worker {id}", s.key, s.kind),
                content: s.content.clone(),
            };
            let mut bytes = frame(&msg);
            if s.twice {
                let again = bytes.clone();
                bytes.extend_from_slice(&again);
            }
            let wrote = stream.write_all(&bytes).is_ok();
            if wrote {
                let mut rec = shared.record.lock().unwrap();
                let at = Instant::now();
                let e = rec.sent.entry(s.key.clone()).or_default();
                e.push((s.kind, at));
                if s.twice {
                    e.push((s.kind, at));
                }
            }
        }
        shared.pending.store(if open { heap.len() } else { 0 }, Ordering::SeqCst);
        if !open {
            std::thread::sleep(Duration::from_millis(10));
            continue;
        }
        let wait = heap
            .peek()
            .map(|s| s.due.saturating_duration_since(Instant::now()).min(Duration::from_millis(10)))
            .unwrap_or(Duration::from_millis(10));
        let req: WorkerRequest = match reader.poll(&mut stream, wait) {
            ReadOutcome::Msg(m) => m,
            ReadOutcome::Nothing => continue,
            ReadOutcome::Closed(why) => {
                shared.record.lock().unwrap().hub_gone = Some(why);
                open = false;
                continue;
            }
        };
        let t0 = Instant::now();
        let Some(key) = request_key(&req.content, &mut status_seen, &mut hashes_seen) else {
            shared.record.lock().unwrap().unknown_requests.push(format!("{:?}", req.content.request_type));
            continue;
        };
        shared.record.lock().unwrap().received.entry(key.clone()).or_default().push(t0);
        let epilogue = shared.epilogue.load(Ordering::SeqCst);
        if epilogue && key.starts_with("status#") {
            shared.record.lock().unwrap().closing_status_key = Some(key.clone());
        }
        let rescue = shared.rescue.load(Ordering::SeqCst);
        let scripted = if rescue || (epilogue && key != "stop") { None } else { shared.script.get(&key).copied() };
        let BehD { beh, delay } = scripted.unwrap_or(BehD { beh: Beh::Ok, delay: 0 });
        let d = Duration::from_millis(DELAYS_MS[(delay as usize).min(2)]);
        let content = ok_content(&req.content, &key, id);
        let mut push = |due: Instant, kind: SentKind, twice: bool, close: bool, rid: String| {
            seq += 1;
            heap.push(Scheduled { due, seq, key: key.clone(), id: rid, kind, twice, close, content: if kind == SentKind::Ok { content.clone() } else { None } });
        };
        match beh {
            Beh::Ok => push(t0 + d, SentKind::Ok, false, false, req.id.clone()),
            Beh::Failure => push(t0 + d, SentKind::Failure, false, false, req.id.clone()),
            Beh::Silent => {}
            Beh::CloseChannel => push(t0 + d, SentKind::Ok, false, true, req.id.clone()),
            Beh::DuplicateOk => push(t0 + d, SentKind::Ok, true, false, req.id.clone()),
            Beh::LateOk => push(t0 + d + Duration::from_millis(LATE_MS), SentKind::Ok, false, false, req.id.clone()),
            Beh::ProcessingThenOk => {
                push(t0 + d, SentKind::Processing, false, false, req.id.clone());
                push(t0 + d + Duration::from_millis(20), SentKind::Ok, false, false, req.id.clone());
            }
            Beh::ProcessingOnly => push(t0 + d, SentKind::Processing, false, false, req.id.clone()),
            Beh::UnknownId => {
                bogus += 1;
                push(t0 + d, SentKind::BogusId, false, false, format!("BOGUS-{id}-{bogus}"));
            }
        }
        shared.pending.store(heap.len(), Ordering::SeqCst);
    }
}

// ---------------------------------------------------------------------------
// clients

#[derive(Clone, Debug, Default)]
struct ReqOutcome {
    sent_at: Option<Instant>,
    notices: Vec<Response>,
    notices_after_final: usize,
    finals: Vec<(Response, Instant)>,
    /// why reading stopped before a final answer
    broken: Option<String>,
}

fn is_final(r: &Response) -> bool {
    r.status != ResponseStatus::Processing as i32
}

/// read the answers to the request(s) in flight: until `want` finals were seen plus the second-final
/// window, or the deadline, or the connection broke
fn read_answers(stream: &mut UnixStream, reader: &mut FrameReader, out: &mut ReqOutcome, want: usize, hub_done: &AtomicBool) {
    let deadline = Instant::now() + FINAL_DEADLINE;
    let mut until = deadline;
    loop {
        let now = Instant::now();
        if now >= until {
            if out.finals.len() < want {
                out.broken = Some(format!("{} final answer(s) within {} ms, {want} expected", out.finals.len(), FINAL_DEADLINE.as_millis()));
            }
            return;
        }
        match reader.poll::<Response>(stream, (until - now).min(Duration::from_millis(50))) {
            ReadOutcome::Msg(r) => {
                if is_final(&r) {
                    out.finals.push((r, Instant::now()));
                    if out.finals.len() == want {
                        until = Instant::now() + SECOND_FINAL_WINDOW;
                    }
                } else if out.finals.len() < want {
                    out.notices.push(r);
                } else {
                    out.notices_after_final += 1;
                }
            }
            ReadOutcome::Nothing => {
                if hub_done.load(Ordering::SeqCst) && out.finals.len() < want {
                    // the hub thread is gone: drain what is buffered, then give up
                    if let ReadOutcome::Msg(r) = reader.poll::<Response>(stream, Duration::from_millis(20)) {
                        if is_final(&r) {
                            out.finals.push((r, Instant::now()));
                            continue;
                        }
                    }
                    out.broken = Some("the hub thread ended before a final answer".into());
                    return;
                }
            }
            ReadOutcome::Closed(why) => {
                if out.finals.len() < want {
                    out.broken = Some(why);
                }
                return;
            }
        }
    }
}

fn client_main(path: String, reqs: Vec<(Request, u64)>, pipeline: bool, hub_done: Arc<AtomicBool>) -> Vec<ReqOutcome> {
    let mut outs: Vec<ReqOutcome> = vec![ReqOutcome::default(); reqs.len()];
    let mut stream = match UnixStream::connect(&path) {
        Ok(s) => s,
        Err(e) => {
            outs[0].sent_at = Some(Instant::now());
            outs[0].broken = Some(format!("cannot connect to the command socket: {e}"));
            return outs;
        }
    };
    let mut reader = FrameReader::new();
    if pipeline {
        // all requests in one write; the finals are attributed in order of arrival
        let mut bytes = vec![];
        for (r, _) in &reqs {
            bytes.extend_from_slice(&frame(r));
        }
        let at = Instant::now();
        let mut agg = ReqOutcome { sent_at: Some(at), ..Default::default() };
        if let Err(e) = stream.write_all(&bytes) {
            agg.broken = Some(format!("write failed: {e}"));
        } else {
            read_answers(&mut stream, &mut reader, &mut agg, reqs.len(), &hub_done);
        }
        let n = outs.len();
        for (i, o) in outs.iter_mut().enumerate() {
            o.sent_at = Some(at);
            o.broken = agg.broken.clone();
            if i < agg.finals.len() {
                o.finals.push(agg.finals[i].clone());
            }
            if i + 1 == n && agg.finals.len() > n {
                o.finals.extend(agg.finals[n..].iter().cloned());
            }
        }
        outs[0].notices = agg.notices;
        return outs;
    }
    for (i, (r, pause_ms)) in reqs.iter().enumerate() {
        if *pause_ms > 0 {
            std::thread::sleep(Duration::from_millis(*pause_ms));
        }
        outs[i].sent_at = Some(Instant::now());
        if let Err(e) = stream.write_all(&frame(r)) {
            outs[i].broken = Some(format!("write failed: {e}"));
            break;
        }
        read_answers(&mut stream, &mut reader, &mut outs[i], 1, &hub_done);
        if outs[i].finals.is_empty() {
            // a late answer would be attributed to the next request: stop here
            break;
        }
    }
    outs
}

// ---------------------------------------------------------------------------
// the hub thread

enum HubExit {
    Returned,
    Panicked { loc: String, msg: String },
    SetupFailed(String),
}

struct HubWorker {
    id: u32,
    pid: i32,
    hub_side: UnixStream,
    scm_fd: i32,
}

fn hub_main(cfg_path: String, sock_path: String, workers: Vec<HubWorker>, ready: mpsc::Sender<Result<(), String>>, done: Arc<AtomicBool>) -> HubExit {
    // this thread's sozu logger prints errors to stdout by default: silence it
    // (diagnosis aid: C09_HUB_LOG=<spec> lets this thread's log lines through)
    let directives = match std::env::var("C09_HUB_LOG") {
        Ok(spec) => sozu_command_lib::logging::parse_logging_spec(&spec).0,
        Err(_) => vec![],
    };
    sozu_command_lib::logging::LOGGER.with(|l| l.borrow_mut().set_directives(directives));
    let setup = || -> Result<CommandHub, String> {
        let config = Config::load_from_path(&cfg_path).map_err(|e| format!("config: {e}"))?;
        let listener = mio::net::UnixListener::bind(&sock_path).map_err(|e| format!("bind: {e}"))?;
        let mut hub = CommandHub::new(listener, config, "/bin/true".into()).map_err(|e| format!("hub: {e}"))?;
        for w in workers {
            w.hub_side.set_nonblocking(true).map_err(|e| format!("nonblocking: {e}"))?;
            let channel: Channel<WorkerRequest, WorkerResponse> = Channel::new(mio::net::UnixStream::from_std(w.hub_side), 4096, 1 << 21);
            let scm = ScmSocket::new(w.scm_fd).map_err(|e| format!("scm: {e}"))?;
            hub.register_worker(w.id, w.pid, channel, scm).map_err(|e| format!("register_worker: {e}"))?;
        }
        Ok(hub)
    };
    let mut hub = match setup() {
        Ok(h) => h,
        Err(e) => {
            let _ = ready.send(Err(e.clone()));
            done.store(true, Ordering::SeqCst);
            return HubExit::SetupFailed(e);
        }
    };
    let _ = ready.send(Ok(()));
    let _ = engine::take_last_panic();
    let r = std::panic::catch_unwind(std::panic::AssertUnwindSafe(|| hub.run()));
    let exit = match r {
        Ok(_) => HubExit::Returned,
        Err(_) => {
            let (loc, msg) = engine::take_last_panic().unwrap_or(("?".into(), "?".into()));
            HubExit::Panicked { loc, msg }
        }
    };
    drop(hub);
    done.store(true, Ordering::SeqCst);
    exit
}


/// The real main process (CommandHub, no workers): `LoadState(file_in)` then `SaveState(file_out)`, then a
/// hard stop. Used by C05 to send generated state files through the loader the operator uses.
/// Returns (status and message of LoadState, status and message of SaveState, bytes of the file saved).
pub fn load_then_save(state_in: &[u8]) -> Result<((String, String), (String, String), Vec<u8>), String> {
    std::fs::create_dir_all("/verif/scratch").map_err(|e| e.to_string())?;
    let dir = tempfile::Builder::new().prefix("c05-").tempdir_in("/verif/scratch").map_err(|e| e.to_string())?;
    let sock_path = dir.path().join("s.sock").to_string_lossy().to_string();
    let cfg_path = dir.path().join("config.toml").to_string_lossy().to_string();
    let file_in = dir.path().join("in.json").to_string_lossy().to_string();
    let file_out = dir.path().join("out.json").to_string_lossy().to_string();
    std::fs::write(&file_in, state_in).map_err(|e| e.to_string())?;
    std::fs::write(&cfg_path, format!("command_socket = \"{sock_path}\"\nworker_count = 0\nworker_automatic_restart = false\nworker_timeout = {WORKER_TIMEOUT_S}\nlog_level = \"error\"\nlog_target = \"stdout\"\n")).map_err(|e| e.to_string())?;
    let hub_done = Arc::new(AtomicBool::new(false));
    let (ready_tx, ready_rx) = mpsc::channel();
    let hub_handle = {
        let (cfg_path, sock_path, hub_done) = (cfg_path.clone(), sock_path.clone(), hub_done.clone());
        std::thread::Builder::new().name("c05-hub".into()).stack_size(8 << 20).spawn(move || hub_main(cfg_path, sock_path, vec![], ready_tx, hub_done)).map_err(|e| e.to_string())?
    };
    match ready_rx.recv_timeout(Duration::from_secs(10)) {
        Ok(Ok(())) => {}
        Ok(Err(e)) => return Err(format!("hub setup failed: {e}")),
        Err(_) => return Err("hub setup did not finish".into()),
    }
    let verdict = |o: &ReqOutcome| -> (String, String) {
        match o.finals.first() {
            Some((r, _)) => (status_of(r).to_string(), r.message.clone()),
            None => ("none".to_string(), o.broken.clone().unwrap_or_default()),
        }
    };
    let load = one_shot(&sock_path, &Request { request_type: Some(RequestType::LoadState(file_in.clone())) }, &hub_done);
    let save = one_shot(&sock_path, &Request { request_type: Some(RequestType::SaveState(file_out.clone())) }, &hub_done);
    let _ = one_shot(&sock_path, &Request { request_type: Some(RequestType::HardStop(HardStop {})) }, &hub_done);
    let t0 = Instant::now();
    while !hub_handle.is_finished() && t0.elapsed() < Duration::from_secs(5) {
        std::thread::sleep(Duration::from_millis(5));
    }
    if let HubExit::Panicked { loc, msg } = if hub_handle.is_finished() { hub_handle.join().unwrap_or(HubExit::Returned) } else { HubExit::Returned } {
        return Err(format!("the main process panicked at {loc}: {msg}"));
    }
    let saved = std::fs::read(&file_out).unwrap_or_default();
    Ok((verdict(&load), verdict(&save), saved))
}

// ---------------------------------------------------------------------------
// the scenario

fn tag(client: usize, idx: usize) -> String {
    format!("t{client}x{idx}")
}

struct PlannedReq {
    client: usize,
    idx: usize,
    verb: Verb,
    key: String,
    request: Request,
    /// effective behaviour per worker after the knobs
    behs: Vec<BehD>,
    excluded: u64,
}

/// By-construction exclusion of the two known shapes (see `Case::strict`).
/// `close_strands_loadstate`: another client sends a LoadState, which a channel closed now could leave
/// without an answer for ever.
fn effective(case: &Case, class: VerbClass, soft_stop: bool, close_strands_loadstate: bool, b: BehD, excluded: &mut u64) -> BehD {
    let mut beh = b.beh;
    if !case.strict {
        if class == VerbClass::LoadState && beh.is_unanswered() {
            beh = Beh::Failure;
            *excluded += 1;
        } else if class != VerbClass::Stop && close_strands_loadstate && beh == Beh::CloseChannel {
            beh = Beh::Failure;
            *excluded += 1;
        } else if class == VerbClass::Stop && soft_stop && beh == Beh::CloseChannel {
            beh = Beh::Ok;
            *excluded += 1;
        }
    }
    BehD { beh, delay: b.delay }
}

fn plan(case: &Case, dir: &Path) -> Vec<PlannedReq> {
    let w = case.workers as usize;
    let mut out = vec![];
    let mut status_n = 0;
    let mut hashes_n = 0;
    for (ci, reqs) in case.clients.iter().enumerate() {
        for (ri, r) in reqs.iter().enumerate() {
            let t = tag(ci, ri);
            let (key, request): (String, Request) = match r.verb {
                Verb::AddCluster => (t.clone(), RequestType::AddCluster(Cluster { cluster_id: t.clone(), ..Default::default() }).into()),
                Verb::AddBackend => (
                    t.clone(),
                    RequestType::AddBackend(AddBackend {
                        cluster_id: t.clone(),
                        backend_id: format!("{t}-b"),
                        address: SocketAddress::new_v4(127, 0, 0, 1, 2000 + (ci * 10 + ri) as u16),
                        ..Default::default()
                    })
                    .into(),
                ),
                Verb::QueryClusterById => (t.clone(), RequestType::QueryClusterById(t.clone()).into()),
                Verb::QueryClustersHashes => {
                    assert!(ci == 1, "invalid case: QueryClustersHashes is only sent by client 1");
                    hashes_n += 1;
                    (format!("hashes#{}", hashes_n - 1), RequestType::QueryClustersHashes(QueryClustersHashes {}).into())
                }
                Verb::Status => {
                    assert!(ci == 0, "invalid case: Status is only sent by client 0");
                    status_n += 1;
                    (format!("status#{}", status_n - 1), RequestType::Status(Status {}).into())
                }
                Verb::LoadState { n } => {
                    let path = dir.join(format!("state-{t}.json"));
                    let mut bytes = vec![];
                    for k in 0..n.clamp(1, 4) {
                        let wr = WorkerRequest {
                            id: format!("SAVE-{k}"),
                            content: RequestType::AddCluster(Cluster { cluster_id: format!("{t}s{k}"), ..Default::default() }).into(),
                        };
                        bytes.extend_from_slice(serde_json::to_string(&wr).expect("serialise WorkerRequest").as_bytes());
                        bytes.extend_from_slice(b"\n\0");
                    }
                    std::fs::write(&path, bytes).expect("write state file");
                    (t.clone(), RequestType::LoadState(path.to_string_lossy().to_string()).into())
                }
            };
            let mut excluded = 0;
            let close_strands_loadstate = case.clients.iter().enumerate().any(|(cj, other)| cj != ci && other.iter().any(|o| o.verb.class() == VerbClass::LoadState));
            let behs = (0..w)
                .map(|wi| effective(case, r.verb.class(), false, close_strands_loadstate, r.per_worker.get(wi).copied().unwrap_or(BehD { beh: Beh::Ok, delay: 0 }), &mut excluded))
                .collect();
            out.push(PlannedReq { client: ci, idx: ri, verb: r.verb, key, request, behs, excluded });
        }
    }
    out
}

#[derive(Clone, Copy, Debug, PartialEq, Eq)]
enum WorkerPart {
    /// received the request and sent a terminal Ok (and no Failure) in time
    Good,
    /// received the request and did not acknowledge it (the scripted behaviour)
    Bad(Beh),
    /// its channel was closed long before the request was sent
    DeadBefore,
    /// its channel closed around the time of the dispatch: may or may not have been asked
    Ambiguous,
    /// alive all along, yet never received the request
    NotAsked,
    /// harness starvation: the answer left too late to be judged
    Slack,
}

struct Teardown {
    children: Vec<Child>,
    reap: bool,
}

impl Drop for Teardown {
    fn drop(&mut self) {
        for c in self.children.iter_mut() {
            let _ = c.kill();
            if self.reap {
                let _ = c.wait();
            }
            // not reaped: the zombie keeps the pid reserved, a hub thread that never stopped can not
            // SIGKILL a stranger through it
        }
    }
}

fn slug(s: &str) -> String {
    let mut out = String::new();
    let mut dash = false;
    for c in s.chars() {
        if c.is_ascii_alphanumeric() || c == '_' {
            out.push(c);
            dash = false;
        } else if !dash && !out.is_empty() {
            out.push('-');
            dash = true;
        }
        if out.len() >= 56 {
            break;
        }
    }
    out.trim_end_matches('-').to_string()
}

fn short_file(loc: &str) -> String {
    let file = loc.rsplit_once(':').map(|(f, _)| f).unwrap_or(loc);
    file.rsplit_once("/repo/").map(|(_, b)| b.to_string()).unwrap_or(file.to_string())
}

fn one_shot(path: &str, req: &Request, hub_done: &Arc<AtomicBool>) -> ReqOutcome {
    client_main(path.to_string(), vec![(req.clone(), 0)], false, hub_done.clone()).remove(0)
}

fn status_of(r: &Response) -> &'static str {
    match ResponseStatus::try_from(r.status) {
        Ok(ResponseStatus::Ok) => "Ok",
        Ok(ResponseStatus::Failure) => "Failure",
        Ok(ResponseStatus::Processing) => "Processing",
        Err(_) => "?",
    }
}

fn run_state_name(v: i32) -> &'static str {
    match RunState::try_from(v) {
        Ok(RunState::Running) => "Running",
        Ok(RunState::Stopping) => "Stopping",
        Ok(RunState::Stopped) => "Stopped",
        Ok(RunState::NotAnswering) => "NotAnswering",
        Err(_) => "?",
    }
}

/// every "[tag]" mentioned in `text`
fn tags_in(text: &str) -> Vec<String> {
    let mut v = vec![];
    let mut rest = text;
    while let Some(i) = rest.find('[') {
        rest = &rest[i + 1..];
        if let Some(j) = rest.find(']') {
            let t = &rest[..j];
            if !t.is_empty() && t.len() <= 12 && t.chars().all(|c| c.is_ascii_alphanumeric() || c == '#') {
                v.push(t.to_string());
            }
        }
    }
    v
}

fn content_tags(c: &Option<ResponseContent>) -> Vec<String> {
    let mut v = vec![];
    let Some(ResponseContent { content_type: Some(ct) }) = c else { return v };
    if let ContentType::WorkerResponses(wr) = ct {
        for (who, rc) in &wr.map {
            if who == "main" {
                continue;
            }
            match &rc.content_type {
                Some(ContentType::Clusters(ci)) => {
                    for info in &ci.vec {
                        if let Some(cfg) = &info.configuration {
                            v.push(cfg.cluster_id.clone());
                        }
                    }
                }
                Some(ContentType::ClusterHashes(h)) => {
                    for k in h.map.keys() {
                        v.extend(tags_in(k));
                    }
                }
                _ => {}
            }
        }
    }
    v
}

pub fn check(case: &Case) -> CheckResult {
    let mut rep = CaseReport::default();
    let w = case.workers as usize;
    assert!((1..=3).contains(&w) && !case.clients.is_empty() && case.clients.iter().all(|c| !c.is_empty()), "invalid case shape");

    std::fs::create_dir_all("/verif/scratch").expect("scratch dir");
    let dir = tempfile::Builder::new().prefix("c09-").tempdir_in("/verif/scratch").expect("temp dir");
    let sock_path = dir.path().join("s.sock").to_string_lossy().to_string();
    let cfg_path = dir.path().join("config.toml").to_string_lossy().to_string();
    std::fs::write(
        &cfg_path,
        format!(
            "command_socket = \"{sock_path}\"\nworker_count = 0\nworker_automatic_restart = false\nworker_timeout = {WORKER_TIMEOUT_S}\nlog_level = \"error\"\nlog_target = \"stdout\"\n"
        ),
    )
    .expect("write config");
    let planned = plan(case, dir.path());

    // ---- stop spec
    let mut stop_excluded = 0u64;
    let stop_behs: Vec<BehD> = (0..w)
        .map(|wi| {
            let b = case.stop.per_worker.get(wi).copied().unwrap_or(BehD { beh: Beh::Ok, delay: 0 });
            // a worker that is still draining connections legitimately takes for ever to answer SoftStop
            let b = if case.stop.soft && matches!(b.beh, Beh::Silent | Beh::LateOk | Beh::ProcessingOnly | Beh::UnknownId) { BehD { beh: Beh::Ok, delay: b.delay } } else { b };
            effective(case, VerbClass::Stop, case.stop.soft, false, b, &mut stop_excluded)
        })
        .collect();

    // ---- children, socket pairs
    let mut td = Teardown { children: vec![], reap: true };
    for _ in 0..w {
        let child = Command::new("sleep").arg("600").stdin(Stdio::null()).stdout(Stdio::null()).stderr(Stdio::null()).spawn().expect("spawn sleep");
        td.children.push(child);
    }
    let mut hub_workers = vec![];
    let mut worker_sides = vec![];
    let mut scm_keep = vec![];
    for wi in 0..w {
        let (hub_side, worker_side) = UnixStream::pair().expect("socketpair");
        let (scm_a, scm_b) = UnixStream::pair().expect("socketpair");
        hub_workers.push(HubWorker { id: wi as u32, pid: td.children[wi].id() as i32, hub_side, scm_fd: scm_a.as_raw_fd() });
        worker_sides.push(worker_side);
        scm_keep.push((scm_a, scm_b));
    }

    // ---- hub
    let hub_done = Arc::new(AtomicBool::new(false));
    let (ready_tx, ready_rx) = mpsc::channel();
    let hub_handle = {
        let (cfg_path, sock_path, hub_done) = (cfg_path.clone(), sock_path.clone(), hub_done.clone());
        std::thread::Builder::new()
            .name("c09-hub".into())
            .stack_size(8 << 20)
            .spawn(move || hub_main(cfg_path, sock_path, hub_workers, ready_tx, hub_done))
            .expect("spawn hub thread")
    };
    match ready_rx.recv_timeout(Duration::from_secs(10)) {
        Ok(Ok(())) => {}
        Ok(Err(e)) => panic!("C09 harness: hub setup failed: {e}"),
        Err(_) => panic!("C09 harness: hub setup did not finish"),
    }

    // ---- workers
    let mut shared: Vec<Arc<WorkerShared>> = vec![];
    let mut worker_handles = vec![];
    for (wi, side) in worker_sides.into_iter().enumerate() {
        let mut script = BTreeMap::new();
        for p in &planned {
            script.insert(p.key.clone(), p.behs[wi]);
        }
        script.insert("stop".to_string(), stop_behs[wi]);
        let sh = Arc::new(WorkerShared {
            script,
            epilogue: AtomicBool::new(false),
            rescue: AtomicBool::new(false),
            quit: AtomicBool::new(false),
            pending: AtomicUsize::new(0),
            record: Mutex::new(WorkerRecord { received: BTreeMap::new(), sent: BTreeMap::new(), closed_at: None, hub_gone: None, closing_status_key: None, unknown_requests: vec![] }),
        });
        shared.push(sh.clone());
        worker_handles.push(
            std::thread::Builder::new()
                .name(format!("c09-w{wi}"))
                .spawn(move || worker_main(wi as u32, side, sh))
                .expect("spawn worker thread"),
        );
    }

    // ---- clients
    let mut client_handles = vec![];
    for (ci, reqs) in case.clients.iter().enumerate() {
        let list: Vec<(Request, u64)> = reqs
            .iter()
            .enumerate()
            .map(|(ri, r)| {
                let p = planned.iter().find(|p| p.client == ci && p.idx == ri).unwrap();
                (p.request.clone(), DELAYS_MS[(r.start_delay as usize).min(2)])
            })
            .collect();
        let (path, hub_done, pipeline) = (sock_path.clone(), hub_done.clone(), case.pipeline);
        client_handles.push(
            std::thread::Builder::new()
                .name(format!("c09-c{ci}"))
                .spawn(move || client_main(path, list, pipeline, hub_done))
                .expect("spawn client thread"),
        );
    }
    let outcomes: Vec<Vec<ReqOutcome>> = client_handles.into_iter().map(|h| h.join().expect("client thread")).collect();

    // ---- let the late answers reach the hub
    let drain_deadline = Instant::now() + Duration::from_millis(LATE_MS + 1000);
    while Instant::now() < drain_deadline && !hub_done.load(Ordering::SeqCst) && shared.iter().any(|s| s.pending.load(Ordering::SeqCst) > 0) {
        std::thread::sleep(Duration::from_millis(20));
    }
    std::thread::sleep(Duration::from_millis(100));

    // ---- epilogue: a fresh client asks for the status, then the stop verb
    for s in &shared {
        s.epilogue.store(true, Ordering::SeqCst);
    }
    let final_status = one_shot(&sock_path, &RequestType::Status(Status {}).into(), &hub_done);
    let closed_before_stop: Vec<bool> = shared.iter().map(|s| s.record.lock().unwrap().closed_at.is_some()).collect();
    let stop_req: Request = if case.stop.soft { RequestType::SoftStop(SoftStop {}).into() } else { RequestType::HardStop(HardStop {}).into() };
    let stop_sent = Instant::now();
    let stop_out = one_shot(&sock_path, &stop_req, &hub_done);
    let join_deadline = Instant::now() + Duration::from_secs(3);
    while !hub_handle.is_finished() && Instant::now() < join_deadline {
        std::thread::sleep(Duration::from_millis(10));
    }
    let mut hub_stuck = false;
    if !hub_handle.is_finished() {
        hub_stuck = true;
        // rescue: a hard stop answered by everybody
        for s in &shared {
            s.rescue.store(true, Ordering::SeqCst);
        }
        let _ = one_shot(&sock_path, &RequestType::HardStop(HardStop {}).into(), &hub_done);
        let d = Instant::now() + Duration::from_secs(3);
        while !hub_handle.is_finished() && Instant::now() < d {
            std::thread::sleep(Duration::from_millis(10));
        }
    }
    let hub_exit = if hub_handle.is_finished() {
        Some(hub_handle.join().unwrap_or(HubExit::Panicked { loc: "?".into(), msg: "hub thread died outside run()".into() }))
    } else {
        td.reap = false;
        None
    };
    for s in &shared {
        s.quit.store(true, Ordering::SeqCst);
    }
    for h in worker_handles {
        let _ = h.join();
    }
    let records: Vec<WorkerRecord> = shared.iter().map(|s| s.record.lock().unwrap().clone()).collect();
    drop(scm_keep);
    drop(td);

    // =======================================================================
    // oracle

    let describe = |p: &PlannedReq| -> String {
        let behs: Vec<String> = p.behs.iter().enumerate().map(|(i, b)| format!("w{i}:{:?}+{}ms", b.beh, DELAYS_MS[(b.delay as usize).min(2)])).collect();
        format!("client {} request {} ({:?}, key {}) [{}]", p.client, p.idx, p.verb, p.key, behs.join(" "))
    };

    // what each worker did with a request
    let parts_of = |p: &PlannedReq, sent_at: Instant| -> Vec<WorkerPart> {
        let expected_msgs = match p.verb {
            Verb::LoadState { n } => n.clamp(1, 4) as usize,
            _ => 1,
        };
        (0..w)
            .map(|wi| {
                let rec = &records[wi];
                let got = rec.received.get(&p.key).map(|v| v.len()).unwrap_or(0);
                if got == 0 {
                    return match rec.closed_at {
                        None => WorkerPart::NotAsked,
                        Some(c) if c + DEAD_MARGIN <= sent_at => WorkerPart::DeadBefore,
                        Some(_) => WorkerPart::Ambiguous,
                    };
                }
                let sent = rec.sent.get(&p.key).cloned().unwrap_or_default();
                let oks: Vec<Instant> = sent.iter().filter(|(k, _)| *k == SentKind::Ok).map(|(_, t)| *t).collect();
                let failures = sent.iter().filter(|(k, _)| *k == SentKind::Failure).count();
                let beh = p.behs[wi].beh;
                if beh.is_good() {
                    if failures == 0 && got == expected_msgs && oks.len() >= expected_msgs {
                        if oks.iter().any(|t| t.duration_since(sent_at) > SLACK_LIMIT) { WorkerPart::Slack } else { WorkerPart::Good }
                    } else if rec.closed_at.is_some() {
                        // closed (for another request) before this answer left
                        WorkerPart::Bad(Beh::CloseChannel)
                    } else {
                        WorkerPart::Slack
                    }
                } else if beh == Beh::Failure {
                    // a Failure that left in time is a terminal answer too
                    let fails: Vec<Instant> = sent.iter().filter(|(k, _)| *k == SentKind::Failure).map(|(_, t)| *t).collect();
                    if fails.len() >= expected_msgs && fails.iter().all(|t| t.duration_since(sent_at) <= SLACK_LIMIT) {
                        WorkerPart::Bad(Beh::Failure)
                    } else if rec.closed_at.is_some() {
                        WorkerPart::Bad(Beh::CloseChannel)
                    } else {
                        WorkerPart::Slack
                    }
                } else {
                    WorkerPart::Bad(beh)
                }
            })
            .collect()
    };
    // every worker concerned sent its terminal answer (Ok or Failure) in time
    let all_answered = |parts: &[WorkerPart]| parts.iter().all(|x| matches!(x, WorkerPart::Good | WorkerPart::Bad(Beh::Failure) | WorkerPart::DeadBefore));

    // ---- the hub must not have crashed
    if let Some(HubExit::Panicked { loc, msg }) = &hub_exit {
        let pending: Vec<&PlannedReq> = planned
            .iter()
            .filter(|p| outcomes[p.client][p.idx].sent_at.is_some() && outcomes[p.client][p.idx].finals.is_empty())
            .collect();
        let unanswered: Vec<String> = pending.iter().map(|p| format!("{} {:?}", describe(p), parts_of(p, outcomes[p.client][p.idx].sent_at.unwrap()))).collect();
        // the workers answered every request in flight, in time: the hub lost answers before it panicked
        let lost = !pending.is_empty() && pending.iter().all(|p| all_answered(&parts_of(p, outcomes[p.client][p.idx].sent_at.unwrap())));
        return Err(Failure::new(
            if lost {
                format!("C09/answers-dropped:hub-panicked:{}", short_file(loc))
            } else {
                format!("C09/hub-panicked:{}:{}", short_file(loc), slug(msg))
            },
            format!("the command hub thread panicked at {loc}: {msg}; requests without a final answer at that point, with what each worker did: {unanswered:?}"),
        ));
    }
    if let Some(HubExit::SetupFailed(e)) = &hub_exit {
        panic!("C09 harness: {e}");
    }
    for (wi, r) in records.iter().enumerate() {
        assert!(r.unknown_requests.is_empty(), "C09 harness: worker {wi} got requests it cannot attribute: {:?}", r.unknown_requests);
    }

    let all_keys: Vec<&String> = planned.iter().map(|p| &p.key).collect();
    let mut judged = 0u64;
    let mut ambiguous_reqs = 0u64;
    let mut slack_reqs = 0u64;
    let mut saw_failure_verdict = false;
    let mut saw_ok_verdict = false;
    let mut notices_after_final = 0usize;

    if case.pipeline {
        // replay-only mode (never generated): a client that writes several requests at once
        for (ci, outs) in outcomes.iter().enumerate() {
            let finals: usize = outs.iter().map(|o| o.finals.len()).sum();
            if finals < outs.len() {
                let asked: Vec<String> = planned
                    .iter()
                    .filter(|p| p.client == ci)
                    .map(|p| format!("{}: received by {:?}", p.key, (0..w).map(|wi| records[wi].received.contains_key(&p.key)).collect::<Vec<_>>()))
                    .collect();
                fail!("C09/pipelined-request-dropped", "client {ci} wrote {} requests in one write and got {finals} final answer(s); per request, which workers received it: {asked:?}", outs.len());
            }
        }
    }

    for p in &planned {
        let out = &outcomes[p.client][p.idx];
        let class = p.verb.class();
        let Some(sent_at) = out.sent_at else {
            // the client stopped at an earlier request of the same connection (already reported below, in order)
            continue;
        };
        rep.excluded_known += p.excluded;
        notices_after_final += out.notices_after_final;

        // -- exactly one final answer
        if out.finals.is_empty() {
            let parts = parts_of(p, sent_at);
            if all_answered(&parts) {
                fail!(
                    format!("C09/answers-dropped:no-final-answer:{}", class.name()),
                    "{}: every worker sent its terminal answer in time ({parts:?}) but the client got no final answer: {} ({} processing notices seen)",
                    describe(p),
                    out.broken.clone().unwrap_or_default(),
                    out.notices.len()
                );
            }
            // the two known findings (LoadState / SoftStop scattered without a timeout) only exist in `strict`
            // cases, where the worker behaviours that trigger them are not replaced: they get a signature of
            // their own, so that any other unanswered LoadState or stop is still reported
            let known_shape = if case.strict && class == VerbClass::LoadState { ":worker-never-answers" } else { "" };
            fail!(
                format!("C09/no-final-answer:{}{known_shape}", class.name()),
                "{}: {} ({} processing notices seen)",
                describe(p),
                out.broken.clone().unwrap_or_default(),
                out.notices.len()
            );
        }
        if out.finals.len() > 1 {
            fail!(
                format!("C09/two-final-answers:{}", class.name()),
                "{}: a second final answer came within {} ms of the first: {:?}",
                describe(p),
                SECOND_FINAL_WINDOW.as_millis(),
                out.finals.iter().map(|(r, _)| format!("{} {:?}", status_of(r), r.message)).collect::<Vec<_>>()
            );
        }
        let (fin, fin_at) = &out.finals[0];
        if fin_at.duration_since(sent_at) > FINAL_DEADLINE {
            fail!(format!("C09/no-final-answer:{}", class.name()), "{}: final answer after {:?}", describe(p), fin_at.duration_since(sent_at));
        }

        // -- it is about this request
        let mut mentioned: Vec<String> = tags_in(&fin.message);
        mentioned.extend(content_tags(&fin.content));
        for n in &out.notices {
            mentioned.extend(tags_in(&n.message));
        }
        for m in &mentioned {
            if *m != p.key && all_keys.iter().any(|k| *k == m) {
                fail!(
                    "C09/answer-for-another-request",
                    "{}: what came back mentions request {m}: final {} {:?}, notices {:?}",
                    describe(p),
                    status_of(fin),
                    fin.message,
                    out.notices.iter().map(|n| n.message.clone()).collect::<Vec<_>>()
                );
            }
        }
        if let Verb::LoadState { .. } = p.verb {
            if fin.message.contains("state-") && !fin.message.contains(&format!("state-{}.json", p.key)) {
                fail!("C09/answer-for-another-request", "{}: final answer is about another state file: {:?}", describe(p), fin.message);
            }
        }

        // -- what each worker did with it
        let parts = parts_of(p, sent_at);
        let parts_txt = format!("{parts:?}");
        if parts.contains(&WorkerPart::Slack) {
            slack_reqs += 1;
            continue;
        }
        let any_bad = parts.iter().any(|x| matches!(x, WorkerPart::Bad(_)));
        let any_amb = parts.contains(&WorkerPart::Ambiguous);
        let any_not_asked = parts.contains(&WorkerPart::NotAsked);
        let has_dup = (0..w).any(|wi| p.behs[wi].beh == Beh::DuplicateOk && !matches!(parts[wi], WorkerPart::DeadBefore | WorkerPart::NotAsked | WorkerPart::Ambiguous));
        let is_ok = fin.status == ResponseStatus::Ok as i32;
        if is_ok {
            saw_ok_verdict = true;
        } else {
            saw_failure_verdict = true;
        }
        let worst = parts
            .iter()
            .filter_map(|x| if let WorkerPart::Bad(b) = x { Some(*b) } else { None })
            .min_by_key(|b| if *b == Beh::Failure { 0 } else { 1 });

        if class == VerbClass::Status && !case.strict_status {
            // Status reports per worker: an Ok that tells the truth about every worker is a matching verdict
            judged += 1;
            if !is_ok {
                if !any_bad && !any_amb {
                    fail!("C09/false-failure:status", "{}: every live worker answered Ok ({parts_txt}) but the final answer is Failure {:?}", describe(p), fin.message);
                }
                continue;
            }
            let Some(ResponseContent { content_type: Some(ContentType::Workers(infos)) }) = &fin.content else {
                fail!("C09/status-content", "{}: Ok without the list of workers: {:?}", describe(p), fin.content);
            };
            for wi in 0..w {
                let listed: Vec<i32> = infos.vec.iter().filter(|i| i.id == wi as u32).map(|i| i.run_state).collect();
                if listed.len() != 1 {
                    fail!("C09/status-content", "{}: worker {wi} is listed {} times", describe(p), listed.len());
                }
                let got = listed[0];
                let running = RunState::Running as i32;
                let fine = match parts[wi] {
                    WorkerPart::Good => got == running,
                    WorkerPart::Bad(_) | WorkerPart::NotAsked => got != running,
                    WorkerPart::DeadBefore => got == RunState::Stopped as i32,
                    WorkerPart::Ambiguous => got != running,
                    WorkerPart::Slack => true,
                };
                if !fine {
                    let sig = if has_dup { "C09/duplicate-ok-masks-other-worker:status" } else if parts[wi] == WorkerPart::Good { "C09/answers-dropped:status" } else { "C09/status-misreports-silent-worker" };
                    fail!(sig, "{}: Status says worker {wi} is {} but what it did with this request is {:?} (all: {parts_txt})", describe(p), run_state_name(got), parts[wi]);
                }
            }
            continue;
        }

        if any_amb && !any_bad {
            ambiguous_reqs += 1;
            continue;
        }
        judged += 1;
        if any_bad && is_ok {
            let worst = worst.unwrap();
            let what = if has_dup {
                "duplicate-ok-masks-other-worker".to_string()
            } else if worst == Beh::Failure {
                "ok-despite-failure".to_string()
            } else {
                "ok-despite-unanswered".to_string()
            };
            fail!(
                format!("C09/{what}:{}", class.name()),
                "{}: the final answer is Ok {:?} although not every worker alive at dispatch acknowledged the request: {parts_txt}",
                describe(p),
                fin.message
            );
        }
        if !any_bad && !is_ok {
            fail!(
                format!("C09/false-failure:{}", class.name()),
                "{}: every worker alive at dispatch acknowledged the request ({parts_txt}) but the final answer is Failure {:?}",
                describe(p),
                fin.message
            );
        }
        if !any_bad && is_ok && any_not_asked {
            fail!(format!("C09/ok-without-asking-worker:{}", class.name()), "{}: Ok, but a live worker never received the request: {parts_txt}", describe(p));
        }
    }

    // ---- the hub is alive at the end: it answers a Status from a fresh client, truthfully
    if final_status.finals.is_empty() {
        fail!("C09/hub-dead-at-end", "a fresh client's Status after the scenario got no final answer: {}", final_status.broken.clone().unwrap_or_default());
    }
    if final_status.finals.len() > 1 {
        fail!("C09/two-final-answers:status", "the closing Status got {} final answers", final_status.finals.len());
    }
    {
        let (fin, _) = &final_status.finals[0];
        let infos = match (&fin.content, fin.status == ResponseStatus::Ok as i32) {
            (Some(ResponseContent { content_type: Some(ContentType::Workers(infos)) }), true) => infos,
            _ => fail!("C09/final-status-wrong", "the closing Status (every live worker answers Ok at once) came back {} {:?}", status_of(fin), fin.message),
        };
        for wi in 0..w {
            let got: Vec<i32> = infos.vec.iter().filter(|i| i.id == wi as u32).map(|i| i.run_state).collect();
            let want = if closed_before_stop[wi] { RunState::Stopped } else { RunState::Running } as i32;
            let answered_ok = records[wi]
                .closing_status_key
                .as_ref()
                .and_then(|k| records[wi].sent.get(k))
                .map(|v| v.iter().any(|(k, _)| *k == SentKind::Ok))
                .unwrap_or(false);
            if got != vec![want] && !closed_before_stop[wi] && answered_ok && got == vec![RunState::NotAnswering as i32] {
                fail!("C09/answers-dropped:closing-status", "closing Status: worker {wi} answered Ok at once but is reported NotAnswering");
            }
            // a worker whose channel is closed may be reported Stopped (the hub has seen the hang-up) or
            // NotAnswering (the hang-up and the Status arrived in one poll batch and the Status went first):
            // both are truthful, the property prescribes neither; Running would be wrong
            if closed_before_stop[wi] && got == vec![RunState::NotAnswering as i32] {
                rep.class("closed_worker_reported_not_answering");
                continue;
            }
            if got != vec![want] {
                fail!(
                    "C09/final-status-wrong",
                    "closing Status: worker {wi} (channel closed: {}) is reported {:?}, expected {}",
                    closed_before_stop[wi],
                    got.iter().map(|g| run_state_name(*g)).collect::<Vec<_>>(),
                    run_state_name(want)
                );
            }
        }
    }

    // ---- the stop verb: one final answer, the verdict, and run() returns
    let stop_desc = format!(
        "{} [{}]",
        if case.stop.soft { "SoftStop" } else { "HardStop" },
        stop_behs.iter().enumerate().map(|(i, b)| format!("w{i}:{:?}", b.beh)).collect::<Vec<_>>().join(" ")
    );
    rep.excluded_known += stop_excluded;
    let stop_parts: Vec<WorkerPart> = (0..w)
        .map(|wi| {
            let rec = &records[wi];
            if closed_before_stop[wi] {
                return WorkerPart::DeadBefore;
            }
            if rec.received.get("stop").is_none() {
                return WorkerPart::NotAsked;
            }
            if stop_behs[wi].beh.is_good() { WorkerPart::Good } else { WorkerPart::Bad(stop_behs[wi].beh) }
        })
        .collect();
    let stop_bad = stop_parts.iter().any(|x| matches!(x, WorkerPart::Bad(_)));
    if stop_out.finals.is_empty() {
        fail!(format!("C09/no-final-answer:stop{}", if case.strict { ":worker-closes-channel" } else { "" }), "{stop_desc}: {} ({stop_parts:?})", stop_out.broken.clone().unwrap_or_default());
    }
    if stop_out.finals.len() > 1 {
        fail!(
            "C09/two-final-answers:stop",
            "{stop_desc}: {:?}",
            stop_out.finals.iter().map(|(r, _)| format!("{} {:?}", status_of(r), r.message)).collect::<Vec<_>>()
        );
    }
    if hub_stuck || hub_exit.is_none() {
        fail!(
            "C09/hub-does-not-stop",
            "{stop_desc} ({stop_parts:?}): run() had not returned 3 s after the stop verb was answered ({:?} after it was sent); a later HardStop {}",
            stop_sent.elapsed(),
            if hub_exit.is_some() { "ended it" } else { "did not end it either" }
        );
    }
    {
        let (fin, _) = &stop_out.finals[0];
        let is_ok = fin.status == ResponseStatus::Ok as i32;
        let has_dup = (0..w).any(|wi| stop_behs[wi].beh == Beh::DuplicateOk && stop_parts[wi] == WorkerPart::Good);
        if stop_bad && is_ok {
            let worst_failure = stop_parts.iter().any(|x| *x == WorkerPart::Bad(Beh::Failure));
            let what = if has_dup { "duplicate-ok-masks-other-worker" } else if worst_failure { "ok-despite-failure" } else { "ok-despite-unanswered" };
            fail!(format!("C09/{what}:stop"), "{stop_desc}: the final answer is Ok {:?} although {stop_parts:?}", fin.message);
        }
        if !stop_bad && !is_ok {
            fail!("C09/false-failure:stop", "{stop_desc}: every live worker acknowledged ({stop_parts:?}) but the final answer is Failure {:?}", fin.message);
        }
    }

    // ---- measurement
    let total_reqs: usize = case.clients.iter().map(|c| c.len()).sum();
    let mut non_ok = 0;
    for p in &planned {
        for b in &p.behs {
            if b.beh != Beh::Ok {
                non_ok += 1;
                rep.classes.push(format!("beh:{:?}", b.beh));
            }
        }
        rep.classes.push(format!("verb:{}", p.verb.class().name()));
    }
    for b in &stop_behs {
        if b.beh != Beh::Ok {
            non_ok += 1;
            rep.classes.push(format!("stopbeh:{:?}", b.beh));
        }
    }
    rep.class_if(stop_behs.iter().any(|b| b.beh != Beh::Ok), "stopbeh_non_ok");
    rep.classes.sort();
    rep.classes.dedup();
    let concurrent = case.clients.len() >= 2;
    rep.nontrivial = non_ok >= 1 && (concurrent || w >= 2);
    rep.class(format!("workers:{w}"));
    rep.class(format!("clients:{}", case.clients.len()));
    rep.class_if(concurrent, "concurrent_clients");
    rep.class_if(total_reqs >= 3, "requests>=3");
    rep.class_if(saw_failure_verdict, "verdict:failure");
    rep.class_if(saw_ok_verdict, "verdict:ok");
    rep.class_if(ambiguous_reqs > 0, "request_not_judged:worker_closed_around_dispatch");
    rep.class_if(slack_reqs > 0, "request_not_judged:harness_slack");
    rep.class_if(notices_after_final > 0, "notice_after_final");
    rep.class_if(closed_before_stop.iter().any(|c| *c), "a_worker_channel_closed");
    rep.class_if(case.stop.soft, "stop:soft");
    rep.class_if(!case.stop.soft, "stop:hard");
    rep.class_if(case.strict, "strict");
    rep.inner_evaluations = judged;
    Ok(rep)
}

pub fn run(args: &Args) -> i32 {
    let mut ev = Evidence::new(args, "fault_enumeration");
    ev.rule(
        "hub",
        "one scenario per case: a real CommandHub::run() in a thread (worker_timeout 1 s, no automatic restart) on a private unix socket, 1..3 fake workers registered through Server::register_worker (socket pairs, scripted per (worker, request): Ok, Failure, Silent, CloseChannel, DuplicateOk, LateOk at +2.5 s, ProcessingThenOk, ProcessingOnly, UnknownId; in-time answers delayed 0/20/60 ms), 1..3 concurrent clients each sending 1..2 requests in sequence (AddCluster, AddBackend, QueryClusterById, QueryClustersHashes, Status, LoadState of a generated 1..2-request file; pauses 0/20/60 ms), then a Status from a fresh client and a scripted HardStop/SoftStop (judged like a request). Oracle per request: exactly one final Response within 4 s (none after it for 300 ms), mentioning only its own tag; Ok iff every worker that received it sent a terminal Ok in time (workers whose channel closed >= 300 ms before it was sent are not counted; requests racing with a channel close are not judged); Status: Ok with a per-worker run state that tells the truth; closing Status truthful; run() returns within 3 s of the stop answer; hub thread never panics. Non-trivial: >= 1 non-Ok behaviour and (>= 2 clients or >= 2 workers); distinct by case hash.",
    );
    ev.assume("fake workers, not forked ones: upgrade_worker / launch_new_worker / automatic restart are not reached; the accounting, routing and timeout code of the hub is the real one");
    ev.assume("a client sends its next request only after the final answer of the previous one (a Response carries no request id); concurrency is across clients");
    ev.assume("Status and QueryClustersHashes carry no content, so only client 0 sends Status and only client 1 sends QueryClustersHashes: the fake workers attribute them by arrival order");
    ev.assume("Status is judged on its per-worker content (Ok + a truthful run state per worker is accepted), not on Ok/Failure alone, unless the case sets strict_status");
    ev.assume("timing margins: in-time answers leave within 80 ms (+ scheduling; a request whose answer left > 600 ms after it was sent is not judged), late ones at >= 2.5 s, worker timeout 1 s");
    ev.assume("two known findings are excluded by construction (load_state and SoftStop scatter without a timeout): on a LoadState a worker always sends a terminal answer (Silent / LateOk / ProcessingOnly / UnknownId / CloseChannel are played as Failure), a worker does not close its channel on any request while another client sends a LoadState (played as Failure), nor on SoftStop (played as Ok); the replaced behaviours are counted in excluded_known; cases with `strict` (regression files only) play them and fail with C09/no-final-answer:loadstate:worker-never-answers / C09/no-final-answer:stop:worker-closes-channel");
    if args.replay.is_none() {
        ev.floor("hub", "concurrent_clients", 0.4);
        ev.floor("hub", "verdict:failure", 0.15);
        ev.floor("hub", "verdict:ok", 0.3);
        ev.floor("hub", "workers:2", 0.15);
        ev.floor("hub", "workers:3", 0.15);
        ev.floor("hub", "beh:Failure", 0.2);
        ev.floor("hub", "beh:ProcessingThenOk", 0.1);
        ev.floor("hub", "beh:Silent", 0.05);
        ev.floor("hub", "beh:LateOk", 0.05);
        ev.floor("hub", "beh:DuplicateOk", 0.1);
        ev.floor("hub", "beh:CloseChannel", 0.05);
        ev.floor("hub", "beh:ProcessingOnly", 0.05);
        ev.floor("hub", "beh:UnknownId", 0.05);
        ev.floor("hub", "stopbeh_non_ok", 0.3);
        ev.floor("hub", "verb:mutating", 0.3);
        ev.floor("hub", "verb:query", 0.3);
        ev.floor("hub", "verb:loadstate", 0.15);
        ev.floor("hub", "verb:status", 0.1);
    }
    let cases = args.cases(450, 7500);
    // the hub runs in its own thread against real sockets and timers: a failure is reported only when it
    // reproduces on a second or third run of the same history (DESIGN §2.4), like the wire labs do; the
    // committed strict reproducers of known findings are deterministic and go through the same path
    let confirmed = |case: &Case| -> CheckResult {
        let first = check(case);
        let Err(f) = first else { return first };
        for _ in 0..2 {
            if let Err(f2) = check(case) {
                return Err(if f2.signature == f.signature { f2 } else { f });
            }
        }
        engine::note_flaky("C09", &f, &serde_json::to_string(case).unwrap_or_default());
        let mut rep = CaseReport::default();
        rep.class("flaky_unconfirmed");
        Ok(rep)
    };
    engine::run_pbt(&mut ev, args, "hub", cases, strategy, confirmed);
    ev.finish()
}
