//! C20 — a configuration file means exactly what it declares, however large (DESIGN §4 C20).
//!
//! Abstract configuration -> TOML text (own printer) -> Config::load_from_path ->
//! generate_config_messages -> fresh ConfigState; compared with the expected objects computed
//! from the abstract configuration (never from the TOML, never by sozu code).

use std::collections::{BTreeMap, BTreeSet};
use std::io::Write;

use proptest::prelude::*;
use serde::{Deserialize, Serialize};
use sozu_command_lib::{config::Config, proto::command::Request, state::ConfigState};

use crate::{
    engine::{self, Args, CaseReport, CheckResult, Evidence, pick_idx},
    gens::{certs, cmd},
    model::state::{first_diff, projection},
};

const ADDRS: &[&str] = &[
    "127.0.0.1:8080",
    "127.0.0.1:8443",
    "127.0.0.1:9090",
    "[::1]:8080",
    "[::1]:8443",
    "0.0.0.0:5353",
    "10.2.0.1:80",
    "[2001:db8::1]:443",
    "127.0.0.2:7000",
    "127.0.0.2:7001",
];
const HOSTS: &[&str] = &["a.x.com", "b.x.com", "*.x.com", "x.com", "svc.internal", "/[ab]+/.x.com"];
const PATHS: &[&str] = &["", "/", "/api", "/api/v1", "/static"];

#[derive(Clone, Debug, Serialize, Deserialize)]
pub struct Listener {
    /// 0 http, 1 https, 2 tcp, 3 udp
    pub proto: u8,
    pub addr: usize,
    pub expect_proxy: Option<bool>,
    pub front_timeout: Option<u32>,
    pub back_timeout: Option<u32>,
    pub sticky_name: Option<String>,
    /// https only: alpn list
    pub alpn: Option<Vec<String>>,
    /// https only: default certificate (fixture index)
    pub default_cert: Option<usize>,
}

#[derive(Clone, Debug, Serialize, Deserialize)]
pub struct Frontend {
    /// index into the config's listeners, or None for an address without a declared listener
    pub listener: Option<usize>,
    /// used when `listener` is None
    pub free_addr: usize,
    pub host: usize,
    pub path: usize,
    /// None = absent (PREFIX default), 0 PREFIX, 1 REGEX, 2 EQUALS
    pub path_type: Option<u8>,
    pub method: Option<String>,
    /// None absent (TREE default), 0 PRE, 1 POST, 2 TREE
    pub position: Option<u8>,
    pub tags: bool,
    /// fixture certificate (used on https listeners / to make an implicit https listener)
    pub cert: Option<usize>,
    pub redirect: Option<u8>,
}

#[derive(Clone, Debug, Serialize, Deserialize)]
pub struct Backend {
    pub ip_last: u8,
    pub port: u16,
    pub id: Option<String>,
    pub weight: Option<u8>,
    pub sticky: Option<String>,
    pub backup: Option<bool>,
}

#[derive(Clone, Debug, Serialize, Deserialize)]
pub struct Cluster {
    pub tcp: bool,
    pub lb: u8,
    pub sticky_session: Option<bool>,
    pub https_redirect: Option<bool>,
    pub http2: Option<bool>,
    pub send_proxy: Option<bool>,
    pub frontends: Vec<Frontend>,
    pub backends: Vec<Backend>,
}

#[derive(Clone, Debug, Serialize, Deserialize)]
pub struct Case {
    pub buffer_size: Option<u64>,
    pub activate: Option<bool>,
    pub listeners: Vec<Listener>,
    pub clusters: Vec<Cluster>,
    /// 0 = valid file; otherwise the constraint-violating neighbour to apply
    pub break_with: u8,
}

fn listener_strategy() -> impl Strategy<Value = Listener> {
    (
        0u8..4,
        any::<u32>(),
        proptest::option::of(any::<bool>()),
        proptest::option::of(1u32..200),
        proptest::option::of(1u32..200),
        proptest::option::of(Just("MYSTICKY".to_string())),
        proptest::option::of(prop_oneof![
            Just(vec!["h2".to_string(), "http/1.1".to_string()]),
            Just(vec!["http/1.1".to_string()])
        ]),
        proptest::option::of(0usize..certs::BANK.len()),
    )
        .prop_map(|(proto, a, ep, ft, bt, sn, alpn, dc)| Listener {
            proto,
            addr: pick_idx(a, ADDRS.len()),
            expect_proxy: ep,
            front_timeout: ft,
            back_timeout: bt,
            sticky_name: sn,
            alpn,
            default_cert: dc,
        })
}

fn frontend_strategy() -> impl Strategy<Value = Frontend> {
    (
        prop_oneof![6 => any::<u32>().prop_map(Some), 1 => Just(None)],
        any::<u32>(),
        any::<u32>(),
        any::<u32>(),
        proptest::option::of(0u8..3),
        proptest::option::of(prop_oneof![Just("GET".to_string()), Just("POST".to_string())]),
        proptest::option::of(0u8..3),
        any::<bool>(),
        proptest::option::weighted(0.6, 0usize..certs::BANK.len()),
        proptest::option::weighted(0.2, 0u8..3),
    )
        .prop_map(|(l, fa, h, p, pt, m, pos, tags, cert, redirect)| Frontend {
            listener: l.map(|x| x as usize),
            free_addr: pick_idx(fa, ADDRS.len()),
            host: pick_idx(h, HOSTS.len()),
            path: pick_idx(p, PATHS.len()),
            path_type: pt,
            method: m,
            position: pos,
            tags,
            cert,
            redirect,
        })
}

fn backend_strategy() -> impl Strategy<Value = Backend> {
    (
        1u8..20,
        prop_oneof![Just(8080u16), Just(9000u16), 1024u16..1100],
        proptest::option::weighted(0.4, "[a-z]{1,4}"),
        proptest::option::of(1u8..=255),
        proptest::option::weighted(0.2, Just("st".to_string())),
        proptest::option::weighted(0.3, any::<bool>()),
    )
        .prop_map(|(ip_last, port, id, weight, sticky, backup)| Backend { ip_last, port, id, weight, sticky, backup })
}

fn cluster_strategy(max_fronts: usize, max_backends: usize) -> impl Strategy<Value = Cluster> {
    (
        prop::bool::weighted(0.25),
        0u8..6,
        proptest::option::of(any::<bool>()),
        proptest::option::of(any::<bool>()),
        proptest::option::of(any::<bool>()),
        proptest::option::of(any::<bool>()),
        prop::collection::vec(frontend_strategy(), 0..max_fronts),
        prop::collection::vec(backend_strategy(), 0..max_backends),
    )
        .prop_map(|(tcp, lb, ss, hr, h2, sp, frontends, backends)| Cluster {
            tcp,
            lb,
            sticky_session: ss,
            https_redirect: hr,
            http2: h2,
            send_proxy: sp,
            frontends,
            backends,
        })
}

pub fn strategy() -> impl Strategy<Value = Case> {
    // size classes: small, medium, and large (crossing 255 / 256 / 512 generated messages)
    let sized = prop_oneof![
        6 => (0usize..5, 2usize..6, 2usize..5),
        3 => (2usize..12, 3usize..10, 3usize..8),
        1 => (20usize..60, 4usize..12, 3usize..10),
    ];
    sized.prop_flat_map(|(nclusters, max_f, max_b)| {
        (
            proptest::option::weighted(0.3, prop_oneof![Just(16393u64), Just(32768u64), Just(20000u64)]),
            proptest::option::of(any::<bool>()),
            prop::collection::vec(listener_strategy(), 0..6),
            prop::collection::vec(cluster_strategy(max_f, max_b), nclusters..=nclusters),
            prop_oneof![7 => Just(0u8), 3 => 1u8..8],
        )
            .prop_map(|(buffer_size, activate, listeners, clusters, break_with)| Case {
                buffer_size,
                activate,
                listeners,
                clusters,
                break_with,
            })
    })
}

// ------------------------------------------------------------------ normalisation to a *valid* abstract config

/// Resolved frontend: what the file declares, after the generator's raw choices were made sound.
#[derive(Clone, Debug)]
struct RFront {
    addr: String,
    /// 0 http, 1 https, 2 tcp, 3 udp
    kind: u8,
    host: String,
    path: String,
    path_type: Option<u8>,
    method: Option<String>,
    position: Option<u8>,
    tags: bool,
    cert: Option<usize>,
    redirect: Option<u8>,
}

#[derive(Clone, Debug)]
struct Resolved {
    listeners: Vec<Listener>,
    /// per cluster: (tcp?, frontends, backends)
    clusters: Vec<(Cluster, Vec<RFront>, Vec<Backend>)>,
    /// addresses used by frontends without a declared listener -> kind
    implicit: BTreeMap<String, u8>,
}

/// Make the raw case a valid configuration by construction (drop what would be invalid), so that
/// `break_with == 0` cases are files the loader must accept.
fn resolve(case: &Case) -> Resolved {
    // unique listener addresses
    let mut seen = BTreeSet::new();
    let mut listeners = vec![];
    for l in &case.listeners {
        if seen.insert(l.addr) {
            let mut l = l.clone();
            // public_address is not generated, so expect_proxy is always compatible
            if l.proto != 1 {
                l.alpn = None;
                l.default_cert = None;
            }
            if l.proto >= 2 {
                l.sticky_name = None;
            }
            if l.proto == 3 {
                l.expect_proxy = None;
            }
            listeners.push(l);
        }
    }
    let kind_of = |addr: usize, listeners: &[Listener]| listeners.iter().find(|l| l.addr == addr).map(|l| l.proto);
    let mut implicit: BTreeMap<String, u8> = BTreeMap::new();
    let mut used_keys: BTreeSet<String> = BTreeSet::new();
    let mut tcp_addr_owner: BTreeSet<String> = BTreeSet::new();
    let mut clusters = vec![];
    for c in &case.clusters {
        let mut fronts = vec![];
        // a TCP cluster must not mix expect_proxy and non-expect_proxy listeners
        let mut tcp_expect: Option<bool> = None;
        for f in &c.frontends {
            let addr_idx = match f.listener {
                Some(i) if !listeners.is_empty() => listeners[i % listeners.len()].addr,
                _ => f.free_addr,
            };
            let addr = ADDRS[addr_idx].to_string();
            let declared = kind_of(addr_idx, &listeners);
            let kind = declared.or_else(|| implicit.get(&addr).copied());
            if c.tcp {
                let k = match kind {
                    Some(2) | Some(3) => kind.unwrap(),
                    Some(_) => continue, // http(s) address: invalid for a tcp cluster
                    None => 2,
                };
                // one tcp/udp frontend per address overall (an address serves one cluster)
                if !tcp_addr_owner.insert(addr.clone()) {
                    continue;
                }
                let ep = listeners.iter().find(|l| l.addr == addr_idx).and_then(|l| l.expect_proxy).unwrap_or(false);
                match tcp_expect {
                    None => tcp_expect = Some(ep),
                    Some(x) if x != ep => {
                        tcp_addr_owner.remove(&addr);
                        continue;
                    }
                    _ => {}
                }
                if declared.is_none() {
                    implicit.insert(addr.clone(), 2);
                }
                fronts.push(RFront { addr, kind: k, host: String::new(), path: String::new(), path_type: None, method: None, position: None, tags: f.tags, cert: None, redirect: None });
            } else {
                let (k, cert) = match kind {
                    Some(0) => (0u8, None),
                    Some(1) => {
                        // needs a certificate: its own or the listener's default
                        let listener_default = listeners.iter().find(|l| l.addr == addr_idx).and_then(|l| l.default_cert);
                        match (f.cert, listener_default) {
                            (Some(c), _) => (1, Some(c)),
                            (None, Some(_)) => (1, None),
                            (None, None) => continue,
                        }
                    }
                    Some(_) => continue, // tcp/udp address: invalid for an http cluster
                    None => match f.cert {
                        Some(c) => (1, Some(c)),
                        None => (0, None),
                    },
                };
                let host = HOSTS[f.host].to_string();
                let path = PATHS[f.path].to_string();
                let pt = f.path_type.unwrap_or(0);
                let key = format!("{k};{addr};{host};{pt}{path};{:?}", f.method);
                if !used_keys.insert(key) {
                    continue; // duplicate route key: an operator error, not generated in valid files
                }
                if declared.is_none() {
                    implicit.insert(addr.clone(), k);
                }
                fronts.push(RFront {
                    addr,
                    kind: k,
                    host,
                    path,
                    path_type: f.path_type,
                    method: f.method.clone(),
                    position: f.position,
                    tags: f.tags,
                    cert,
                    redirect: f.redirect,
                });
            }
        }
        // backends unique on (id, address) within the cluster; explicit ids unique
        let mut bseen = BTreeSet::new();
        let mut backends = vec![];
        for b in &c.backends {
            let a = format!("10.9.0.{}:{}", b.ip_last, b.port);
            if bseen.insert((b.id.clone(), a)) {
                backends.push(b.clone());
            }
        }
        clusters.push((c.clone(), fronts, backends));
    }
    Resolved { listeners, clusters, implicit }
}

// ------------------------------------------------------------------ TOML printer

fn q(s: &str) -> String {
    format!("\"{}\"", s.replace('\\', "\\\\").replace('"', "\\\""))
}

fn cert_path(i: usize, ext: &str) -> String {
    format!("/verif/fixtures/certs/{}.{}", certs::BANK[i].id, ext)
}

fn render(case: &Case, r: &Resolved, scratch: &str) -> String {
    let mut t = String::new();
    t.push_str(&format!("command_socket = \"{scratch}/sozu.sock\"\n"));
    t.push_str("log_level = \"error\"\nlog_target = \"stdout\"\nworker_count = 1\n");
    let mut buffer_size = case.buffer_size;
    if case.break_with == 2 {
        buffer_size = Some(16000);
    }
    if let Some(b) = buffer_size {
        t.push_str(&format!("buffer_size = {b}\n"));
    }
    if let Some(a) = case.activate {
        t.push_str(&format!("activate_listeners = {a}\n"));
    }
    let protos = ["http", "https", "tcp", "udp"];
    for (i, l) in r.listeners.iter().enumerate() {
        t.push_str("\n[[listeners]]\n");
        let proto = if case.break_with == 1 && i == 0 { "quic" } else { protos[l.proto as usize] };
        t.push_str(&format!("protocol = {}\naddress = {}\n", q(proto), q(ADDRS[l.addr])));
        if let Some(v) = l.expect_proxy {
            t.push_str(&format!("expect_proxy = {v}\n"));
        }
        if let Some(v) = l.front_timeout {
            t.push_str(&format!("front_timeout = {v}\n"));
        }
        if let Some(v) = l.back_timeout {
            t.push_str(&format!("back_timeout = {v}\n"));
        }
        if let Some(v) = &l.sticky_name {
            t.push_str(&format!("sticky_name = {}\n", q(v)));
        }
        if let Some(v) = &l.alpn {
            t.push_str(&format!("alpn_protocols = [{}]\n", v.iter().map(|s| q(s)).collect::<Vec<_>>().join(", ")));
        }
        if let Some(c) = l.default_cert {
            t.push_str(&format!("certificate = {}\nkey = {}\n", q(&cert_path(c, "pem")), q(&cert_path(c, "key"))));
        }
        if case.break_with == 5 && i == 0 && l.proto == 0 {
            t.push_str("[listeners.hsts]\nenabled = true\nmax_age = 1000\n");
        }
    }
    if case.break_with == 3 {
        // duplicate listener address
        if let Some(l) = r.listeners.first() {
            t.push_str(&format!("\n[[listeners]]\nprotocol = \"tcp\"\naddress = {}\n", q(ADDRS[l.addr])));
        }
    }
    let lbs = ["ROUND_ROBIN", "RANDOM", "LEAST_LOADED", "POWER_OF_TWO", "HRW", "MAGLEV"];
    let pts = ["PREFIX", "REGEX", "EQUALS"];
    let poss = ["PRE", "POST", "TREE"];
    let reds = ["forward", "permanent", "unauthorized"];
    t.push_str("\n[clusters]\n");
    for (ci, (c, fronts, backends)) in r.clusters.iter().enumerate() {
        t.push_str(&format!("\n[clusters.cl{ci}]\n"));
        t.push_str(&format!("protocol = {}\nload_balancing = {}\n", q(if c.tcp { "tcp" } else { "http" }), q(lbs[c.lb as usize])));
        if !c.tcp {
            if let Some(v) = c.sticky_session {
                t.push_str(&format!("sticky_session = {v}\n"));
            }
            if let Some(v) = c.https_redirect {
                t.push_str(&format!("https_redirect = {v}\n"));
            }
            if let Some(v) = c.http2 {
                t.push_str(&format!("http2 = {v}\n"));
            }
        } else if let Some(v) = c.send_proxy {
            t.push_str(&format!("send_proxy = {v}\n"));
        }
        let mut fs = vec![];
        for f in fronts {
            let mut s = format!("address = {}", q(&f.addr));
            if !c.tcp {
                s.push_str(&format!(", hostname = {}", q(&f.host)));
                if !f.path.is_empty() || f.path_type.is_some() {
                    s.push_str(&format!(", path = {}", q(&f.path)));
                }
                if let Some(pt) = f.path_type {
                    s.push_str(&format!(", path_type = {}", q(pts[pt as usize])));
                }
                if let Some(m) = &f.method {
                    s.push_str(&format!(", method = {}", q(m)));
                }
                if let Some(p) = f.position {
                    s.push_str(&format!(", position = {}", q(poss[p as usize])));
                }
                if let Some(c) = f.cert {
                    s.push_str(&format!(", certificate = {}, key = {}", q(&cert_path(c, "pem")), q(&cert_path(c, "key"))));
                }
                if let Some(rd) = f.redirect {
                    s.push_str(&format!(", redirect = {}", q(reds[rd as usize])));
                }
            }
            if f.tags {
                s.push_str(", tags = { owner = \"me\", tier = \"x\" }");
            }
            fs.push(format!("  {{ {s} }}"));
        }
        if case.break_with == 4 && ci == 0 {
            // an http cluster frontend on a tcp listener address / a tcp cluster frontend on an http address
            if let Some(l) = r.listeners.iter().find(|l| if c.tcp { l.proto <= 1 } else { l.proto >= 2 }) {
                if c.tcp {
                    fs.push(format!("  {{ address = {} }}", q(ADDRS[l.addr])));
                } else {
                    fs.push(format!("  {{ address = {}, hostname = \"bad.x.com\" }}", q(ADDRS[l.addr])));
                }
            }
        }
        if case.break_with == 6 && ci == 0 && !c.tcp {
            // certificate on a plain-http listener's frontend
            if let Some(l) = r.listeners.iter().find(|l| l.proto == 0) {
                fs.push(format!(
                    "  {{ address = {}, hostname = \"bad.x.com\", certificate = {}, key = {} }}",
                    q(ADDRS[l.addr]),
                    q(&cert_path(0, "pem")),
                    q(&cert_path(0, "key"))
                ));
            }
        }
        if case.break_with == 7 && ci == 0 && !c.tcp {
            // frontend on an https listener without any certificate
            if let Some(l) = r.listeners.iter().find(|l| l.proto == 1 && l.default_cert.is_none()) {
                fs.push(format!("  {{ address = {}, hostname = \"bad.x.com\" }}", q(ADDRS[l.addr])));
            }
        }
        t.push_str(&format!("frontends = [\n{}\n]\n", fs.join(",\n")));
        let mut bs = vec![];
        for b in backends {
            let mut s = format!("address = \"10.9.0.{}:{}\"", b.ip_last, b.port);
            if let Some(id) = &b.id {
                s.push_str(&format!(", backend_id = {}", q(id)));
            }
            if let Some(w) = b.weight {
                s.push_str(&format!(", weight = {w}"));
            }
            if let Some(st) = &b.sticky {
                s.push_str(&format!(", sticky_id = {}", q(st)));
            }
            if let Some(bk) = b.backup {
                s.push_str(&format!(", backup = {bk}"));
            }
            bs.push(format!("  {{ {s} }}"));
        }
        t.push_str(&format!("backends = [\n{}\n]\n", bs.join(",\n")));
    }
    t
}

/// Did the requested neighbour actually get rendered into the file (it needs a suitable object)?
fn neighbour_applies(case: &Case, r: &Resolved) -> bool {
    match case.break_with {
        0 => false,
        1 => !r.listeners.is_empty(),
        2 => {
            r.listeners.iter().any(|l| l.proto == 1 && l.alpn.as_ref().map(|a| a.iter().any(|p| p == "h2")).unwrap_or(true))
                || r.implicit.values().any(|k| *k == 1) // an implied https listener advertises the default ALPN (h2)
        }
        3 => !r.listeners.is_empty(),
        4 => r.clusters.first().map(|(c, _, _)| r.listeners.iter().any(|l| if c.tcp { l.proto <= 1 } else { l.proto >= 2 })).unwrap_or(false),
        5 => r.listeners.first().map(|l| l.proto == 0).unwrap_or(false),
        6 => r.clusters.first().map(|(c, _, _)| !c.tcp).unwrap_or(false) && r.listeners.iter().any(|l| l.proto == 0),
        7 => r.clusters.first().map(|(c, _, _)| !c.tcp).unwrap_or(false) && r.listeners.iter().any(|l| l.proto == 1 && l.default_cert.is_none()),
        _ => false,
    }
}

fn neighbour_name(b: u8) -> &'static str {
    match b {
        1 => "unknown-listener-protocol",
        2 => "h2-with-small-buffer",
        3 => "duplicate-listener-address",
        4 => "frontend-on-listener-of-other-protocol",
        5 => "hsts-on-plain-http-listener",
        6 => "certificate-on-plain-http-frontend",
        7 => "https-frontend-without-certificate",
        _ => "valid",
    }
}

// ------------------------------------------------------------------ the check

pub fn check(case: &Case) -> CheckResult {
    let mut rep = CaseReport::default();
    let r = resolve(case);
    let scratch = engine::shard::scratch_dir();
    let mut file = tempfile::Builder::new().prefix("c20-").suffix(".toml").tempfile_in(&scratch).expect("tempfile");
    let toml = render(case, &r, scratch.to_str().unwrap());
    file.write_all(toml.as_bytes()).expect("write toml");
    file.flush().expect("flush");
    let path = file.path().to_str().unwrap().to_string();

    let loaded = Config::load_from_path(&path);

    if case.break_with != 0 && neighbour_applies(case, &r) {
        rep.class(format!("invalid:{}", neighbour_name(case.break_with)));
        rep.nontrivial = true;
        return match loaded {
            Err(_) => Ok(rep),
            Ok(_) => Err(engine::Failure::new(
                format!("C20/invalid-file-accepted:{}", neighbour_name(case.break_with)),
                format!("a file violating '{}' was accepted at load time:\n{}", neighbour_name(case.break_with), engine::truncate(&toml, 1500)),
            )),
        };
    }

    let config = match loaded {
        Ok(c) => c,
        Err(e) => fail!("C20/valid-file-rejected", "a well-formed file was rejected: {e}\n{}", engine::truncate(&toml, 2000)),
    };
    let messages = match config.generate_config_messages() {
        Ok(m) => m,
        Err(e) => fail!("C20/message-generation-failed", "generate_config_messages failed: {e}"),
    };
    // request ids are unique
    let mut ids = BTreeSet::new();
    for m in &messages {
        if !ids.insert(m.id.clone()) {
            fail!("C20/duplicate-request-id", "request id {} is used twice among {} messages", m.id, messages.len());
        }
    }
    let mut state = ConfigState::new();
    for (i, m) in messages.iter().enumerate() {
        if let Err(e) = state.dispatch(&m.content) {
            fail!(
                format!("C20/generated-message-rejected:{}", cmd::verb(&m.content)),
                "message #{i}/{} ({}) generated from an accepted file is rejected by a fresh instance: {e}: {}",
                messages.len(),
                cmd::verb(&m.content),
                engine::truncate(&format!("{:?}", m.content), 500)
            );
        }
    }

    // ---- expected objects, computed from the abstract configuration
    let activate = case.activate.unwrap_or(true);
    let sa = |s: &str| s.parse::<std::net::SocketAddr>().unwrap();
    let mut exp_listeners: BTreeMap<(u8, String), Option<&Listener>> = BTreeMap::new();
    for l in &r.listeners {
        exp_listeners.insert((l.proto, ADDRS[l.addr].to_string()), Some(l));
    }
    for (a, k) in &r.implicit {
        exp_listeners.insert((*k, a.clone()), None);
    }
    let got_listeners: BTreeSet<(u8, String)> = state
        .http_listeners
        .keys()
        .map(|a| (0u8, a.to_string()))
        .chain(state.https_listeners.keys().map(|a| (1u8, a.to_string())))
        .chain(state.tcp_listeners.keys().map(|a| (2u8, a.to_string())))
        .chain(state.udp_listeners.keys().map(|a| (3u8, a.to_string())))
        .collect();
    let want_listeners: BTreeSet<(u8, String)> = exp_listeners.keys().map(|(k, a)| (*k, sa(a).to_string())).collect();
    if got_listeners != want_listeners {
        fail!(
            "C20/listeners-differ",
            "listeners in the resulting configuration {:?} differ from the declared (+ implied by frontends) {:?}",
            got_listeners,
            want_listeners
        );
    }
    for ((k, a), l) in &exp_listeners {
        let addr = sa(a);
        let (active, ft, bt, ep, sticky) = match k {
            0 => {
                let x = &state.http_listeners[&addr];
                (x.active, x.front_timeout, x.back_timeout, Some(x.expect_proxy), Some(x.sticky_name.clone()))
            }
            1 => {
                let x = &state.https_listeners[&addr];
                (x.active, x.front_timeout, x.back_timeout, Some(x.expect_proxy), Some(x.sticky_name.clone()))
            }
            2 => {
                let x = &state.tcp_listeners[&addr];
                (x.active, x.front_timeout, x.back_timeout, Some(x.expect_proxy), None)
            }
            _ => {
                let x = &state.udp_listeners[&addr];
                (x.active, x.front_timeout, x.back_timeout, None, None)
            }
        };
        if active != activate {
            fail!("C20/listener-activation", "listener {a} active={active}, file says activate_listeners={activate} (absent = true)");
        }
        if let Some(l) = l {
            let dft = if *k == 3 { 30 } else { 60 };
            let want_ft = l.front_timeout.unwrap_or(dft);
            let want_bt = l.back_timeout.unwrap_or(30);
            if ft != want_ft || bt != want_bt {
                fail!("C20/listener-timeouts", "listener {a}: front/back timeout {ft}/{bt}, declared (or documented default) {want_ft}/{want_bt}");
            }
            if let Some(ep) = ep {
                if ep != l.expect_proxy.unwrap_or(false) {
                    fail!("C20/listener-expect-proxy", "listener {a}: expect_proxy {ep}, declared {:?}", l.expect_proxy);
                }
            }
            if let Some(s) = sticky {
                let want = l.sticky_name.clone().unwrap_or_else(|| "SOZUBALANCEID".to_string());
                if s != want {
                    fail!("C20/listener-sticky-name", "listener {a}: sticky_name {s}, declared/default {want}");
                }
            }
            if *k == 1 {
                let x = &state.https_listeners[&addr];
                let want: Vec<String> = l.alpn.clone().unwrap_or_else(|| vec!["h2".into(), "http/1.1".into()]);
                if x.alpn_protocols != want {
                    fail!("C20/listener-alpn", "listener {a}: alpn {:?}, declared/default {:?}", x.alpn_protocols, want);
                }
            }
        }
    }

    // clusters
    if state.clusters.len() != r.clusters.len() {
        fail!("C20/cluster-count", "{} clusters in the result, {} declared", state.clusters.len(), r.clusters.len());
    }
    let mut want_http: BTreeSet<String> = BTreeSet::new();
    let mut want_https: BTreeSet<String> = BTreeSet::new();
    let mut want_certs: BTreeSet<(String, String)> = BTreeSet::new();
    for (ci, (c, fronts, backends)) in r.clusters.iter().enumerate() {
        let id = format!("cl{ci}");
        let Some(got) = state.clusters.get(&id) else {
            fail!("C20/cluster-missing", "declared cluster {id} is not in the resulting configuration");
        };
        if got.load_balancing != c.lb as i32 {
            fail!("C20/cluster-field", "cluster {id}: load_balancing {} declared {}", got.load_balancing, c.lb);
        }
        if !c.tcp {
            if got.sticky_session != c.sticky_session.unwrap_or(false) || got.https_redirect != c.https_redirect.unwrap_or(false) || got.http2 != c.http2 {
                fail!("C20/cluster-field", "cluster {id}: sticky/https_redirect/http2 = {}/{}/{:?}, declared {:?}/{:?}/{:?}", got.sticky_session, got.https_redirect, got.http2, c.sticky_session, c.https_redirect, c.http2);
            }
        }
        // backends
        let got_b = state.backends.get(&id).cloned().unwrap_or_default();
        if got_b.len() != backends.len() {
            fail!("C20/backend-count", "cluster {id}: {} backends in the result, {} declared", got_b.len(), backends.len());
        }
        for (bi, b) in backends.iter().enumerate() {
            let addr = sa(&format!("10.9.0.{}:{}", b.ip_last, b.port));
            let want_id = b.id.clone().unwrap_or_else(|| format!("{id}-{bi}-{addr}"));
            let Some(g) = got_b.iter().find(|g| g.backend_id == want_id && g.address == addr) else {
                fail!("C20/backend-missing", "cluster {id}: declared backend {want_id}@{addr} is not in the result: {:?}", got_b);
            };
            let w = g.load_balancing_parameters.map(|p| p.weight);
            if w != Some(b.weight.unwrap_or(100) as i32) || g.sticky_id != b.sticky || g.backup != b.backup {
                fail!("C20/backend-field", "backend {want_id}@{addr}: weight/sticky/backup {:?}/{:?}/{:?}, declared {:?}/{:?}/{:?} (weight default 100)", w, g.sticky_id, g.backup, b.weight, b.sticky, b.backup);
            }
        }
        // frontends
        let mut want_tcp = 0usize;
        let mut want_udp = 0usize;
        for f in fronts {
            match f.kind {
                2 => want_tcp += 1,
                3 => want_udp += 1,
                _ => {
                    let addr = sa(&f.addr);
                    let pt = f.path_type.unwrap_or(0);
                    let key = format!("{};{};{}{}{}", addr, f.host, ["P", "R", "="][pt as usize], f.path, f.method.as_ref().map(|m| format!(";{m}")).unwrap_or_default());
                    let map = if f.kind == 0 { &state.http_fronts } else { &state.https_fronts };
                    let Some(g) = map.get(&key) else {
                        fail!(
                            "C20/frontend-missing",
                            "declared {} frontend {key} of cluster {id} is not in the result (keys: {:?})",
                            if f.kind == 0 { "http" } else { "https" },
                            map.keys().take(12).collect::<Vec<_>>()
                        );
                    };
                    // `position` absent: doc/configure.md is silent, the proto annotation says TREE,
                    // the file loader applies PRE. Per DESIGN §4 C20 a doc/annotation disagreement is
                    // logged (class below), not failed: both are admitted when the field is absent.
                    let got_pos = format!("{:?}", g.position);
                    let want_pos = match f.position {
                        Some(0) => "Pre",
                        Some(1) => "Post",
                        Some(_) => "Tree",
                        None => {
                            if got_pos == "Pre" {
                                rep.class("absent_position_loaded_as_PRE");
                                "Pre"
                            } else {
                                "Tree"
                            }
                        }
                    };
                    if g.cluster_id.as_deref() != Some(id.as_str()) || got_pos != want_pos || g.tags.clone().unwrap_or_default().len() != if f.tags { 2 } else { 0 } {
                        fail!("C20/frontend-field", "frontend {key}: cluster/position/tags = {:?}/{:?}/{:?}, declared {id}/{want_pos}/{}", g.cluster_id, g.position, g.tags, f.tags);
                    }
                    let want_red = f.redirect.filter(|_| true).map(|x| x as i32);
                    if g.redirect.unwrap_or(0) != want_red.unwrap_or(0) {
                        fail!("C20/frontend-field", "frontend {key}: redirect {:?}, declared {:?}", g.redirect, f.redirect);
                    }
                    if f.kind == 0 {
                        want_http.insert(key);
                    } else {
                        want_https.insert(key);
                        let fp = match f.cert {
                            Some(c) => certs::BANK[c].fingerprint.to_string(),
                            None => {
                                let l = r.listeners.iter().find(|l| ADDRS[l.addr] == f.addr).and_then(|l| l.default_cert);
                                certs::BANK[l.expect("https frontend without certificate was kept")].fingerprint.to_string()
                            }
                        };
                        want_certs.insert((addr.to_string(), fp));
                    }
                }
            }
        }
        let got_tcp = state.tcp_fronts.get(&id).map(|v| v.len()).unwrap_or(0);
        let got_udp = state.udp_fronts.get(&id).map(|v| v.len()).unwrap_or(0);
        if got_tcp != want_tcp || got_udp != want_udp {
            fail!("C20/tcp-udp-frontend-count", "cluster {id}: {got_tcp} tcp / {got_udp} udp frontends in the result, {want_tcp} / {want_udp} declared");
        }
    }
    let got_http: BTreeSet<String> = state.http_fronts.keys().cloned().collect();
    let got_https: BTreeSet<String> = state.https_fronts.keys().cloned().collect();
    if got_http != want_http || got_https != want_https {
        fail!(
            "C20/frontend-set",
            "frontends in the result differ from the declared ones: extra http {:?}, extra https {:?}",
            got_http.difference(&want_http).collect::<Vec<_>>(),
            got_https.difference(&want_https).collect::<Vec<_>>()
        );
    }
    let got_certs: BTreeSet<(String, String)> = state
        .certificates
        .iter()
        .flat_map(|(a, m)| m.keys().map(move |fp| (a.to_string(), fp.to_string())))
        .collect();
    if got_certs != want_certs {
        fail!(
            "C20/certificate-set",
            "certificates in the result {:?} differ from the declared ones {:?}",
            got_certs,
            want_certs
        );
    }

    // ---- reload idempotence: the same messages applied again (errors skipped, as load_static_config does)
    let before = projection(&state, true);
    let mut reloaded = state.clone();
    for m in &messages {
        let _ = reloaded.dispatch(&m.content);
    }
    if let Some(d) = first_diff(&before, &projection(&reloaded, true)) {
        fail!("C20/reload-not-idempotent", "loading the same file over the state it produced changed the configuration (left = before): {d}");
    }
    let delta: Vec<Request> = state.diff(&reloaded);
    if !delta.is_empty() {
        fail!("C20/reload-diff-not-empty", "diff between the state and its reload has {} requests, first {:?}", delta.len(), cmd::verb(&delta[0]));
    }

    let kinds: BTreeSet<u8> = exp_listeners.keys().map(|(k, _)| *k).collect();
    let ipv6 = exp_listeners.keys().any(|(_, a)| a.starts_with('['));
    rep.nontrivial = kinds.len() >= 3 || messages.len() >= 200 || ipv6;
    rep.class("valid");
    rep.class_if(kinds.len() >= 3, "3+_listener_kinds");
    rep.class_if(messages.len() > 255, "256+_messages");
    rep.class_if(messages.len() > 511, "512+_messages");
    rep.class_if(ipv6, "ipv6_listener");
    rep.class_if(!r.implicit.is_empty(), "implicit_listener");
    rep.class_if(!want_certs.is_empty(), "has_certificates");
    rep.class_if(r.clusters.iter().any(|(c, f, _)| c.tcp && !f.is_empty()), "tcp_cluster_with_frontend");
    rep.inner_evaluations = messages.len() as u64;
    Ok(rep)
}

pub fn run(args: &Args) -> i32 {
    let mut ev = Evidence::new(args, "exploration");
    ev.rule(
        "loader",
        "abstract configuration (0..5 listeners of the four protocols over IPv4/IPv6 addresses, 0..60 clusters http/tcp, 0..12 frontends and 0..10 backends each, optional fields present or absent, path kinds, positions, methods, tags, certificates from the fixture bank, sizes crossing 255/256/512 generated messages), made valid by construction, printed to TOML by the harness's own printer; 30% of the cases carry one constraint-violating neighbour. Valid file: load_from_path Ok, generate_config_messages Ok with unique ids, every message accepted by a fresh ConfigState, and listeners/clusters/frontends/backends/certificates equal the declared ones with the documented defaults; reload is idempotent and diff(state, reload) is empty. Invalid neighbour: load_from_path is Err. Non-trivial: >= 3 listener kinds or >= 200 messages or an IPv6 listener, or an invalid neighbour that applies; distinct by case hash.",
    );
    ev.assume("a frontend whose address has no declared listener implies a listener of the matching protocol (the loader's documented legacy behaviour), so that shape is a valid file, not a rejected one");
    ev.assume("duplicate route keys / duplicate backends inside one file are operator errors and are not generated in valid files");
    ev.floor("loader", "valid", 0.4);
    ev.floor("loader", "256+_messages", 0.01);
    let cases = args.cases(30_000, 600_000);
    engine::with_quiet_stdout(|| engine::run_pbt(&mut ev, args, "loader", cases, strategy, check));
    ev.finish()
}
