//! C16 (b) — wire lab: storms of client interactions, each ending in its own way, against a live
//! worker (HTTP, HTTPS and two TCP listeners); afterwards every resource gauge the worker exposes
//! through `QueryMetrics` must be back at the value recorded right after set-up (DESIGN §4 C16 b).

use std::{
    cell::RefCell,
    collections::{BTreeMap, BTreeSet},
    io::{Read, Write},
    net::{SocketAddr, TcpStream},
    os::fd::{AsRawFd, OwnedFd},
    sync::{
        Arc, Mutex,
        atomic::{AtomicUsize, Ordering},
    },
    time::{Duration, Instant},
};

use proptest::prelude::*;
use serde::{Deserialize, Serialize};
use sozu_command_lib::proto::command::{
    PathRule, QueryMetricsOptions, RequestHttpFrontend, ResponseStatus, RulePosition, filtered_metrics::Inner, request::RequestType,
    response_content::ContentType,
};

use crate::{
    engine::{self, Args, CaseReport, CheckResult, Failure, Stats},
    lab::{
        self, LabConfig,
        h1::{self, Acceptor, BodyFraming, H1Conn, Kind, ReadOutcome, content},
        h2::{self, Frame, H2Conn, H2Event, Settings},
        h2lab::{H2Action, H2Lab, H2Shared},
        httplab::BackendAction,
        script::{ReadScript, WStep, WriteScript},
    },
};

pub const SUB: &str = "baseline";

// timeouts of the lab worker (seconds)
const FRONT_S: u32 = 2;
const BACK_S: u32 = 1;
const CONNECT_S: u32 = 1;
const REQUEST_S: u32 = 1;
/// how long a client that waits for the proxy's timeout to close its connection waits at most
const PROXY_CLOSE_WAIT: Duration = Duration::from_millis(FRONT_S as u64 * 1000 + 1500);
/// quiescence deadline after the storm: largest timeout in force + 4 s
const QUIESCE: Duration = Duration::from_secs(FRONT_S as u64 + 4);
/// how long the clients that went idle keep their sockets open and silent, at most, while the worker has
/// to get back to its baseline by its own timeouts. Observed on the unchanged tree: an idle HTTP/2 (TLS)
/// connection is shut down in stages, one front timeout apart (flush, close_notify, teardown); the sockets
/// are handed over one front timeout (+ 0.6 s) after they went idle.
const HELD_WAIT: Duration = Duration::from_secs(2 * FRONT_S as u64 + 3);
const POLL: Duration = Duration::from_millis(200);
/// connections per client address the cluster `c3` admits (its own limit; the global limit stays off)
const PER_IP_LIMIT: u64 = 2;
/// estimated wall time of one storm (sum of the interactions' estimates / concurrency) stays below this
const STORM_BUDGET_MS: u64 = 13_000;

// ------------------------------------------------------------------ case

#[derive(Clone, Copy, Debug, Serialize, Deserialize, PartialEq, Eq)]
pub enum End {
    /// the client closes (FIN)
    Close,
    /// the client resets (SO_LINGER 0)
    Reset,
    /// the client stays silent until the proxy's timeout closes the connection
    ProxyTimeout,
}

#[derive(Clone, Copy, Debug, Serialize, Deserialize, PartialEq, Eq)]
pub enum Listener {
    Http,
    Https,
    Tcp,
}

#[derive(Clone, Copy, Debug, Serialize, Deserialize, PartialEq, Eq)]
pub enum Front {
    /// HTTP/1.1 on the HTTP listener
    H1,
    /// HTTP/1.1 on the HTTPS listener
    TlsH1,
    /// HTTP/2 on the HTTPS listener
    H2,
}

#[derive(Clone, Copy, Debug, Serialize, Deserialize, PartialEq, Eq)]
pub enum TcpEnd {
    Client,
    ClientReset,
    Backend,
    ProxyTimeout,
}

#[derive(Clone, Debug, Serialize, Deserialize, PartialEq)]
pub enum Interaction {
    /// 1..3 keep-alive requests answered 200, then the connection ends as `end` says
    H1Complete { requests: u8, body: u32, end: End },
    /// request for a host no frontend knows: 404
    UnknownHost { front: Front },
    /// the same over TLS (ALPN http/1.1)
    HttpsH1 { requests: u8, body: u32, end: End },
    /// bytes echoed through the TCP listener, then closed by `closer`
    TcpSession { len: u32, closer: TcpEnd },
    /// one HTTP/2 connection, 1..4 concurrent streams completed, GOAWAY, close
    H2Streams { streams: u8, h2c: bool, body: u32 },
    /// connect and send nothing until the proxy closes
    Silent { listener: Listener },
    /// half a request head, then close / reset
    HalfHead { tls: bool, reset: bool, wait_ms: u16 },
    /// the client goes away while the backend is in the middle of its response
    ClientAbort { front: Front, reset: bool },
    /// the backend reads the request and never answers: 504 after back_timeout
    BackendStall { front: Front },
    /// the backend closes without a byte: 502
    BackendCloses { front: Front },
    /// the backend answers bytes that are not HTTP: 502
    BackendGarbage { front: Front },
    /// the backend cuts its response (FIN or RST) inside the body
    BackendCut { front: Front, reset: bool },
    /// the backend address refuses connections: 503 after the retries
    BackendRefuses { front: Front },
    /// the backend answers, the client never reads and stays until the proxy's timeout
    Linger { tls: bool },
    /// HTTP/2 connection (after 0..2 completed streams) idle until the proxy's timeout; then the client
    /// keeps its socket open and silent for another 3 s
    H2Idle { warm_streams: u8 },
    /// the HTTP/2 client resets a stream in the middle of the response (then maybe opens another one)
    H2Reset { then_stream: bool },
    /// the HTTP/2 client disappears in the middle of a response
    H2Abort { reset: bool },
    /// TLS handshake started (0 half a ClientHello, 1 ClientHello, 2 ClientHello and the server's flight read) and abandoned
    TlsAbandon { stage: u8, end: End },
    /// TCP listener whose cluster's only backend refuses connections
    TcpRefused,
    /// TLS handshake completed on the HTTPS listener that has HTTP/1.1 disabled, by a client that offers no
    /// ALPN protocol (or only http/1.1): the proxy refuses the connection once the handshake is done
    AlpnRefused { offers_h11: bool },
    /// HTTP/1.1 upgrade answered 101, a few bytes relayed, closed by the client or by the backend
    WsUpgrade { tls: bool, backend_closes: bool },
    /// 1..3 connections at the same time, one request each, to the cluster that admits two connections
    /// per client address (the third is answered 429), then all closed / reset
    PerIp { conns: u8, tls: bool, reset: bool },
}

impl Interaction {
    /// class label of the interaction kind
    pub fn label(&self) -> &'static str {
        match self {
            Interaction::H1Complete { end: End::ProxyTimeout, .. } => "h1_keepalive_idle_timeout",
            Interaction::H1Complete { .. } => "h1_complete",
            Interaction::UnknownHost { .. } => "unknown_host",
            Interaction::HttpsH1 { .. } => "https_h1",
            Interaction::TcpSession { closer: TcpEnd::ProxyTimeout, .. } => "tcp_idle_timeout",
            Interaction::TcpSession { .. } => "tcp_session",
            Interaction::H2Streams { .. } => "h2_streams",
            Interaction::Silent { .. } => "silent_until_timeout",
            Interaction::HalfHead { .. } => "half_head",
            Interaction::ClientAbort { .. } => "client_abort_mid_response",
            Interaction::BackendStall { .. } => "backend_timeout",
            Interaction::BackendCloses { .. } => "backend_closes",
            Interaction::BackendGarbage { .. } => "backend_garbage",
            Interaction::BackendCut { .. } => "backend_cut",
            Interaction::BackendRefuses { .. } => "backend_refuses",
            Interaction::Linger { .. } => "client_lingers",
            Interaction::H2Idle { .. } => "h2_idle_timeout",
            Interaction::H2Reset { .. } => "h2_reset_mid_response",
            Interaction::H2Abort { .. } => "h2_abort_mid_response",
            Interaction::TlsAbandon { .. } => "tls_abandoned",
            Interaction::TcpRefused => "tcp_backend_refuses",
            Interaction::AlpnRefused { .. } => "tls_refused_by_alpn_gate",
            Interaction::WsUpgrade { .. } => "ws_upgrade",
            Interaction::PerIp { conns, .. } if *conns > PER_IP_LIMIT as u8 => "per_ip_limit_hit",
            Interaction::PerIp { .. } => "per_ip_slots_taken",
        }
    }

    /// an ending other than "everything completed and the client closed"
    pub fn abnormal(&self) -> bool {
        !matches!(
            self,
            Interaction::H1Complete { end: End::Close, .. }
                | Interaction::HttpsH1 { end: End::Close, .. }
                | Interaction::UnknownHost { .. }
                | Interaction::TcpSession { closer: TcpEnd::Client, .. }
                | Interaction::H2Streams { .. }
        )
    }

    /// rough wall time (ms), used to keep storms within the budget
    fn estimate_ms(&self) -> u64 {
        let to = FRONT_S as u64 * 1000 + 600;
        match self {
            Interaction::H1Complete { end: End::ProxyTimeout, .. } | Interaction::HttpsH1 { end: End::ProxyTimeout, .. } => to,
            Interaction::TcpSession { closer: TcpEnd::ProxyTimeout, .. } => to,
            Interaction::Silent { .. } | Interaction::Linger { .. } => to,
            Interaction::TlsAbandon { end: End::ProxyTimeout, .. } => to,
            Interaction::HalfHead { wait_ms, .. } => *wait_ms as u64 + 50,
            Interaction::BackendStall { .. } => BACK_S as u64 * 1000 + 300,
            Interaction::H2Idle { .. } => to,
            Interaction::H2Reset { .. } => 900,
            Interaction::ClientAbort { .. } | Interaction::H2Abort { .. } | Interaction::WsUpgrade { .. } => 300,
            Interaction::BackendRefuses { .. } | Interaction::TcpRefused => 500,
            _ => 120,
        }
    }

    fn front(&self) -> Option<Front> {
        match self {
            Interaction::UnknownHost { front }
            | Interaction::ClientAbort { front, .. }
            | Interaction::BackendStall { front }
            | Interaction::BackendCloses { front }
            | Interaction::BackendGarbage { front }
            | Interaction::BackendCut { front, .. }
            | Interaction::BackendRefuses { front } => Some(*front),
            _ => None,
        }
    }
}

#[derive(Clone, Debug, Serialize, Deserialize)]
pub struct Case {
    pub seed: u64,
    /// 1 = one interaction after the other; up to 8 at the same time
    pub concurrency: u8,
    pub interactions: Vec<Interaction>,
    /// reproducer mode: interaction shapes of known findings are run as generated (otherwise they are
    /// replaced by their nearest shape outside the finding and counted as excluded)
    #[serde(default)]
    pub strict: bool,
}

fn end() -> impl Strategy<Value = End> {
    prop_oneof![3 => Just(End::Close), 1 => Just(End::Reset), 1 => Just(End::ProxyTimeout)]
}

fn front() -> impl Strategy<Value = Front> {
    prop_oneof![3 => Just(Front::H1), 1 => Just(Front::TlsH1), 2 => Just(Front::H2)]
}

fn body() -> impl Strategy<Value = u32> {
    prop_oneof![Just(0u32), 1u32..200, Just(16393u32), 200u32..70_000]
}

fn interaction() -> impl Strategy<Value = Interaction> {
    prop_oneof![
        2 => (1u8..4, body(), end()).prop_map(|(requests, body, end)| Interaction::H1Complete { requests, body, end }),
        1 => front().prop_map(|front| Interaction::UnknownHost { front }),
        1 => (1u8..3, body(), end()).prop_map(|(requests, body, end)| Interaction::HttpsH1 { requests, body, end }),
        3 => (prop_oneof![Just(0u32), 1u32..100, 100u32..40_000], prop_oneof![2 => Just(TcpEnd::Client), 1 => Just(TcpEnd::ClientReset), 2 => Just(TcpEnd::Backend), 1 => Just(TcpEnd::ProxyTimeout)])
            .prop_map(|(len, closer)| Interaction::TcpSession { len, closer }),
        2 => (1u8..5, any::<bool>(), body()).prop_map(|(streams, h2c, body)| Interaction::H2Streams { streams, h2c, body }),
        1 => prop_oneof![Just(Listener::Http), Just(Listener::Https), Just(Listener::Tcp)].prop_map(|listener| Interaction::Silent { listener }),
        1 => (any::<bool>(), any::<bool>(), prop_oneof![Just(0u16), 1u16..300]).prop_map(|(tls, reset, wait_ms)| Interaction::HalfHead { tls, reset, wait_ms }),
        3 => (front(), any::<bool>()).prop_map(|(front, reset)| Interaction::ClientAbort { front, reset }),
        3 => front().prop_map(|front| Interaction::BackendStall { front }),
        1 => front().prop_map(|front| Interaction::BackendCloses { front }),
        1 => front().prop_map(|front| Interaction::BackendGarbage { front }),
        1 => (front(), any::<bool>()).prop_map(|(front, reset)| Interaction::BackendCut { front, reset }),
        3 => front().prop_map(|front| Interaction::BackendRefuses { front }),
        1 => any::<bool>().prop_map(|tls| Interaction::Linger { tls }),
        3 => (0u8..3).prop_map(|warm_streams| Interaction::H2Idle { warm_streams }),
        2 => any::<bool>().prop_map(|then_stream| Interaction::H2Reset { then_stream }),
        1 => any::<bool>().prop_map(|reset| Interaction::H2Abort { reset }),
        2 => (0u8..3, end()).prop_map(|(stage, end)| Interaction::TlsAbandon { stage, end }),
        1 => Just(Interaction::TcpRefused),
        1 => any::<bool>().prop_map(|offers_h11| Interaction::AlpnRefused { offers_h11 }),
        1 => (any::<bool>(), any::<bool>()).prop_map(|(tls, backend_closes)| Interaction::WsUpgrade { tls, backend_closes }),
        2 => (1u8..=3, any::<bool>(), any::<bool>()).prop_map(|(conns, tls, reset)| Interaction::PerIp { conns, tls, reset }),
    ]
}

pub fn strategy() -> impl Strategy<Value = Case> {
    (any::<u64>(), prop_oneof![1 => Just(1u8), 3 => 2u8..=8], prop::collection::vec(interaction(), 3..=25)).prop_map(|(seed, concurrency, mut interactions)| {
        // keep the storm within its time budget (timeouts are what make interactions slow)
        let est = |v: &[Interaction]| v.iter().map(|i| i.estimate_ms()).sum::<u64>() / (concurrency as u64).min(v.len() as u64).max(1);
        while interactions.len() > 3 && est(&interactions) > STORM_BUDGET_MS {
            interactions.pop();
        }
        Case { seed, concurrency, interactions, strict: false }
    })
}

// ------------------------------------------------------------------ known findings

/// How generated (non-strict) cases stay outside a known finding.
enum Exclusion {
    /// the interaction is replaced by this one (no finding needs it at present)
    #[allow(dead_code)]
    Replace(Interaction),
    /// the interaction runs as generated; the gauges whose name starts with one of these prefixes may end
    /// up to one above the baseline per such interaction (the worker's baseline is then moved along)
    Gauges(&'static [&'static str]),
}

/// Interaction shapes that are known findings: name used in class labels and signatures, and how
/// generated cases avoid it. The committed strict reproducers run the shapes as they are, with no
/// tolerance, and fail with `C16/not-back-to-baseline:<gauge>:<name>`.
fn known_shape(i: &Interaction) -> Option<(&'static str, Exclusion)> {
    match i {
        // a session upgraded to a websocket pipe never gave back its backend connection in the
        // backend gauges (Pipe::close had no counterpart of Router::connect's increments).
        // Repaired in sozu: the tolerance is off unless VP_C16_EXCLUSIONS is set (exploring older trees)
        Interaction::WsUpgrade { .. } if std::env::var_os("VP_C16_EXCLUSIONS").is_some() => Some(("ws-upgrade", Exclusion::Gauges(&["backend.connections", "backend.pool.size", "connections_per_backend@c0"]))),
        _ => None,
    }
}

// ------------------------------------------------------------------ gauges

/// name -> value of every gauge the worker reports (proxy level: `name`; cluster level: `name@cluster`;
/// backend level: `name@cluster/backend`)
pub type Gauges = BTreeMap<String, u64>;

/// gauges that describe configuration, capacity, time or backend health, not resources held by sessions
fn ignored(name: &str) -> bool {
    let base = name.split('@').next().unwrap_or(name);
    base.starts_with("process.")
        || base.starts_with("server.")
        || base.starts_with("configuration.")
        || base.starts_with("tls.")
        || base.starts_with("health_check.")
        || base.ends_with(".capacity")
        || base.ends_with("_percent")
        || base.ends_with(".connections_max")
        || base == "backend.available"
        || base.starts_with("cluster.")
        || base.starts_with("metrics.")
}

pub(super) fn query_gauges(worker: &mut lab::LabWorker) -> Result<Gauges, String> {
    let opts = QueryMetricsOptions { list: false, cluster_ids: vec![], backend_ids: vec![], metric_names: vec![], no_clusters: false, workers: false };
    let r = worker.request(RequestType::QueryMetrics(opts)).map_err(|e| format!("{e:?}"))?;
    if r.status != ResponseStatus::Ok as i32 {
        return Err(format!("QueryMetrics failed: {}", r.message));
    }
    let Some(ContentType::WorkerMetrics(wm)) = r.content.and_then(|c| c.content_type) else {
        return Err("QueryMetrics answered without WorkerMetrics".into());
    };
    let mut g = Gauges::new();
    let gauge = |m: &sozu_command_lib::proto::command::FilteredMetrics| match m.inner {
        Some(Inner::Gauge(v)) => Some(v),
        _ => None,
    };
    for (k, m) in &wm.proxy {
        if let Some(v) = gauge(m) {
            g.insert(k.clone(), v);
        }
    }
    for (cid, cm) in &wm.clusters {
        for (k, m) in &cm.cluster {
            if let Some(v) = gauge(m) {
                g.insert(format!("{k}@{cid}"), v);
            }
        }
        for b in &cm.backends {
            for (k, m) in &b.metrics {
                if let Some(v) = gauge(m) {
                    g.insert(format!("{k}@{cid}/{}", b.backend_id), v);
                }
            }
        }
    }
    g.retain(|k, _| !ignored(k));
    Ok(g)
}

/// gauges whose value differs (a gauge absent on one side counts as 0): (name, baseline, now)
pub(super) fn drift(baseline: &Gauges, now: &Gauges) -> Vec<(String, u64, u64)> {
    let names: BTreeSet<&String> = baseline.keys().chain(now.keys()).collect();
    names
        .into_iter()
        .filter_map(|n| {
            let (b, v) = (baseline.get(n).copied().unwrap_or(0), now.get(n).copied().unwrap_or(0));
            (b != v).then(|| (n.clone(), b, v))
        })
        .collect()
}

pub(super) fn underflows() -> u64 {
    sozu_lib::metrics::verif_gauges::gauge_underflows()
}

// ------------------------------------------------------------------ lab

/// an address that refuses connections for as long as the returned socket lives: bound, never listening
fn bound_not_listening() -> (SocketAddr, OwnedFd) {
    use std::os::fd::FromRawFd;
    for _ in 0..50 {
        let addr = lab::free_addr();
        let fd = unsafe { libc::socket(libc::AF_INET, libc::SOCK_STREAM | libc::SOCK_CLOEXEC, 0) };
        assert!(fd >= 0, "harness: socket()");
        let owned = unsafe { OwnedFd::from_raw_fd(fd) };
        let sa = libc::sockaddr_in {
            sin_family: libc::AF_INET as libc::sa_family_t,
            sin_port: addr.port().to_be(),
            sin_addr: libc::in_addr { s_addr: u32::from_ne_bytes([127, 0, 0, 1]) },
            sin_zero: [0; 8],
        };
        let r = unsafe { libc::bind(fd, &sa as *const _ as *const libc::sockaddr, std::mem::size_of::<libc::sockaddr_in>() as u32) };
        if r == 0 {
            return (addr, owned);
        }
    }
    panic!("harness: could not bind a refusing address");
}

/// echo backend of the TCP cluster: every byte goes back; a `!` in the stream makes the backend close
/// once it has echoed it
pub(super) fn serve_echo(mut stream: TcpStream) {
    let mut buf = vec![0u8; 65536];
    let mut last = Instant::now();
    loop {
        match stream.read(&mut buf) {
            Ok(0) => return,
            Ok(n) => {
                last = Instant::now();
                if stream.write_all(&buf[..n]).is_err() {
                    return;
                }
                if buf[..n].contains(&b'!') {
                    return;
                }
            }
            Err(e) if matches!(e.kind(), std::io::ErrorKind::WouldBlock | std::io::ErrorKind::TimedOut | std::io::ErrorKind::Interrupted) => {
                if last.elapsed() > Duration::from_secs(10) {
                    return;
                }
            }
            Err(_) => return,
        }
    }
}

#[derive(Clone, Copy)]
struct Env {
    http: SocketAddr,
    https: SocketAddr,
    tcp: SocketAddr,
    tcp_refuse: SocketAddr,
    /// HTTPS listener with `disable_http11`
    https_h2only: SocketAddr,
    seed: u64,
}

pub struct StormLab {
    h2: H2Lab,
    env: Env,
    _echo: Acceptor,
    _limited: Acceptor,
    _refusing: Vec<OwnedFd>,
    baseline: Gauges,
    baseline_underflows: u64,
    baseline_moved: bool,
}

impl Drop for StormLab {
    fn drop(&mut self) {
        // stalled mock-backend connections end now (their acceptor joins them when it is dropped)
        self.h2.h1_shared.lock().unwrap().stop_stalls = true;
    }
}

impl StormLab {
    pub fn new() -> StormLab {
        let cfg = LabConfig {
            front_timeout: FRONT_S,
            back_timeout: BACK_S,
            connect_timeout: CONNECT_S,
            request_timeout: REQUEST_S,
            // sessions have to be reclaimed by their own timeouts: the zombie sweep (a safety net that
            // reports what it finds as an error) stays out of the way
            zombie_check_interval: 600,
            ..LabConfig::default()
        };
        let mut h2 = H2Lab::new("c16", cfg, |_| {});
        let mut refusing = vec![];
        // c2: HTTP cluster whose only backend refuses connections
        let (raddr, rfd) = bound_not_listening();
        refusing.push(rfd);
        h2.worker.add_cluster("c2", |_| {});
        h2.worker.add_backend("c2", "c2-0", raddr);
        h2.worker.add_http_frontend("c2", h2.http_addr, "c2.lab", "/");
        h2.worker.must(RequestType::AddHttpsFrontend(RequestHttpFrontend {
            cluster_id: Some("c2".to_string()),
            address: h2.https_addr.into(),
            hostname: "c2.lab".to_string(),
            path: PathRule::prefix("/".to_string()),
            position: RulePosition::Tree.into(),
            ..Default::default()
        }));
        // c3: HTTP cluster (its own HTTP/1.1 mock backend) that admits PER_IP_LIMIT connections per client address
        let (a3, l3) = lab::bound_listener();
        h2.worker.add_cluster("c3", |c| c.max_connections_per_ip = Some(PER_IP_LIMIT));
        h2.worker.add_backend("c3", "c3-0", a3);
        h2.worker.add_http_frontend("c3", h2.http_addr, "c3.lab", "/");
        h2.worker.must(RequestType::AddHttpsFrontend(RequestHttpFrontend {
            cluster_id: Some("c3".to_string()),
            address: h2.https_addr.into(),
            hostname: "c3.lab".to_string(),
            path: PathRule::prefix("/".to_string()),
            position: RulePosition::Tree.into(),
            ..Default::default()
        }));
        let sh3 = h2.h1_shared.clone();
        let limited = Acceptor::spawn(l3, move |conn, stream| crate::lab::httplab::serve_conn(3, conn, stream, sh3.clone()));
        // t0: TCP listener relayed to an echo backend
        let tcp = lab::free_addr();
        let (eaddr, elistener) = lab::bound_listener();
        h2.worker.add_cluster("t0", |_| {});
        h2.worker.add_tcp_listener(tcp, |_| {});
        h2.worker.add_tcp_frontend("t0", tcp);
        h2.worker.add_backend("t0", "t0-0", eaddr);
        let echo = Acceptor::spawn(elistener, |_idx, stream| serve_echo(stream));
        // t1: TCP listener whose cluster's only backend refuses
        let tcp_refuse = lab::free_addr();
        let (raddr2, rfd2) = bound_not_listening();
        refusing.push(rfd2);
        h2.worker.add_cluster("t1", |_| {});
        h2.worker.add_tcp_listener(tcp_refuse, |_| {});
        h2.worker.add_tcp_frontend("t1", tcp_refuse);
        h2.worker.add_backend("t1", "t1-0", raddr2);

        // a second HTTPS listener that serves HTTP/2 only (disable_http11): a client without ALPN h2 is refused
        // after its handshake
        let https_h2only = lab::free_addr();
        {
            use sozu_command_lib::{
                config::ListenerBuilder,
                proto::command::{ActivateListener, AddCertificate, CertificateAndKey, ListenerType},
            };
            let mut b = ListenerBuilder::new_https(https_h2only.into());
            b.with_front_timeout(Some(FRONT_S)).with_back_timeout(Some(BACK_S)).with_connect_timeout(Some(CONNECT_S)).with_request_timeout(Some(REQUEST_S));
            let mut l = b.to_tls(None).expect("https listener config");
            l.certificate = Some(crate::gens::certs::LAB_CERT.to_string());
            l.key = Some(crate::gens::certs::LAB_KEY.to_string());
            l.alpn_protocols = vec!["h2".into()];
            l.disable_http11 = Some(true);
            h2.worker.must(RequestType::AddHttpsListener(l));
            h2.worker.must(RequestType::AddCertificate(AddCertificate {
                address: https_h2only.into(),
                certificate: CertificateAndKey { certificate: crate::gens::certs::LAB_CERT.to_string(), certificate_chain: vec![], key: crate::gens::certs::LAB_KEY.to_string(), versions: vec![], names: vec![] },
                expired_at: None,
            }));
            h2.worker.must(RequestType::ActivateListener(ActivateListener { address: https_h2only.into(), proxy: ListenerType::Https.into(), from_scm: false }));
        }

        let env = Env { http: h2.http_addr, https: h2.https_addr, tcp, tcp_refuse, https_h2only, seed: 0 };
        let mut lab = StormLab { h2, env, _echo: echo, _limited: limited, _refusing: refusing, baseline: Gauges::new(), baseline_underflows: 0, baseline_moved: false };
        // warm-up: one request per listener (HTTPS: one HTTP/1.1 and one HTTP/2 connection), so that
        // lazily created gauges exist and one-time allocations are done
        lab.h2.reset_plan(BTreeMap::new(), ReadScript::default(), H2Shared::default());
        for (what, r) in lab.probes(true) {
            if let Err(e) = r {
                panic!("harness: warm-up request on the {what} listener failed: {e}");
            }
        }
        // baseline: the idle footprint, once two successive readings agree and no client is connected
        let deadline = Instant::now() + Duration::from_secs(8);
        let mut prev: Option<Gauges> = None;
        loop {
            std::thread::sleep(POLL);
            let g = query_gauges(&mut lab.h2.worker).unwrap_or_else(|e| panic!("harness: cannot read the worker's metrics: {e}"));
            let idle = g.get("client.connections").copied().unwrap_or(0) == 0;
            if idle && prev.as_ref() == Some(&g) {
                lab.baseline = g;
                break;
            }
            if Instant::now() >= deadline {
                panic!("harness: the worker's gauges did not settle after the warm-up: {:?}", prev.map(|p| drift(&p, &g)));
            }
            prev = Some(g);
        }
        lab.baseline_underflows = underflows();
        if std::env::var("VP_C16_DUMP").is_ok() {
            eprintln!("baseline gauges: {:#?}", lab.baseline);
        }
        lab
    }

    /// one plain request per listener: (listener, result)
    fn probes(&mut self, with_h2: bool) -> Vec<(&'static str, Result<(), String>)> {
        let env = self.env;
        let mut v = vec![("HTTP", probe_h1(env, false)), ("HTTPS", probe_h1(env, true)), ("TCP", probe_tcp(env)), ("per-IP", probe_per_ip(env))];
        if with_h2 {
            v.push(("HTTPS (HTTP/2)", probe_h2(env)));
        }
        v
    }
}

// ------------------------------------------------------------------ client helpers

enum Conn {
    Plain(TcpStream),
    Tls(Box<rustls::StreamOwned<rustls::ClientConnection, TcpStream>>),
}

impl Conn {
    fn sock(&self) -> &TcpStream {
        match self {
            Conn::Plain(s) => s,
            Conn::Tls(t) => &t.sock,
        }
    }
}

impl Read for Conn {
    fn read(&mut self, buf: &mut [u8]) -> std::io::Result<usize> {
        match self {
            Conn::Plain(s) => s.read(buf),
            Conn::Tls(t) => t.read(buf),
        }
    }
}

impl Write for Conn {
    fn write(&mut self, buf: &[u8]) -> std::io::Result<usize> {
        match self {
            Conn::Plain(s) => s.write(buf),
            Conn::Tls(t) => t.write(buf),
        }
    }
    fn flush(&mut self) -> std::io::Result<()> {
        match self {
            Conn::Plain(s) => s.flush(),
            Conn::Tls(t) => t.flush(),
        }
    }
}

pub(super) fn set_linger0(s: &TcpStream) {
    let l = libc::linger { l_onoff: 1, l_linger: 0 };
    unsafe {
        libc::setsockopt(s.as_raw_fd(), libc::SOL_SOCKET, libc::SO_LINGER, &l as *const _ as *const libc::c_void, std::mem::size_of::<libc::linger>() as u32);
    }
}

fn h1_connect(env: Env, tls: bool, sni: &str) -> Result<Conn, String> {
    if tls {
        let (t, _) = h2::tls_connect(env.https, sni, &["http/1.1"]).map_err(|e| format!("TLS connect: {e}"))?;
        let _ = t.sock.set_read_timeout(Some(Duration::from_millis(100)));
        Ok(Conn::Tls(Box::new(t)))
    } else {
        h1::connect(env.http, Duration::from_secs(2)).map(Conn::Plain).map_err(|e| format!("connect: {e}"))
    }
}

fn request_bytes(host: &str, path: &str, lab_req: Option<usize>, extra: &[(&str, &str)]) -> Vec<u8> {
    let mut s = format!("GET {path} HTTP/1.1\r\nHost: {host}\r\n");
    if let Some(n) = lab_req {
        s.push_str(&format!("x-lab-req: {n}\r\n"));
    }
    for (n, v) in extra {
        s.push_str(&format!("{n}: {v}\r\n"));
    }
    s.push_str("\r\n");
    s.into_bytes()
}

/// read and discard until the peer closes (true) or `max` has passed (false)
fn wait_closed<R: Read>(r: &mut R, max: Duration) -> bool {
    let deadline = Instant::now() + max;
    let mut buf = [0u8; 16384];
    loop {
        match r.read(&mut buf) {
            Ok(0) => return true,
            Ok(_) => {}
            Err(e) if matches!(e.kind(), std::io::ErrorKind::WouldBlock | std::io::ErrorKind::TimedOut | std::io::ErrorKind::Interrupted) => {}
            Err(_) => return true,
        }
        if Instant::now() >= deadline {
            return false;
        }
    }
}

/// sockets of clients that went idle and stay open and silent until the scenario closes them
type Held = Mutex<Vec<TcpStream>>;

fn hold(held: &Held, s: &TcpStream) {
    if let Ok(dup) = s.try_clone() {
        held.lock().unwrap().push(dup);
    }
}

fn finish(conn: Conn, end: End, held: &Held) -> bool {
    match end {
        End::Close => true,
        End::Reset => {
            set_linger0(conn.sock());
            true
        }
        End::ProxyTimeout => {
            let mut conn = conn;
            let closed = wait_closed(&mut conn, PROXY_CLOSE_WAIT);
            if !closed {
                // the proxy has not closed: the socket stays open, the footprint has to come back anyway
                hold(held, conn.sock());
            }
            closed
        }
    }
}

type H2C = H2Conn<rustls::StreamOwned<rustls::ClientConnection, TcpStream>>;

/// TLS + ALPN h2 connection, SETTINGS exchanged
fn h2_connect(env: Env, sni: &str) -> Result<H2C, String> {
    let (tls, _info) = h2::tls_connect(env.https, sni, &["h2"]).map_err(|e| format!("TLS connect: {e}"))?;
    if tls.conn.alpn_protocol() != Some(b"h2") {
        return Err(format!("ALPN negotiated {:?}, wanted h2", tls.conn.alpn_protocol().map(String::from_utf8_lossy)));
    }
    let mut c = H2Conn::new(tls, false, Settings::default());
    c.start().map_err(|e| format!("send preface: {e}"))?;
    let deadline = Instant::now() + Duration::from_secs(5);
    loop {
        match c.next_frame(deadline) {
            H2Event::Frame(f) => {
                if f.typ == h2::SETTINGS && f.flags & h2::F_ACK == 0 {
                    break;
                }
            }
            H2Event::Timeout => {
                if Instant::now() >= deadline {
                    return Err("sozu sent no SETTINGS".into());
                }
            }
            other => return Err(format!("connection ended during the SETTINGS exchange: {other:?}")),
        }
    }
    c.replenish(0);
    Ok(c)
}

fn h2_get(c: &mut H2C, sid: u32, host: &str, path: &str, lab_req: Option<usize>) -> Result<(), String> {
    let mut headers = vec![
        (":method".to_string(), "GET".to_string()),
        (":scheme".to_string(), "https".to_string()),
        (":authority".to_string(), host.to_string()),
        (":path".to_string(), path.to_string()),
    ];
    if let Some(n) = lab_req {
        headers.push(("x-lab-req".to_string(), n.to_string()));
    }
    c.send_headers(sid, &headers, true, None).map_err(|e| format!("send HEADERS of stream {sid}: {e}"))
}

/// pump frames until `done(c)` or the connection ends or the deadline passes; true = done
fn h2_until(c: &mut H2C, deadline: Instant, done: impl Fn(&H2C) -> bool) -> bool {
    loop {
        if done(c) {
            return true;
        }
        c.replenish_open();
        match c.next_frame(Instant::now() + Duration::from_millis(20)) {
            H2Event::Frame(_) => {}
            H2Event::Timeout => {
                if Instant::now() >= deadline {
                    return done(c);
                }
            }
            H2Event::Eof | H2Event::Reset => return done(c),
        }
    }
}

fn h2_stream_over(c: &H2C, sid: u32) -> bool {
    c.streams.get(&sid).map(|s| s.end_stream || s.reset.is_some()).unwrap_or(false)
}

fn h2_status(c: &H2C, sid: u32) -> Option<String> {
    c.streams.get(&sid).and_then(|s| h2::hdr(&s.headers, ":status"))
}

/// one request on a fresh connection of the given front, answer's status (None: no complete answer)
fn one_request(env: Env, front: Front, host: &str, lab_req: Option<usize>, wait: Duration) -> Result<Option<u16>, String> {
    match front {
        Front::H1 | Front::TlsH1 => {
            let mut conn = h1_connect(env, front == Front::TlsH1, host)?;
            conn.write_all(&request_bytes(host, "/f", lab_req, &[])).map_err(|e| format!("write: {e}"))?;
            let _ = conn.flush();
            let mut c = H1Conn::new(conn);
            match c.next_message(Kind::Response { head_request: false }, Instant::now() + wait) {
                ReadOutcome::Message(m) => Ok(m.status()),
                _ => Ok(None),
            }
        }
        Front::H2 => {
            let mut c = h2_connect(env, host)?;
            h2_get(&mut c, 1, host, "/f", lab_req)?;
            h2_until(&mut c, Instant::now() + wait, |c| h2_stream_over(c, 1));
            let st = h2_status(&c, 1).and_then(|s| s.parse::<u16>().ok());
            let _ = c.send(&Frame::goaway(0, h2::NO_ERROR));
            Ok(st)
        }
    }
}

fn probe_h1(env: Env, tls: bool) -> Result<(), String> {
    let t0 = Instant::now();
    match one_request(env, if tls { Front::TlsH1 } else { Front::H1 }, "c0.lab", None, Duration::from_secs(4))? {
        Some(200) => Ok(()),
        other => Err(format!("expected the backend's 200, got {other:?} after {} ms", t0.elapsed().as_millis())),
    }
}

fn probe_h2(env: Env) -> Result<(), String> {
    for host in ["c0.lab", "c1.lab"] {
        match one_request(env, Front::H2, host, None, Duration::from_secs(4))? {
            Some(200) => {}
            other => return Err(format!("{host}: expected the backend's 200, got {other:?}")),
        }
    }
    Ok(())
}

/// as many connections at the same time as the cluster admits per client address: all served
fn probe_per_ip(env: Env) -> Result<(), String> {
    let t0 = Instant::now();
    let (statuses, _open) = per_ip_connections(env, PER_IP_LIMIT as usize, false)?;
    if statuses.iter().all(|s| *s == Some(200)) {
        Ok(())
    } else {
        Err(format!("{PER_IP_LIMIT} connections at the same time from one address to the cluster that admits {PER_IP_LIMIT} per address were answered {statuses:?} (in {} ms)", t0.elapsed().as_millis()))
    }
}

/// `n` connections to c3.lab opened one after the other and kept open, one request on each: (statuses, connections)
fn per_ip_connections(env: Env, n: usize, tls: bool) -> Result<(Vec<Option<u16>>, Vec<H1Conn<Conn>>), String> {
    let mut open = vec![];
    let mut statuses = vec![];
    for k in 0..n {
        let conn = h1_connect(env, tls, "c3.lab")?;
        let mut c = H1Conn::new(conn);
        c.r.write_all(&request_bytes("c3.lab", &format!("/p{k}"), None, &[])).map_err(|e| format!("write: {e}"))?;
        let _ = c.r.flush();
        statuses.push(match c.next_message(Kind::Response { head_request: false }, Instant::now() + Duration::from_secs(4)) {
            ReadOutcome::Message(m) => m.status(),
            _ => None,
        });
        open.push(c);
    }
    Ok((statuses, open))
}

fn probe_tcp(env: Env) -> Result<(), String> {
    let mut s = h1::connect(env.tcp, Duration::from_secs(2)).map_err(|e| format!("connect: {e}"))?;
    s.write_all(b"probe").map_err(|e| format!("write: {e}"))?;
    let got = read_n(&mut s, 5, Duration::from_secs(4));
    if got == b"probe" { Ok(()) } else { Err(format!("sent 5 bytes to the echo cluster, got back {:?}", String::from_utf8_lossy(&got))) }
}

fn read_n<R: Read>(r: &mut R, n: usize, max: Duration) -> Vec<u8> {
    let deadline = Instant::now() + max;
    let mut out = vec![];
    let mut buf = [0u8; 16384];
    while out.len() < n {
        match r.read(&mut buf) {
            Ok(0) => break,
            Ok(k) => out.extend_from_slice(&buf[..k]),
            Err(e) if matches!(e.kind(), std::io::ErrorKind::WouldBlock | std::io::ErrorKind::TimedOut | std::io::ErrorKind::Interrupted) => {}
            Err(_) => break,
        }
        if Instant::now() >= deadline {
            break;
        }
    }
    out
}

/// a ClientHello for `sni` (ALPN h2, http/1.1) and the connection state that produced it
fn client_hello(sni: &str) -> (Vec<u8>, rustls::ClientConnection) {
    let mut cfg = rustls::ClientConfig::builder_with_provider(Arc::new(rustls::crypto::ring::default_provider()))
        .with_safe_default_protocol_versions()
        .expect("protocol versions")
        .with_root_certificates(rustls::RootCertStore::empty())
        .with_no_client_auth();
    cfg.alpn_protocols = vec![b"h2".to_vec(), b"http/1.1".to_vec()];
    let name = rustls::pki_types::ServerName::try_from(sni.to_string()).expect("server name");
    let mut conn = rustls::ClientConnection::new(Arc::new(cfg), name).expect("client connection");
    let mut hello = vec![];
    while conn.wants_write() {
        if conn.write_tls(&mut hello).is_err() {
            break;
        }
    }
    (hello, conn)
}

// ------------------------------------------------------------------ backend plans

/// the slow large response used by the "in the middle of the response" interactions: a first part,
/// then pauses long enough for the client to act while the rest has not been written
const SLOW_BODY: usize = 400_000;

fn slow_response(seed: u64) -> BackendAction {
    BackendAction::Respond {
        status: 200,
        headers: vec![],
        body_seed: seed,
        body_len: SLOW_BODY,
        framing: BodyFraming::ContentLength,
        write: WriteScript { steps: vec![WStep::Write(20_000), WStep::PauseMs(500), WStep::Write(100_000), WStep::PauseMs(500)], sndbuf: None },
        close_after: false,
        cut_at: None,
        reset: false,
    }
}

/// x-lab-req numbers of interaction `idx`: idx * 8 + k
fn req_no(idx: usize, k: usize) -> usize {
    idx * 8 + k
}

fn plans(case: &Case, interactions: &[Interaction]) -> (BTreeMap<usize, BackendAction>, H2Shared) {
    let mut h1 = BTreeMap::new();
    let mut h2s = H2Shared::default();
    for (idx, it) in interactions.iter().enumerate() {
        let seed = case.seed ^ (idx as u64) << 8;
        match it {
            Interaction::H1Complete { requests, body, .. } | Interaction::HttpsH1 { requests, body, .. } => {
                for k in 0..*requests as usize {
                    h1.insert(req_no(idx, k), BackendAction::ok(seed ^ k as u64, *body as usize, if k % 2 == 0 { BodyFraming::ContentLength } else { BodyFraming::Chunked(vec![1000, 7]) }));
                }
            }
            Interaction::H2Streams { streams, h2c, body } => {
                for k in 0..*streams as usize {
                    if *h2c {
                        h2s.actions.insert(req_no(idx, k), H2Action { body: content(seed ^ k as u64, *body as usize), ..H2Action::default() });
                    } else {
                        h1.insert(req_no(idx, k), BackendAction::ok(seed ^ k as u64, *body as usize, BodyFraming::ContentLength));
                    }
                }
            }
            Interaction::ClientAbort { .. } | Interaction::H2Reset { .. } | Interaction::H2Abort { .. } => {
                h1.insert(req_no(idx, 0), slow_response(seed));
                h1.insert(req_no(idx, 1), BackendAction::ok(seed, 100, BodyFraming::ContentLength));
            }
            Interaction::BackendStall { .. } => {
                h1.insert(req_no(idx, 0), BackendAction::Stall);
            }
            Interaction::BackendCloses { .. } => {
                h1.insert(req_no(idx, 0), BackendAction::CloseWithoutAnswer);
            }
            Interaction::BackendGarbage { .. } => {
                h1.insert(req_no(idx, 0), BackendAction::Garbage(b"\x00\x01\x02 this is not HTTP\r\n\r\n".to_vec()));
            }
            Interaction::BackendCut { reset, .. } => {
                h1.insert(
                    req_no(idx, 0),
                    BackendAction::Respond { status: 200, headers: vec![], body_seed: seed, body_len: 50_000, framing: BodyFraming::ContentLength, write: WriteScript::default(), close_after: false, cut_at: Some(9_000), reset: *reset },
                );
            }
            Interaction::Linger { .. } => {
                h1.insert(req_no(idx, 0), BackendAction::ok(seed, 2_000, BodyFraming::ContentLength));
            }
            Interaction::H2Idle { warm_streams } => {
                for k in 0..*warm_streams as usize {
                    h1.insert(req_no(idx, k), BackendAction::ok(seed ^ k as u64, 300, BodyFraming::ContentLength));
                }
            }
            Interaction::WsUpgrade { .. } => {
                h1.insert(
                    req_no(idx, 0),
                    BackendAction::Respond {
                        status: 101,
                        headers: vec![("Upgrade".into(), "websocket".into()), ("Connection".into(), "Upgrade".into())],
                        body_seed: 0,
                        body_len: 0,
                        framing: BodyFraming::ContentLength,
                        write: WriteScript::default(),
                        close_after: false,
                        cut_at: None,
                        reset: false,
                    },
                );
            }
            _ => {}
        }
    }
    (h1, h2s)
}

// ------------------------------------------------------------------ interactions

/// what one interaction saw: Ok(true) = the intended shape happened, Ok(false) = it ended differently
/// (neither is a verdict: the oracle is the worker's footprint afterwards), Err = could not even start
type Seen = Result<bool, String>;

fn run_interaction(env: Env, idx: usize, it: &Interaction, held: &Held) -> Seen {
    let host0 = "c0.lab";
    match it {
        Interaction::H1Complete { requests, end, .. } | Interaction::HttpsH1 { requests, end, .. } => {
            let tls = matches!(it, Interaction::HttpsH1 { .. });
            let conn = h1_connect(env, tls, host0)?;
            let mut c = H1Conn::new(conn);
            let mut ok = true;
            for k in 0..*requests as usize {
                if c.r.write_all(&request_bytes(host0, &format!("/i{idx}/{k}"), Some(req_no(idx, k)), &[])).is_err() {
                    ok = false;
                    break;
                }
                let _ = c.r.flush();
                match c.next_message(Kind::Response { head_request: false }, Instant::now() + Duration::from_secs(4)) {
                    ReadOutcome::Message(m) if m.status() == Some(200) => {}
                    _ => {
                        ok = false;
                        break;
                    }
                }
            }
            Ok(finish(c.r, *end, held) && ok)
        }
        Interaction::UnknownHost { front } => Ok(one_request(env, *front, "nobody.lab", None, Duration::from_secs(3))? == Some(404)),
        Interaction::TcpSession { len, closer } => {
            let mut s = h1::connect(env.tcp, Duration::from_secs(2)).map_err(|e| format!("connect to the TCP listener: {e}"))?;
            let mut payload = content(env.seed ^ idx as u64, *len as usize);
            if *closer == TcpEnd::Backend {
                payload.push(b'!');
            }
            let mut ok = s.write_all(&payload).is_ok();
            let got = read_n(&mut s, payload.len(), Duration::from_secs(4));
            ok &= got == payload;
            match closer {
                TcpEnd::Client => {}
                TcpEnd::ClientReset => set_linger0(&s),
                TcpEnd::Backend => ok &= wait_closed(&mut s, Duration::from_secs(3)),
                TcpEnd::ProxyTimeout => {
                    let closed = wait_closed(&mut s, PROXY_CLOSE_WAIT);
                    if !closed {
                        hold(held, &s);
                    }
                    ok &= closed;
                }
            }
            Ok(ok)
        }
        Interaction::H2Streams { streams, h2c, .. } => {
            let host = if *h2c { "c1.lab" } else { host0 };
            let mut c = h2_connect(env, host)?;
            let ids: Vec<u32> = (0..*streams as u32).map(|k| 1 + 2 * k).collect();
            for (k, sid) in ids.iter().enumerate() {
                h2_get(&mut c, *sid, host, &format!("/i{idx}/{k}"), Some(req_no(idx, k)))?;
            }
            let done = h2_until(&mut c, Instant::now() + Duration::from_secs(5), |c| ids.iter().all(|s| h2_stream_over(c, *s)));
            let ok = done && ids.iter().all(|s| h2_status(&c, *s).as_deref() == Some("200"));
            let _ = c.send(&Frame::goaway(0, h2::NO_ERROR));
            Ok(ok)
        }
        Interaction::Silent { listener } => {
            let addr = match listener {
                Listener::Http => env.http,
                Listener::Https => env.https,
                Listener::Tcp => env.tcp,
            };
            let mut s = h1::connect(addr, Duration::from_secs(2)).map_err(|e| format!("connect: {e}"))?;
            let closed = wait_closed(&mut s, PROXY_CLOSE_WAIT);
            if !closed {
                hold(held, &s);
            }
            Ok(closed)
        }
        Interaction::HalfHead { tls, reset, wait_ms } => {
            let mut conn = h1_connect(env, *tls, host0)?;
            let ok = conn.write_all(b"GET /half HTTP/1.1\r\nHost: c0.l").is_ok();
            let _ = conn.flush();
            std::thread::sleep(Duration::from_millis(*wait_ms as u64));
            if *reset {
                set_linger0(conn.sock());
            }
            Ok(ok)
        }
        Interaction::ClientAbort { front: Front::H2, reset } => h2_mid_response(env, idx, Mid::Abort { reset: *reset }),
        Interaction::H2Abort { reset } => h2_mid_response(env, idx, Mid::Abort { reset: *reset }),
        Interaction::H2Reset { then_stream } => h2_mid_response(env, idx, Mid::ResetStream { then_stream: *then_stream }),
        Interaction::ClientAbort { front, reset } => {
            let mut conn = h1_connect(env, *front == Front::TlsH1, host0)?;
            conn.write_all(&request_bytes(host0, &format!("/i{idx}"), Some(req_no(idx, 0)), &[])).map_err(|e| format!("write: {e}"))?;
            let _ = conn.flush();
            // the head and a first piece of the body, while the backend pauses before the rest
            let got = read_n(&mut conn, 4096, Duration::from_secs(3));
            let ok = got.starts_with(b"HTTP/1.1 200") && got.len() < SLOW_BODY;
            if *reset {
                set_linger0(conn.sock());
            }
            Ok(ok)
        }
        Interaction::BackendStall { front } => Ok(one_request(env, *front, host0, Some(req_no(idx, 0)), Duration::from_secs(BACK_S as u64 + 3))? == Some(504)),
        Interaction::BackendCloses { front } => Ok(one_request(env, *front, host0, Some(req_no(idx, 0)), Duration::from_secs(4))? == Some(502)),
        Interaction::BackendGarbage { front } => Ok(one_request(env, *front, host0, Some(req_no(idx, 0)), Duration::from_secs(4))? == Some(502)),
        Interaction::BackendCut { front, .. } => {
            // a truncated 200: no complete message, or (HTTP/2) a reset stream
            let st = one_request(env, *front, host0, Some(req_no(idx, 0)), Duration::from_secs(FRONT_S as u64 + 2))?;
            Ok(st.is_none() || st == Some(200) || st == Some(502))
        }
        Interaction::BackendRefuses { front } => Ok(one_request(env, *front, "c2.lab", None, Duration::from_secs(CONNECT_S as u64 * 3 + 3))? == Some(503)),
        Interaction::Linger { tls } => {
            let mut conn = h1_connect(env, *tls, host0)?;
            let ok = conn.write_all(&request_bytes(host0, &format!("/i{idx}"), Some(req_no(idx, 0)), &[])).is_ok();
            let _ = conn.flush();
            // never read; stay until the proxy's timeout has passed, and longer (held open and silent)
            std::thread::sleep(Duration::from_millis(FRONT_S as u64 * 1000 + 600));
            hold(held, conn.sock());
            Ok(ok)
        }
        Interaction::H2Idle { warm_streams } => {
            let mut c = h2_connect(env, host0)?;
            let ids: Vec<u32> = (0..*warm_streams as u32).map(|k| 1 + 2 * k).collect();
            for (k, sid) in ids.iter().enumerate() {
                h2_get(&mut c, *sid, host0, &format!("/i{idx}/{k}"), Some(req_no(idx, k)))?;
            }
            let warm = h2_until(&mut c, Instant::now() + Duration::from_secs(4), |c| ids.iter().all(|s| h2_stream_over(c, *s)));
            // no open stream: the proxy's timeout passes; the client stays silent and keeps its socket open
            // (handed to the scenario, which closes it once the worker is back to its baseline, or at its deadline)
            let t0 = Instant::now();
            let fired = h2_until(&mut c, Instant::now() + Duration::from_millis(FRONT_S as u64 * 1000 + 600), |c| c.goaway.is_some() || c.eof);
            if std::env::var("VP_C16_DUMP").is_ok() {
                eprintln!("h2 idle #{idx}: warm {warm}, close seen {fired} after {:?}, goaway {:?}, eof {}, frames {:?}", t0.elapsed(), c.goaway, c.eof, &c.log[c.log.len().saturating_sub(6)..]);
            }
            hold(held, &c.s.sock);
            Ok(warm)
        }
        Interaction::TlsAbandon { stage, end } => {
            let mut s = h1::connect(env.https, Duration::from_secs(2)).map_err(|e| format!("connect: {e}"))?;
            let (hello, _state) = client_hello(host0);
            let mut ok = true;
            match stage {
                0 => ok &= s.write_all(&hello[..hello.len() / 2]).is_ok(),
                1 => ok &= s.write_all(&hello).is_ok(),
                _ => {
                    ok &= s.write_all(&hello).is_ok();
                    // the server's flight (ServerHello ... Finished) arrives; it is never answered
                    ok &= !read_n(&mut s, 1, Duration::from_secs(2)).is_empty();
                    std::thread::sleep(Duration::from_millis(30));
                }
            }
            Ok(finish(Conn::Plain(s), *end, held) && ok)
        }
        Interaction::AlpnRefused { offers_h11 } => {
            let alpn: &[&str] = if *offers_h11 { &["http/1.1"] } else { &[] };
            // the handshake may complete (the refusal comes after it) or be cut while its last flight is on
            // its way: both are a refusal; what counts is that the proxy ends the connection by itself
            match h2::tls_connect(env.https_h2only, host0, alpn) {
                Ok((mut tls, _)) => {
                    let _ = tls.sock.set_read_timeout(Some(Duration::from_millis(50)));
                    Ok(wait_closed(&mut tls, Duration::from_secs(FRONT_S as u64 + 2)))
                }
                Err(_) => Ok(true),
            }
        }
        Interaction::TcpRefused => {
            let mut s = h1::connect(env.tcp_refuse, Duration::from_secs(2)).map_err(|e| format!("connect to the TCP listener: {e}"))?;
            let _ = s.write_all(b"anyone there?");
            Ok(wait_closed(&mut s, Duration::from_secs(CONNECT_S as u64 * 3 + 2)))
        }
        Interaction::PerIp { conns, tls, reset } => {
            let (statuses, open) = per_ip_connections(env, *conns as usize, *tls)?;
            if *reset {
                for c in &open {
                    set_linger0(c.r.sock());
                }
            }
            // other interactions of the storm may hold slots of this address too: 200 or 429, nothing else
            let answered = statuses.iter().all(|s| matches!(s, Some(200) | Some(429)));
            let refused = statuses.iter().any(|s| *s == Some(429));
            Ok(answered && (refused || *conns as u64 <= PER_IP_LIMIT))
        }
        Interaction::WsUpgrade { tls, backend_closes } => {
            let conn = h1_connect(env, *tls, host0)?;
            let mut c = H1Conn::new(conn);
            let req = request_bytes(host0, &format!("/ws{idx}"), Some(req_no(idx, 0)), &[("Connection", "Upgrade"), ("Upgrade", "websocket"), ("Sec-WebSocket-Key", "dGhlIHNhbXBsZSBub25jZQ=="), ("Sec-WebSocket-Version", "13")]);
            c.r.write_all(&req).map_err(|e| format!("write: {e}"))?;
            let _ = c.r.flush();
            let mut ok = matches!(c.next_message(Kind::Response { head_request: false }, Instant::now() + Duration::from_secs(3)), ReadOutcome::Message(m) if m.status() == Some(101));
            if *backend_closes {
                // bytes that are no HTTP message make the mock backend hang up
                let _ = c.r.write_all(b"\x81\x05hello");
                let _ = c.r.flush();
                ok &= wait_closed(&mut c.r, Duration::from_secs(3));
            } else {
                std::thread::sleep(Duration::from_millis(50));
            }
            Ok(ok)
        }
    }
}

enum Mid {
    Abort { reset: bool },
    ResetStream { then_stream: bool },
}

/// HTTP/2 client in the middle of a slow response from the HTTP/1.1 backend
fn h2_mid_response(env: Env, idx: usize, what: Mid) -> Seen {
    let host = "c0.lab";
    let mut c = h2_connect(env, host)?;
    h2_get(&mut c, 1, host, &format!("/i{idx}"), Some(req_no(idx, 0)))?;
    let started = h2_until(&mut c, Instant::now() + Duration::from_secs(3), |c| c.streams.get(&1).map(|s| !s.body.is_empty()).unwrap_or(false));
    let mid = started && !h2_stream_over(&c, 1);
    match what {
        Mid::Abort { reset } => {
            if reset {
                set_linger0(&c.s.sock);
            }
            Ok(mid)
        }
        Mid::ResetStream { then_stream } => {
            let _ = c.send(&Frame::rst(1, h2::CANCEL));
            let mut ok = mid;
            if then_stream {
                h2_get(&mut c, 3, host, &format!("/i{idx}/b"), Some(req_no(idx, 1)))?;
                ok &= h2_until(&mut c, Instant::now() + Duration::from_secs(4), |c| h2_stream_over(c, 3)) && h2_status(&c, 3).as_deref() == Some("200");
            } else {
                std::thread::sleep(Duration::from_millis(100));
            }
            let _ = c.send(&Frame::goaway(0, h2::NO_ERROR));
            Ok(ok)
        }
    }
}

// ------------------------------------------------------------------ scenario

enum Settled {
    /// every gauge is at its baseline (known-finding gauges: within their tolerance and not moving)
    Back,
    /// gauges still off their baseline at the deadline: (name, baseline, now)
    Off(Vec<(String, u64, u64)>),
    /// only tolerated gauges are off, and they were still moving at the deadline
    Unsettled,
}

/// Poll the worker's gauges every 200 ms until they are back at the baseline, for `max` at most.
/// `tolerance(name)`: how far above its baseline a gauge may stay (known findings); with `adopt` the
/// baseline of such a gauge is moved to where it stayed.
fn settle(lab: &mut StormLab, max: Duration, tolerance: &dyn Fn(&str) -> u64, adopt: bool, storm: &str) -> Result<Settled, Failure> {
    let deadline = Instant::now() + max;
    let mut previous: Option<Gauges> = None;
    loop {
        if !lab.h2.worker.alive() {
            return Err(Failure::new("C16/worker-died", format!("the worker thread died during or after the storm ({:?}); storm: {storm}", lab.h2.worker.join())));
        }
        let now = match query_gauges(&mut lab.h2.worker) {
            Ok(g) => g,
            Err(e) => return Err(Failure::new("C16/metrics-unanswered", format!("the worker does not answer QueryMetrics after the storm: {e}; storm: {storm}"))),
        };
        let (within, mut off): (Vec<_>, Vec<_>) = drift(&lab.baseline, &now).into_iter().partition(|(n, b, v)| v > b && v - b <= tolerance(n));
        // the signature names the most telling gauge: sessions, then slab, buffers, backend connections, then by name
        const FIRST: [&str; 5] = ["client.connections", "slab.entries", "buffer.in_use", "backend.connections", "http.active_requests"];
        off.sort_by_key(|(n, _, _)| (FIRST.iter().position(|f| f == n).unwrap_or(FIRST.len()), n.clone()));
        if off.is_empty() {
            if within.is_empty() {
                return Ok(Settled::Back);
            }
            // tolerated drift is accepted once nothing moves any more (every other gauge, client
            // connections included, is at its baseline: no session is left to release anything)
            if previous.as_ref() == Some(&now) {
                if adopt {
                    for (n, _, v) in within {
                        lab.baseline.insert(n, v);
                    }
                    lab.baseline_moved = true;
                }
                return Ok(Settled::Back);
            }
        }
        if Instant::now() >= deadline {
            return Ok(if off.is_empty() { Settled::Unsettled } else { Settled::Off(off) });
        }
        previous = Some(now);
        std::thread::sleep(POLL);
    }
}

pub fn scenario(lab: &mut StormLab, case: &Case) -> CheckResult {
    let mut rep = CaseReport::default();
    if !lab.h2.worker.alive() {
        return Err(Failure::new("C16/worker-died", format!("the worker thread is gone: {:?}", lab.h2.worker.join())));
    }
    // known-finding shapes are kept out unless this is a strict reproducer
    let mut excluded: BTreeSet<&'static str> = BTreeSet::new();
    // gauge-name prefix -> how far above the baseline it may end
    let mut tolerated: BTreeMap<&'static str, u64> = BTreeMap::new();
    let mut strict_shape: Option<&'static str> = None;
    let interactions: Vec<Interaction> = case
        .interactions
        .iter()
        .map(|i| match known_shape(i) {
            Some((name, how)) if !case.strict => {
                excluded.insert(name);
                rep.excluded_known += 1;
                match how {
                    Exclusion::Replace(other) => other,
                    Exclusion::Gauges(prefixes) => {
                        for p in prefixes {
                            *tolerated.entry(p).or_insert(0) += 1;
                        }
                        i.clone()
                    }
                }
            }
            Some((name, _)) => {
                strict_shape.get_or_insert(name);
                i.clone()
            }
            None => i.clone(),
        })
        .collect();
    for name in &excluded {
        rep.class(format!("known_excluded:{name}"));
    }
    let tolerance = |gauge: &str| -> u64 { tolerated.iter().filter(|(p, _)| gauge.starts_with(**p)).map(|(_, n)| *n).max().unwrap_or(0) };

    let (h1_actions, h2s) = plans(case, &interactions);
    lab.h2.reset_plan(h1_actions, ReadScript::default(), h2s);
    let mut env = lab.env;
    env.seed = case.seed;

    // ---- the storm
    let next = AtomicUsize::new(0);
    let held: Held = Mutex::new(vec![]);
    let seen: Mutex<Vec<Option<Seen>>> = Mutex::new(vec![None; interactions.len()]);
    let workers = (case.concurrency.clamp(1, 8) as usize).min(interactions.len().max(1));
    std::thread::scope(|sc| {
        for _ in 0..workers {
            sc.spawn(|| {
                loop {
                    let idx = next.fetch_add(1, Ordering::SeqCst);
                    if idx >= interactions.len() {
                        break;
                    }
                    let r = run_interaction(env, idx, &interactions[idx], &held);
                    seen.lock().unwrap()[idx] = Some(r);
                }
            });
        }
    });
    // every harness client socket is closed now, except those of clients that went idle; stalled mock backends let go
    lab.h2.h1_shared.lock().unwrap().stop_stalls = true;
    let seen: Vec<Seen> = seen.into_inner().unwrap().into_iter().map(|s| s.unwrap_or(Err("not run".into()))).collect();
    let kinds: Vec<String> = interactions
        .iter()
        .zip(&seen)
        .map(|(i, s)| {
            format!(
                "{}{}",
                i.label(),
                match s {
                    Ok(true) => "",
                    Ok(false) => "(ended differently)",
                    Err(_) => "(could not start)",
                }
            )
        })
        .collect();
    let storm = format!("{} interactions, {} at a time: [{}]", interactions.len(), workers, kinds.join(", "));
    if std::env::var("VP_C16_DUMP").is_ok() {
        eprintln!("storm (case seed {}): {storm}; details: {:?}; case: {}", case.seed, seen.iter().filter_map(|s| s.as_ref().err()).collect::<Vec<_>>(), serde_json::to_string(case).unwrap_or_default());
    }

    // ---- phase 1: clients that went idle still hold their sockets, open and silent: the worker's own
    // timeouts have to bring the footprint back
    let mut held = held.into_inner().unwrap();
    let mut moved = false;
    if !held.is_empty() {
        rep.class("idle_sockets_held_open");
        let n = held.len();
        match settle(lab, HELD_WAIT, &tolerance, false, &storm)? {
            Settled::Off(last) => {
                let (name, base, now) = last[0].clone();
                let all: Vec<String> = last.iter().map(|(n, b, v)| format!("{n}: baseline {b}, now {v}")).collect();
                let sig = match strict_shape {
                    Some(shape) => format!("C16/idle-session-not-reclaimed:{name}:{shape}"),
                    None => format!("C16/idle-session-not-reclaimed:{name}"),
                };
                return Err(Failure::new(
                    sig,
                    format!(
                        "{n} client(s) went idle and keep their sockets open and silent; every other socket is closed; {} s later (timeouts: front {FRONT_S} s, back {BACK_S} s, connect {CONNECT_S} s, request {REQUEST_S} s) the worker has not reclaimed them: gauge {name} is at {now}, its value after set-up was {base}; all gauges off their baseline: {}; storm: {storm}",
                        HELD_WAIT.as_secs(),
                        all.join("; ")
                    ),
                ));
            }
            Settled::Back | Settled::Unsettled => {}
        }
        held.clear();
    }
    // ---- phase 2: every harness socket is closed: back to the baseline, exactly
    match settle(lab, QUIESCE, &tolerance, true, &storm)? {
        Settled::Back => {}
        Settled::Unsettled => {
            // only tolerated drift, still moving at the deadline: cannot conclude; the next scenario starts from a fresh worker
            rep.class("lab_dirty");
        }
        Settled::Off(last) => {
            let (name, base, now) = last[0].clone();
            let all: Vec<String> = last.iter().map(|(n, b, v)| format!("{n}: baseline {b}, now {v}")).collect();
            let sig = match strict_shape {
                Some(shape) => format!("C16/not-back-to-baseline:{name}:{shape}"),
                None => format!("C16/not-back-to-baseline:{name}"),
            };
            return Err(Failure::new(
                sig,
                format!(
                    "{} s after every client socket was closed (timeouts: front {FRONT_S} s, back {BACK_S} s, connect {CONNECT_S} s, request {REQUEST_S} s) gauge {name} is at {now}, its value after set-up was {base} ({}); all gauges off their baseline: {}; storm: {storm}",
                    QUIESCE.as_secs(),
                    if now > base { "leak" } else { "negative drift" },
                    all.join("; ")
                ),
            ));
        }
    }
    if lab.baseline_moved {
        lab.baseline_moved = false;
        moved = true;
    }
    rep.class_if(moved, "baseline_moved_by_known_finding");
    let under = underflows();
    if under != lab.baseline_underflows {
        let times = under - lab.baseline_underflows;
        lab.baseline_underflows = under;
        return Err(Failure::new("C16/gauge-underflow", format!("a gauge was decremented below zero (clamped by the metrics drain) {times} time(s) during the storm; storm: {storm}")));
    }

    // ---- the worker still serves every listener
    for (what, r) in lab.probes(false) {
        if let Err(e) = r {
            if what == "per-IP" {
                return Err(Failure::new("C16/per-ip-slot-not-released", format!("after the storm, with every earlier connection closed: {e}; storm: {storm}")));
            }
            return Err(Failure::new(format!("C16/probe-failed:{}", what.to_lowercase()), format!("after the storm a plain request on the {what} listener is not served: {e}; storm: {storm}")));
        }
    }

    // ---- measurement
    let mut abnormal: BTreeSet<&'static str> = BTreeSet::new();
    let mut labels: BTreeSet<String> = BTreeSet::new();
    for (i, s) in interactions.iter().zip(&seen) {
        match s {
            Ok(true) => {
                labels.insert(i.label().to_string());
                if let Some(f) = i.front() {
                    labels.insert(format!("{}:{}", i.label(), match f { Front::H1 => "h1", Front::TlsH1 => "tls_h1", Front::H2 => "h2" }));
                }
                if i.abnormal() {
                    abnormal.insert(i.label());
                }
            }
            Ok(false) => {
                labels.insert(format!("ended_differently:{}", i.label()));
            }
            Err(_) => {
                labels.insert(format!("could_not_start:{}", i.label()));
            }
        }
    }
    for l in labels {
        rep.class(l);
    }
    rep.class_if(workers == 1, "sequential");
    rep.class_if(workers >= 2, "concurrent");
    rep.nontrivial = abnormal.len() >= 2;
    rep.inner_evaluations = interactions.len() as u64;
    Ok(rep)
}

pub fn rule() -> &'static str {
    "a live worker (front timeout 2 s, back 1 s, connect 1 s, request 1 s; zombie sweep configured out of the way) with an HTTP, an HTTPS (ALPN h2 + http/1.1) and two TCP listeners; clusters: HTTP/1.1 mock backend, h2c mock backend, a backend address that refuses, a cluster that admits 2 connections per client address, TCP echo backend, TCP backend that refuses. Baseline = every gauge QueryMetrics reports (proxy, cluster and backend level: client.connections, slab.entries, buffer.in_use, backend.connections, backend.pool.size, connections_per_backend, http.active_requests, protocol.*, h2.connection.*, accept_queue.connections ...; configuration / capacity / health / process gauges left out) once the worker is idle after one warm-up request per listener. A generated storm of 3..25 client interactions, sequential or up to 8 at a time, each ending in its own way: HTTP/1.1 keep-alive requests then close / reset / idle until the proxy's timeout; silent connection (HTTP, HTTPS, TCP listener); half a head then close / reset; client gone in the middle of a response (H1, TLS, H2; FIN / RST); backend silent (504), closing (502), garbage (502), cutting its response, refusing (503) - each behind an H1, TLS-H1 or H2 client; response never read; unknown host (404); HTTP/2 connection with 1..4 streams (H1 or h2c backend); HTTP/2 connection (0..2 streams completed) idle until the proxy's timeout, its socket then kept open and silent; HTTP/2 stream reset mid-response; HTTP/2 client gone mid-response; TLS handshake abandoned at three stages; TCP session closed by client / reset / backend / proxy timeout; TCP cluster whose backend refuses; TLS handshake completed without ALPN h2 on a listener that has HTTP/1.1 disabled (refused after the handshake); websocket upgrade closed by either side; 1..3 simultaneous connections to the per-address limited cluster (third: 429). Phase 1: clients that went idle (HTTP/2 idle, response never read, any connection the proxy's timeout did not close within front timeout + 1.5 s) keep their sockets open and silent, all other sockets are closed: within 2 x front timeout + 3 s the worker's own timeouts must bring every gauge back to the baseline. Phase 2: every harness socket is closed and the gauges are polled every 200 ms for up to front timeout + 4 s. Oracle: all gauges return EXACTLY to the baseline (above = leak, below = negative drift), the metrics drain's gauge-underflow counter did not move, the worker is alive, serves one request per listener, and serves as many simultaneous connections from one address as the limited cluster admits (per-address slots released). A failure is re-run twice on a fresh worker and reported only when it reproduces. Non-trivial: >= 2 different abnormal endings observed in one storm; classes are counted only for interactions that ended the intended way."
}

/// child-process entry: run this shard's scenarios
pub fn child(args: &Args, total: u64) -> Stats {
    lab::init_ports(args.shard.map(|s| s.0).unwrap_or(0));
    let labcell: RefCell<Option<StormLab>> = RefCell::new(None);
    let flaky = std::cell::Cell::new(0u64);
    let run_on = |fresh: bool, case: &Case| -> CheckResult {
        let mut lab = match (fresh, labcell.borrow_mut().take()) {
            (false, Some(l)) => l,
            (_, old) => {
                drop(old);
                StormLab::new()
            }
        };
        let mut r = scenario(&mut lab, case);
        // debugging aid for history-dependent behaviour: VP_C16_REPEAT=n runs the scenario n more times on
        // the same worker, each time preceded by the scenario in the file named by VP_C16_PRE (a Case as JSON)
        if let Some(n) = std::env::var("VP_C16_REPEAT").ok().and_then(|v| v.parse::<u32>().ok()) {
            let pre: Option<Case> = std::env::var("VP_C16_PRE").ok().and_then(|f| std::fs::read_to_string(f).ok()).and_then(|t| serde_json::from_str(&t).ok());
            for i in 0..n {
                if r.is_err() {
                    eprintln!("repeat {i}: failed");
                    break;
                }
                if let Some(p) = &pre {
                    if let Err(f) = scenario(&mut lab, p) {
                        eprintln!("repeat {i}: the preceding scenario failed: {} {}", f.signature, f.message);
                    }
                }
                r = scenario(&mut lab, case);
            }
        }
        // a lab that saw a failure is not reused
        let keep = matches!(&r, Ok(rep) if !rep.classes.iter().any(|c| c == "lab_dirty"));
        *labcell.borrow_mut() = if keep { Some(lab) } else { None };
        r
    };
    let check = |case: &Case| -> CheckResult {
        let first = run_on(false, case);
        let Err(f) = first else { return first };
        // confirm on a fresh worker: report only what reproduces (DESIGN §2.4)
        for _ in 0..2 {
            if let Err(f2) = run_on(true, case) {
                return Err(if f2.signature == f.signature { f2 } else { f });
            }
        }
        flaky.set(flaky.get() + 1);
        engine::note_flaky("C16", &f, &serde_json::to_string(case).unwrap_or_default());
        let mut rep = CaseReport::default();
        rep.class("flaky_unconfirmed");
        Ok(rep)
    };
    let mut st = engine::run_lab_shard(args, "C16", SUB, total, strategy(), check, 10);
    st.flaky_unconfirmed += flaky.get();
    st
}
