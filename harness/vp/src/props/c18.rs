//! C18 — TCP relays are byte-exact and PROXY protocol headers are exact and unique (DESIGN §4 C18).
//!
//! In-process tiers: (a) the PROXY-v2 codec round trip and the parser on arbitrary bytes;
//! (b) `ExpectProxyProtocol<FakeSocket>` fed a generated header (+ TLV tail, + payload) split at
//! generated positions with would-blocks in between. The relay itself (tier c) is a wire-lab check.

use std::{
    collections::VecDeque,
    net::{SocketAddr, TcpListener as StdListener, TcpStream as StdStream},
    time::Duration,
};

use mio::{Token, net::TcpStream};
use proptest::prelude::*;
use rusty_ulid::Ulid;
use serde::{Deserialize, Serialize};
use sozu_lib::{
    SessionMetrics, SessionResult,
    protocol::proxy_protocol::{
        expect::ExpectProxyProtocol,
        header::{Command, HeaderV2, ProxyAddr},
        parser::parse_v2_header,
    },
    socket::{SocketHandler, SocketResult, TransportProtocol},
    timer::TimeoutContainer,
};

use crate::engine::{self, Args, CaseReport, CheckResult, Evidence};

const SIG: [u8; 12] = [0x0D, 0x0A, 0x0D, 0x0A, 0x00, 0x0D, 0x0A, 0x51, 0x55, 0x49, 0x54, 0x0A];

// ------------------------------------------------------------------ (a) codec

#[derive(Clone, Debug, Serialize, Deserialize)]
pub enum CodecCase {
    RoundTrip { local: bool, src: String, dst: String },
    Bytes(Vec<u8>),
}

fn sockaddr() -> impl Strategy<Value = String> {
    prop_oneof![
        (any::<[u8; 4]>(), any::<u16>()).prop_map(|(ip, p)| SocketAddr::from((ip, p)).to_string()),
        (any::<[u16; 8]>(), any::<u16>()).prop_map(|(ip, p)| SocketAddr::from((ip, p)).to_string()),
        Just("127.0.0.1:80".to_string()),
        Just("[::1]:65535".to_string()),
    ]
}

/// a v2 header built by hand from the specification (independent of sozu's encoder)
fn raw_header(cmd: u8, fam: u8, block: &[u8]) -> Vec<u8> {
    let mut v = SIG.to_vec();
    v.push(cmd);
    v.push(fam);
    v.extend_from_slice(&(block.len() as u16).to_be_bytes());
    v.extend_from_slice(block);
    v
}

fn codec_strategy() -> impl Strategy<Value = CodecCase> {
    prop_oneof![
        3 => (any::<bool>(), sockaddr(), sockaddr()).prop_map(|(local, src, dst)| CodecCase::RoundTrip { local, src, dst }),
        2 => prop::collection::vec(any::<u8>(), 0..300).prop_map(CodecCase::Bytes),
        // structured near-misses: valid signature, arbitrary fixed fields and length
        3 => (any::<u8>(), any::<u8>(), prop::collection::vec(any::<u8>(), 0..260), any::<bool>(), prop::collection::vec(any::<u8>(), 0..40))
            .prop_map(|(cmd, fam, block, fix, tail)| {
                let cmd = if fix { 0x20 | (cmd & 1) } else { cmd };
                let fam = if fix { [0x00u8, 0x11, 0x12, 0x21, 0x22, 0x31][(fam % 6) as usize] } else { fam };
                let mut v = raw_header(cmd, fam, &block);
                v.extend_from_slice(&tail);
                CodecCase::Bytes(v)
            }),
    ]
}

/// what the specification says about a byte string that starts with a complete v2 header
struct SpecHeader {
    total: usize,
    cmd: u8,
    fam: u8,
    block: Vec<u8>,
}

fn spec_parse(b: &[u8]) -> Option<SpecHeader> {
    if b.len() < 16 || b[..12] != SIG {
        return None;
    }
    let len = u16::from_be_bytes([b[14], b[15]]) as usize;
    if b.len() < 16 + len {
        return None;
    }
    Some(SpecHeader { total: 16 + len, cmd: b[12], fam: b[13], block: b[16..16 + len].to_vec() })
}

fn check_codec(case: &CodecCase) -> CheckResult {
    let mut rep = CaseReport::default();
    match case {
        CodecCase::RoundTrip { local, src, dst } => {
            let (s, d): (SocketAddr, SocketAddr) = (src.parse().unwrap(), dst.parse().unwrap());
            let cmd = if *local { Command::Local } else { Command::Proxy };
            let h = HeaderV2::new(cmd, s, d);
            let bytes = h.into_bytes();
            let mixed = s.is_ipv4() != d.is_ipv4();
            // independent reading of the encoder's output
            let Some(spec) = spec_parse(&bytes) else {
                fail!("C18/encoder-output-not-a-v2-header", "HeaderV2::into_bytes produced {} bytes that are not a complete v2 header: {:02x?}", bytes.len(), bytes);
            };
            if spec.total != bytes.len() {
                fail!("C18/encoder-length", "encoded header has {} bytes but declares {}", bytes.len(), spec.total);
            }
            if spec.cmd != if *local { 0x20 } else { 0x21 } {
                fail!("C18/encoder-command", "version/command byte {:#x}", spec.cmd);
            }
            if !mixed {
                let want_block: Vec<u8> = match (s, d) {
                    (SocketAddr::V4(a), SocketAddr::V4(b)) => [a.ip().octets().to_vec(), b.ip().octets().to_vec(), a.port().to_be_bytes().to_vec(), b.port().to_be_bytes().to_vec()].concat(),
                    (SocketAddr::V6(a), SocketAddr::V6(b)) => [a.ip().octets().to_vec(), b.ip().octets().to_vec(), a.port().to_be_bytes().to_vec(), b.port().to_be_bytes().to_vec()].concat(),
                    _ => unreachable!(),
                };
                let want_fam = if s.is_ipv4() { 0x11 } else { 0x21 };
                if spec.fam != want_fam || spec.block != want_block {
                    fail!("C18/encoder-addresses", "header for {s} -> {d}: family {:#x} block {:02x?}, specification says family {:#x} block {:02x?}", spec.fam, spec.block, want_fam, want_block);
                }
            }
            match parse_v2_header(&bytes) {
                Ok((rest, back)) => {
                    if !rest.is_empty() {
                        fail!("C18/parser-consumed", "parser left {} bytes of the encoder's own output", rest.len());
                    }
                    if !mixed && (back.addr.source() != Some(s) || back.addr.destination() != Some(d)) {
                        fail!("C18/roundtrip-addresses", "{s} -> {d} came back as {:?} -> {:?}", back.addr.source(), back.addr.destination());
                    }
                    if (back.command == Command::Local) != *local {
                        fail!("C18/roundtrip-command", "command changed in the round trip");
                    }
                }
                Err(e) => fail!("C18/roundtrip-rejected", "parser rejects the encoder's output for {s} -> {d}: {e:?}"),
            }
            rep.nontrivial = true;
            rep.class_if(mixed, "mixed_families");
            rep.class_if(s.is_ipv6(), "ipv6");
            rep.class("roundtrip");
        }
        CodecCase::Bytes(b) => {
            let spec = spec_parse(b);
            match parse_v2_header(b) {
                Ok((rest, h)) => {
                    let consumed = b.len() - rest.len();
                    let Some(spec) = spec else {
                        fail!("C18/parser-accepted-non-header", "parser accepted {} bytes that do not hold a complete v2 header: {:02x?}", b.len(), &b[..b.len().min(40)]);
                    };
                    if consumed != spec.total {
                        fail!("C18/parser-consumed", "parser consumed {consumed} bytes, the header declares 16 + {} = {}", spec.total - 16, spec.total);
                    }
                    if spec.cmd != 0x20 && spec.cmd != 0x21 {
                        fail!("C18/parser-accepted-bad-version-command", "accepted version/command byte {:#x}", spec.cmd);
                    }
                    // addresses equal the block's content
                    let ok = match (&h.addr, spec.fam >> 4) {
                        (ProxyAddr::Ipv4Addr { src_addr, dst_addr }, 1) => {
                            spec.block.len() >= 12
                                && src_addr.ip().octets() == spec.block[0..4]
                                && dst_addr.ip().octets() == spec.block[4..8]
                                && src_addr.port().to_be_bytes() == spec.block[8..10]
                                && dst_addr.port().to_be_bytes() == spec.block[10..12]
                        }
                        (ProxyAddr::Ipv6Addr { src_addr, dst_addr }, 2) => {
                            spec.block.len() >= 36
                                && src_addr.ip().octets() == spec.block[0..16]
                                && dst_addr.ip().octets() == spec.block[16..32]
                                && src_addr.port().to_be_bytes() == spec.block[32..34]
                                && dst_addr.port().to_be_bytes() == spec.block[34..36]
                        }
                        (ProxyAddr::AfUnspec, 0) => true,
                        (ProxyAddr::UnixAddr { .. }, 3) => spec.block.len() >= 216,
                        _ => false,
                    };
                    if !ok {
                        fail!("C18/parser-addresses", "parsed {:?} from family {:#x} block {:02x?}", h.addr, spec.fam, &spec.block[..spec.block.len().min(40)]);
                    }
                    rep.class("bytes_accepted");
                    rep.class_if(spec.total > 16 + 36, "accepted_with_tlv_tail");
                    rep.nontrivial = true;
                }
                Err(_) => {
                    rep.class("bytes_rejected_or_incomplete");
                    rep.class_if(spec.is_some(), "complete_header_rejected");
                    rep.nontrivial = spec.is_some();
                }
            }
        }
    }
    Ok(rep)
}

// ------------------------------------------------------------------ (b) ExpectProxyProtocol<FakeSocket>

#[derive(Clone, Debug, Serialize, Deserialize)]
pub enum Chunk {
    Data(usize),
    WouldBlock,
}

#[derive(Clone, Debug, Serialize, Deserialize)]
pub struct ExpectCase {
    /// 0 = valid header, 1 = bad signature byte, 2 = bad version/command, 3 = unknown family, 4 = declared length > 216 (oversized)
    pub flavour: u8,
    pub local: bool,
    /// 0 UNSPEC, 1 IPv4/TCP, 2 IPv6/TCP, 3 UNIX
    pub family: u8,
    pub addr_bytes: Vec<u8>,
    pub tlv: Vec<u8>,
    pub payload: Vec<u8>,
    pub chunks: Vec<Chunk>,
    pub corrupt_at: u8,
}

fn expect_strategy() -> impl Strategy<Value = ExpectCase> {
    (
        prop_oneof![6 => Just(0u8), 1 => Just(1u8), 1 => Just(2u8), 1 => Just(3u8), 1 => Just(4u8)],
        prop::bool::weighted(0.2),
        prop_oneof![1 => Just(0u8), 4 => Just(1u8), 4 => Just(2u8), 1 => Just(3u8)],
        prop::collection::vec(any::<u8>(), 216..=216),
        prop_oneof![3 => Just(vec![]), 2 => prop::collection::vec(any::<u8>(), 1..60), 1 => prop::collection::vec(any::<u8>(), 60..181)],
        prop_oneof![1 => Just(vec![]), 3 => prop::collection::vec(any::<u8>(), 1..80)],
        prop::collection::vec(prop_oneof![4 => (1usize..40).prop_map(Chunk::Data), 1 => Just(Chunk::WouldBlock), 1 => Just(Chunk::Data(1))], 0..40),
        0u8..12,
    )
        .prop_map(|(flavour, local, family, addr_bytes, tlv, payload, chunks, corrupt_at)| ExpectCase { flavour, local, family, addr_bytes, tlv, payload, chunks, corrupt_at })
}

struct FakeSocket {
    stream: TcpStream,
    _peer: StdStream,
    data: VecDeque<u8>,
    plan: VecDeque<Chunk>,
    taken: usize,
    eof_when_empty: bool,
}

impl SocketHandler for FakeSocket {
    fn socket_read(&mut self, buf: &mut [u8]) -> (usize, SocketResult) {
        if buf.is_empty() {
            return (0, SocketResult::Continue);
        }
        if self.data.is_empty() {
            return if self.eof_when_empty { (0, SocketResult::Closed) } else { (0, SocketResult::WouldBlock) };
        }
        match self.plan.pop_front() {
            Some(Chunk::WouldBlock) => (0, SocketResult::WouldBlock),
            other => {
                let want = match other {
                    Some(Chunk::Data(n)) => n,
                    _ => usize::MAX,
                };
                let n = want.min(buf.len()).min(self.data.len());
                for b in buf.iter_mut().take(n) {
                    *b = self.data.pop_front().unwrap();
                }
                self.taken += n;
                // a short read means the kernel buffer is drained for now
                (n, if n < buf.len() { SocketResult::WouldBlock } else { SocketResult::Continue })
            }
        }
    }
    fn socket_write(&mut self, buf: &[u8]) -> (usize, SocketResult) {
        (buf.len(), SocketResult::Continue)
    }
    fn socket_write_vectored(&mut self, bufs: &[std::io::IoSlice]) -> (usize, SocketResult) {
        (bufs.iter().map(|b| b.len()).sum(), SocketResult::Continue)
    }
    fn socket_ref(&self) -> &TcpStream {
        &self.stream
    }
    fn socket_mut(&mut self) -> &mut TcpStream {
        &mut self.stream
    }
    fn protocol(&self) -> TransportProtocol {
        TransportProtocol::Tcp
    }
    fn read_error(&self) {}
    fn write_error(&self) {}
}

/// One real loopback connection per thread, duplicated per case: the state under test only needs a
/// socket for `socket_ref` (addresses), all bytes come from the scripted `FakeSocket`. A fresh
/// connection per case leaves tens of thousands of TIME_WAIT entries and exhausts the ephemeral
/// ports of 127.0.0.1 for whatever runs next.
fn loopback_pair() -> (TcpStream, StdStream) {
    use std::os::fd::{AsRawFd, FromRawFd};
    thread_local! {
        static PAIR: (StdStream, StdStream) = {
            let l = StdListener::bind("127.0.0.1:0").expect("bind");
            let c = StdStream::connect(l.local_addr().unwrap()).expect("connect");
            let (s, _) = l.accept().expect("accept");
            s.set_nonblocking(true).unwrap();
            (s, c)
        };
    }
    PAIR.with(|(s, c)| {
        let s2 = unsafe { std::net::TcpStream::from_raw_fd(libc::dup(s.as_raw_fd())) };
        let c2 = unsafe { std::net::TcpStream::from_raw_fd(libc::dup(c.as_raw_fd())) };
        (TcpStream::from_std(s2), c2)
    })
}

fn check_expect(case: &ExpectCase) -> CheckResult {
    let mut rep = CaseReport::default();
    let (fam_byte, addr_len) = match case.family {
        0 => (0x00u8, 0usize),
        1 => (0x11, 12),
        2 => (0x21, 36),
        _ => (0x31, 216),
    };
    let mut block = case.addr_bytes[..addr_len].to_vec();
    block.extend_from_slice(&case.tlv);
    let mut cmd = if case.local { 0x20u8 } else { 0x21 };
    let mut fam = fam_byte;
    match case.flavour {
        2 => cmd = 0x11, // version 1 / bad command nibble
        3 => fam = 0x41, // unknown family nibble
        4 => {
            // oversized: more than the largest (unix) address block the window allows
            block.resize(217 + case.tlv.len().min(20), 0xAB);
        }
        _ => {}
    }
    let mut header = raw_header(cmd, fam, &block);
    if case.flavour == 1 {
        let i = (case.corrupt_at as usize) % 12;
        header[i] ^= 0x40;
    }
    let header_len = header.len();
    let mut wire = header.clone();
    wire.extend_from_slice(&case.payload);

    let (stream, peer) = loopback_pair();
    let sock = FakeSocket { stream, _peer: peer, data: wire.iter().copied().collect(), plan: case.chunks.iter().cloned().collect(), taken: 0, eof_when_empty: false };
    let mut st = ExpectProxyProtocol::new(TimeoutContainer::new_empty(Duration::from_secs(5)), sock, Token(1), Ulid::generate());
    let mut metrics = SessionMetrics::new(None);

    let valid = case.flavour == 0;
    let mut verdict = None;
    let mut calls = 0;
    let mut taken_at_verdict = 0;
    // the session loop calls readable() on every readable event until Upgrade / Close
    for _ in 0..600 {
        calls += 1;
        let r = st.readable(&mut metrics);
        let taken = st.frontend.taken;
        match r {
            SessionResult::Continue => {
                if taken >= wire.len() && st.frontend.data.is_empty() {
                    // nothing more will ever arrive: one more event-less call would spin
                    if calls > 300 {
                        break;
                    }
                    if st.frontend.plan.is_empty() {
                        // give it one extra call, then stop
                        let r2 = st.readable(&mut metrics);
                        if !matches!(r2, SessionResult::Continue) {
                            verdict = Some(r2);
                            taken_at_verdict = st.frontend.taken;
                        }
                        break;
                    }
                }
            }
            other => {
                verdict = Some(other);
                taken_at_verdict = taken;
                break;
            }
        }
    }

    let split_inside_header = {
        // did any read boundary fall strictly inside the header?
        let mut pos = 0usize;
        let mut inside = false;
        for c in &case.chunks {
            if let Chunk::Data(n) = c {
                pos += n;
                if pos > 0 && pos < header_len {
                    inside = true;
                }
            }
        }
        inside
    };

    match (valid, case.family) {
        (true, 3) => {
            // AF_UNIX: a well-formed header without IP addresses; accepting or refusing are both admitted
            rep.class("unix_family");
        }
        (true, _) => match verdict {
            Some(SessionResult::Upgrade) => {
                if taken_at_verdict < header_len {
                    fail!("C18/expect-upgrade-before-header-complete", "Upgrade after {taken_at_verdict} bytes, the header has {header_len}");
                }
                let got = st.addresses.as_ref();
                let want_src: Option<SocketAddr> = match case.family {
                    1 => Some(SocketAddr::from(([block[0], block[1], block[2], block[3]], u16::from_be_bytes([block[8], block[9]])))),
                    2 => {
                        let mut ip = [0u8; 16];
                        ip.copy_from_slice(&block[0..16]);
                        Some(SocketAddr::from((ip, u16::from_be_bytes([block[32], block[33]]))))
                    }
                    _ => None,
                };
                let want_dst: Option<SocketAddr> = match case.family {
                    1 => Some(SocketAddr::from(([block[4], block[5], block[6], block[7]], u16::from_be_bytes([block[10], block[11]])))),
                    2 => {
                        let mut ip = [0u8; 16];
                        ip.copy_from_slice(&block[16..32]);
                        Some(SocketAddr::from((ip, u16::from_be_bytes([block[34], block[35]]))))
                    }
                    _ => None,
                };
                let (gs, gd) = (got.and_then(|a| a.source()), got.and_then(|a| a.destination()));
                if gs != want_src || gd != want_dst {
                    fail!("C18/expect-addresses", "header carries {want_src:?} -> {want_dst:?}, the session took {gs:?} -> {gd:?}");
                }
            }
            Some(SessionResult::Close) => {
                fail!(
                    "C18/expect-valid-header-closed",
                    "a well-formed v2 header ({header_len} bytes: family {:#x}, {} TLV bytes) followed by {} payload bytes was refused after {taken_at_verdict} bytes read in {calls} calls; chunks {:?}",
                    fam,
                    case.tlv.len(),
                    case.payload.len(),
                    &case.chunks[..case.chunks.len().min(12)]
                );
            }
            _ => {
                fail!(
                    "C18/expect-never-upgrades",
                    "a well-formed v2 header ({header_len} bytes) fully delivered ({} bytes taken) never produced Upgrade in {calls} calls",
                    st.frontend.taken
                );
            }
        },
        (false, _) => match verdict {
            Some(SessionResult::Upgrade) => {
                fail!("C18/expect-malformed-header-accepted", "flavour {} (1 bad signature, 2 bad version/command, 3 unknown family, 4 oversized): Upgrade after {taken_at_verdict} bytes", case.flavour);
            }
            Some(SessionResult::Close) => {}
            _ => {
                // a malformed header may stay undecided only while bytes that decide it are missing
                let decisive = match case.flavour {
                    1 => 12,
                    2 => 13,
                    3 => header_len,
                    _ => 232,
                };
                if st.frontend.taken >= decisive.min(wire.len()) && wire.len() >= decisive {
                    fail!("C18/expect-malformed-header-not-closed", "flavour {}: {} bytes read (decisive at {decisive}) and the session is still waiting", case.flavour, st.frontend.taken);
                }
            }
        },
    }

    rep.nontrivial = split_inside_header && !case.payload.is_empty();
    rep.class_if(valid, "valid_header");
    rep.class_if(!valid, "malformed_header");
    rep.class_if(!case.tlv.is_empty() && valid, "tlv_tail");
    rep.class_if(split_inside_header, "split_inside_header");
    rep.class_if(!case.payload.is_empty(), "payload_follows");
    rep.class_if(case.chunks.iter().any(|c| matches!(c, Chunk::WouldBlock)), "would_block");
    rep.class_if(taken_at_verdict > header_len && matches!(verdict, Some(SessionResult::Upgrade)), "read_past_header_before_upgrade");
    Ok(rep)
}

pub fn run(args: &Args) -> i32 {
    // child shard of the wire-lab sub-check
    if args.shard.is_some() {
        let total = args.cases(1_200, 20_000);
        let st = super::c18_lab::child(args, total);
        return engine::shard::child_finish(args, &st);
    }
    let mut ev = Evidence::new(args, "exploration");
    ev.rule(super::c18_lab::SUB, super::c18_lab::rule());
    ev.rule(
        "codec",
        "HeaderV2::new(cmd, src, dst).into_bytes() for generated IPv4/IPv6 addresses is read back by an independent byte-level reading of the PROXY v2 specification and by parse_v2_header (same addresses and command, whole output consumed); arbitrary and near-miss byte strings: the parser accepts only a complete v2 header, consumes exactly 16 + declared length, and its addresses equal the block's bytes. Non-trivial: a round trip or a complete header; distinct by case hash.",
    );
    ev.rule(
        "expect",
        "ExpectProxyProtocol over an in-memory socket delivering a hand-built header (UNSPEC/IPv4/IPv6/UNIX, LOCAL/PROXY, TLV tail 0..180 bytes, or a malformed flavour: bad signature, bad version/command, unknown family, oversized) plus payload, in generated read sizes with would-blocks; Upgrade only once the whole header arrived and with the header's addresses, well-formed headers are never refused, malformed ones are closed and never upgraded. Non-trivial: a read boundary inside the header and payload present; distinct by case hash.",
    );
    ev.assume("AF_UNIX headers carry no IP address: both accepting and refusing them is admitted");
    ev.assume("whether payload bytes read together with the header reach the backend is decided by the wire-lab tier (the in-memory socket cannot observe the pipe)");
    ev.floor("expect", "split_inside_header", 0.3);
    ev.floor("expect", "tlv_tail", 0.1);
    engine::run_pbt(&mut ev, args, "codec", args.cases(60_000, 2_000_000), codec_strategy, check_codec);
    engine::run_pbt(&mut ev, args, "expect", args.cases(20_000, 600_000), expect_strategy, check_expect);
    engine::fuzz::corpus_check(&mut ev, args, "corpus", "ppv2", "C18/corpus", &["rejected"], vp_oracles::ppv2);
    engine::fuzz::campaign(&mut ev, args, "fuzz", "ppv2", 3_000_000);
    engine::shard::run_sharded(&mut ev, args, super::c18_lab::SUB, 16, std::time::Duration::from_secs(args.tier.pick(600, 3600)));
    ev.finish()
}
