//! C15 sub `conn` — a valid HTTP/2 conversation through a live worker with ONE generated anomaly or
//! flood; the reaction on the wire is judged by an expectation model written from RFC 9113
//! (§3.4, §4.2, §5.1, §5.1.1, §5.1.2, §5.4, §6.1-§6.10, §8.1.1, §8.2, §10.5).

use std::{
    cell::{Cell, RefCell},
    collections::BTreeMap,
    net::TcpStream,
    sync::Mutex,
    time::{Duration, Instant},
};

use proptest::prelude::*;
use serde::{Deserialize, Serialize};

use super::c15::SUB_CONN;
use crate::{
    engine::{self, Args, CaseReport, CheckResult, Evidence, Failure, Stats},
    lab::{
        self, LabConfig,
        h1::{self, BodyFraming, H1Conn, Kind, ReadOutcome, content, first_mismatch},
        h2::{self, Frame, H2Conn, H2Event, Settings},
        h2lab::{H2Action, H2Lab, H2Shared},
        httplab::BackendAction,
        script::ReadScript,
    },
};

type Conn = H2Conn<rustls::StreamOwned<rustls::ClientConnection, TcpStream>>;

const PE: u32 = h2::PROTOCOL_ERROR;
const FC: u32 = h2::FLOW_CONTROL_ERROR;
const SC: u32 = h2::STREAM_CLOSED;
const FS: u32 = h2::FRAME_SIZE_ERROR;
const REFUSED: u32 = h2::REFUSED_STREAM;
const COMPRESSION: u32 = h2::COMPRESSION_ERROR;
const EYC: u32 = h2::ENHANCE_YOUR_CALM;

/// the bound of the property: reactions, closes and probes within 3 s
const BOUND: Duration = Duration::from_secs(3);
/// the listener's SETTINGS_MAX_CONCURRENT_STREAMS in the "low limit" lab
const LOW_LIMIT: u32 = 4;
/// smallest flood threshold documented in doc/configure.md (h2_max_continuation_frames = 20): from this
/// many flood-class frames on, GOAWAY(ENHANCE_YOUR_CALM) is an admissible answer
const MIN_FLOOD_THRESHOLD: usize = 20;

// ------------------------------------------------------------------ case

#[derive(Clone, Copy, Debug, PartialEq, Eq, Serialize, Deserialize)]
pub enum Phase {
    /// request and response complete before the anomaly (stream closed)
    Done,
    /// HEADERS and half of the body sent before the anomaly, the rest after it
    Open,
    /// whole request sent in the same write as the anomaly (response pending)
    HalfClosed,
}

#[derive(Clone, Debug, Serialize, Deserialize)]
pub struct StreamSpec {
    /// false: cluster c0 (HTTP/1.1 backend); true: cluster c1 (h2c backend)
    pub h2c: bool,
    pub req_len: u16,
    pub resp_len: u16,
    pub phase: Phase,
}

/// which stream an anomalous frame is sent on
#[derive(Clone, Copy, Debug, PartialEq, Eq, Serialize, Deserialize)]
pub enum Sel {
    Zero,
    /// odd id above every id used so far
    Idle,
    /// even id below / above the highest id used
    EvenLow,
    EvenHigh,
    /// odd id below the highest id used that was never opened
    LowerUnused,
    Closed,
    HalfClosed,
    Open,
}

#[derive(Clone, Debug, Serialize, Deserialize)]
pub enum Anomaly {
    /// control: the plain conversation
    None,
    DataOn { sel: Sel, len: u16, end: bool },
    HeadersOn { sel: Sel, end: bool },
    ContinuationAlone { sel: Sel },
    ContinuationOtherStream,
    /// 0 PING, 1 DATA, 2 unknown type, 3 SETTINGS, 4 WINDOW_UPDATE, 5 HEADERS of another stream, 6 RST_STREAM, 7 PRIORITY
    HeaderBlockInterleaved { with: u8 },
    PrioritySelf { sel: Sel, in_headers: bool },
    PriorityLen { sel: Sel, len: u8 },
    WindowZero { sel: Sel },
    WindowOverflow { sel: Sel },
    WindowLen { sel: Sel, len: u8 },
    WindowOnIdle,
    /// 0 ENABLE_PUSH=2, 1 INITIAL_WINDOW_SIZE=2^31, 2 MAX_FRAME_SIZE=16383, 3 MAX_FRAME_SIZE=2^24, 4 ACK with payload,
    /// 5 length 5, 6 length 7, 7 on a stream, 8 unknown identifier (must be ignored)
    Settings { kind: u8 },
    PingLen { len: u8 },
    PingOnStream { sel: Sel },
    Rst { sel: Sel },
    RstLen { sel: Sel, len: u8 },
    GoawayOnStream { sel: Sel },
    /// 0 DATA on an open stream, 1 HEADERS, 2 unknown type on stream 0, 3 unknown type on an open stream, 4 SETTINGS, 5 PING, 6 CONTINUATION
    Oversize { what: u8, extra: u16 },
    PadTooLong { headers: bool },
    UnknownType { typ: u8, sel: Sel, len: u8, flags: u8 },
    /// 0 no :method, 1 two :path, 2 pseudo after regular, 3 uppercase name, 4 connection: close, 5 te: gzip, 6 content-length above DATA,
    /// 7 content-length below DATA, 8 no :path, 9 :status in a request, 10 no :scheme, 11 empty :path, 12 transfer-encoding: chunked,
    /// 13 upgrade, 14 CR LF inside a value
    Malformed { kind: u8 },
    HeaderListOver { single: bool },
    HeaderListLarge { kb: u8 },
    OverLimit { extra: u8 },
    /// after the client's GOAWAY: 0 a new request, 1 PING, 2 DATA on the open stream, 3 nothing
    AfterGoaway { what: u8 },
    Truncated { typ: u8, declared: u16, present: u16, reset: bool },
    /// 0 one byte of the magic changed, 1 an HTTP/1.1 request, 2 magic then PING, 3 magic then SETTINGS ACK, 4 magic then SETTINGS on stream 1,
    /// 5 magic then SETTINGS of length 5, 6 magic then HEADERS
    BadPreface { kind: u8, pos: u8 },
    /// 0 PING, 1 SETTINGS, 2 empty DATA, 3 rapid reset, 4 CONTINUATION with tiny fragments, 5 zero-length header fragments, 6 WINDOW_UPDATE on the connection
    Flood { kind: u8, n: u16 },
}

impl Anomaly {
    pub fn family(&self) -> &'static str {
        use Anomaly::*;
        match self {
            None => "control",
            DataOn { .. } | HeadersOn { .. } | WindowOnIdle => "stream_state",
            ContinuationAlone { .. } | ContinuationOtherStream | HeaderBlockInterleaved { .. } => "continuation",
            PrioritySelf { .. } | PriorityLen { .. } => "priority",
            WindowZero { .. } | WindowOverflow { .. } | WindowLen { .. } => "window_update",
            Settings { .. } => "settings",
            PingLen { .. } | PingOnStream { .. } => "ping",
            Rst { .. } | RstLen { .. } | GoawayOnStream { .. } => "rst_goaway",
            Oversize { .. } | PadTooLong { .. } => "frame_size_padding",
            UnknownType { .. } => "unknown_type",
            Malformed { .. } => "request_malformed",
            HeaderListOver { .. } | HeaderListLarge { .. } => "header_list",
            OverLimit { .. } => "concurrency",
            AfterGoaway { .. } => "after_goaway",
            Truncated { .. } => "truncated",
            BadPreface { .. } => "preface",
            Flood { .. } => "flood",
        }
    }

    pub fn label(&self) -> String {
        use Anomaly::*;
        match self {
            None => "none".into(),
            DataOn { sel, .. } => format!("data-on-{sel:?}"),
            HeadersOn { sel, end } => format!("headers-on-{sel:?}{}", if *sel == Sel::Open { if *end { "-trailers" } else { "-no-end-stream" } } else { "" }),
            ContinuationAlone { sel } => format!("continuation-alone-{sel:?}"),
            ContinuationOtherStream => "continuation-other-stream".into(),
            HeaderBlockInterleaved { with } => format!("header-block-interleaved-{}", ["ping", "data", "unknown", "settings", "window-update", "headers", "rst", "priority"][(*with as usize).min(7)]),
            PrioritySelf { in_headers, .. } => format!("priority-self{}", if *in_headers { "-in-headers" } else { "" }),
            PriorityLen { .. } => "priority-length".into(),
            WindowZero { sel } => format!("window-update-zero-{}", if *sel == Sel::Zero { "connection" } else { "stream" }),
            WindowOverflow { sel } => format!("window-update-overflow-{}", if *sel == Sel::Zero { "connection" } else { "stream" }),
            WindowLen { .. } => "window-update-length".into(),
            WindowOnIdle => "window-update-on-idle".into(),
            Settings { kind } => format!("settings-{}", ["enable-push-2", "initial-window-2^31", "max-frame-16383", "max-frame-2^24", "ack-with-payload", "length-5", "length-7", "on-stream", "unknown-id"][(*kind as usize).min(8)]),
            PingLen { .. } => "ping-length".into(),
            PingOnStream { .. } => "ping-on-stream".into(),
            Rst { sel } => format!("rst-on-{sel:?}"),
            RstLen { .. } => "rst-length".into(),
            GoawayOnStream { .. } => "goaway-on-stream".into(),
            Oversize { what, .. } => format!("oversize-{}", ["data", "headers", "unknown-stream0", "unknown-open-stream", "settings", "ping", "continuation"][(*what as usize).min(6)]),
            PadTooLong { headers } => format!("pad-too-long-{}", if *headers { "headers" } else { "data" }),
            UnknownType { sel, .. } => format!("unknown-type-on-{sel:?}"),
            Malformed { kind } => format!(
                "malformed-{}",
                ["no-method", "two-paths", "pseudo-after-regular", "uppercase-name", "connection-header", "te-gzip", "content-length-above-data", "content-length-below-data", "no-path", "status-in-request", "no-scheme", "empty-path", "transfer-encoding", "upgrade", "crlf-in-value"][(*kind as usize).min(14)]
            ),
            HeaderListOver { single } => format!("header-list-over-advertised-{}", if *single { "one-field" } else { "many-fields" }),
            HeaderListLarge { .. } => "header-list-large-below-advertised".into(),
            OverLimit { .. } => "over-max-concurrent-streams".into(),
            AfterGoaway { what } => format!("after-client-goaway-{}", ["request", "ping", "data", "nothing"][(*what as usize).min(3)]),
            Truncated { .. } => "truncated-frame-then-close".into(),
            BadPreface { kind, .. } => format!("bad-preface-{}", ["magic-byte", "http1-request", "ping-first", "settings-ack-first", "settings-on-stream", "settings-length-5", "headers-first"][(*kind as usize).min(6)]),
            Flood { kind, n } => format!("flood-{}-{n}", ["ping", "settings", "empty-data", "rapid-reset", "continuation-tiny", "zero-length-header-fragments", "window-update", "padded-empty-data"][(*kind as usize).min(7)]),
        }
    }

    /// phases the skeleton must contain for the anomaly to hit the state it names
    fn needs(&self) -> Vec<Phase> {
        use Anomaly::*;
        let of = |s: &Sel| match s {
            Sel::Closed => vec![Phase::Done],
            Sel::HalfClosed => vec![Phase::HalfClosed],
            Sel::Open => vec![Phase::Open],
            Sel::LowerUnused | Sel::EvenLow => vec![Phase::Done],
            _ => vec![],
        };
        match self {
            DataOn { sel, .. } | HeadersOn { sel, .. } | ContinuationAlone { sel } | PrioritySelf { sel, in_headers: false } | PriorityLen { sel, .. } | WindowZero { sel } | WindowOverflow { sel } | WindowLen { sel, .. } | PingOnStream { sel } | Rst { sel } | RstLen { sel, .. } | GoawayOnStream { sel } | UnknownType { sel, .. } => of(sel),
            Oversize { what: 0 | 3, .. } | PadTooLong { headers: false } | AfterGoaway { what: 2 } | Flood { kind: 2 | 7, .. } => vec![Phase::Open],
            HeaderBlockInterleaved { with: 1 } => vec![Phase::Open],
            _ => vec![],
        }
    }

    /// connection-level anomalies that make sense before any stream exists (injected with the client preface)
    fn early_ok(&self) -> bool {
        use Anomaly::*;
        match self {
            Settings { .. } | PingLen { .. } | WindowOnIdle | ContinuationOtherStream => true,
            DataOn { sel, .. } | ContinuationAlone { sel } | PingOnStream { sel } | Rst { sel } | GoawayOnStream { sel } | UnknownType { sel, .. } | WindowZero { sel } | WindowOverflow { sel } | WindowLen { sel, .. } => matches!(sel, Sel::Zero | Sel::Idle | Sel::EvenHigh),
            Oversize { what, .. } => matches!(what, 2 | 4 | 5),
            Flood { kind, .. } => matches!(kind, 0 | 1 | 6),
            _ => false,
        }
    }
}

#[derive(Clone, Debug, Serialize, Deserialize)]
pub struct Case {
    pub seed: u64,
    pub streams: Vec<StreamSpec>,
    pub anomaly: Anomaly,
    /// inject in the same write as the client preface and SETTINGS (state: settings exchange)
    pub early: bool,
    /// the listener advertises SETTINGS_MAX_CONCURRENT_STREAMS = 4 instead of the default 100
    pub low_limit: bool,
    /// replay of a known finding: do not excuse the known shape
    #[serde(default)]
    pub strict: bool,
}

// ------------------------------------------------------------------ generator

fn pick<T: Copy>(x: u32, from: &[T]) -> T {
    from[engine::pick_idx(x, from.len())]
}

fn sel_of(from: &'static [Sel]) -> impl Strategy<Value = Sel> {
    any::<u32>().prop_map(move |x| pick(x, from))
}

fn flood_n() -> impl Strategy<Value = u16> {
    any::<u32>().prop_map(|x| pick(x, &[8u16, 50, 200, 2000]))
}

fn anomaly() -> impl Strategy<Value = Anomaly> {
    use Anomaly::*;
    use Sel::*;
    let stream_state = prop_oneof![
        3 => (sel_of(&[Idle, EvenLow, EvenHigh, Closed, HalfClosed, Zero, LowerUnused]), prop_oneof![Just(0u16), 1u16..200], any::<bool>()).prop_map(|(sel, len, end)| DataOn { sel, len, end }),
        3 => (sel_of(&[EvenLow, EvenHigh, LowerUnused, Closed, HalfClosed, Open]), any::<bool>()).prop_map(|(sel, end)| HeadersOn { sel, end }),
        1 => Just(WindowOnIdle),
    ];
    let continuation = prop_oneof![
        2 => sel_of(&[Open, Idle, HalfClosed, Closed, Zero]).prop_map(|sel| ContinuationAlone { sel }),
        1 => Just(ContinuationOtherStream),
        3 => (0u8..8).prop_map(|with| HeaderBlockInterleaved { with }),
    ];
    let priority = prop_oneof![
        2 => (sel_of(&[Open, Idle, HalfClosed, Closed]), any::<bool>()).prop_map(|(sel, in_headers)| PrioritySelf { sel, in_headers }),
        1 => (sel_of(&[Open, Idle, HalfClosed]), prop_oneof![Just(4u8), Just(6u8), Just(0u8), 0u8..40]).prop_map(|(sel, len)| PriorityLen { sel, len: if len == 5 { 4 } else { len } }),
    ];
    let window = prop_oneof![
        3 => sel_of(&[Zero, Open, HalfClosed, Idle]).prop_map(|sel| WindowZero { sel }),
        3 => sel_of(&[Zero, Open, HalfClosed]).prop_map(|sel| WindowOverflow { sel }),
        1 => (sel_of(&[Zero, Open]), prop_oneof![Just(3u8), Just(5u8), Just(0u8), Just(8u8)]).prop_map(|(sel, len)| WindowLen { sel, len }),
    ];
    let settings = (0u8..9).prop_map(|kind| Settings { kind });
    let ping = prop_oneof![
        2 => prop_oneof![Just(0u8), Just(7u8), Just(9u8), Just(16u8), 0u8..40].prop_map(|len| PingLen { len: if len == 8 { 7 } else { len } }),
        1 => sel_of(&[Open, Idle, HalfClosed]).prop_map(|sel| PingOnStream { sel }),
    ];
    let rst_goaway = prop_oneof![
        2 => sel_of(&[Idle, Zero, EvenHigh]).prop_map(|sel| Rst { sel }),
        1 => (sel_of(&[Open, HalfClosed]), prop_oneof![Just(3u8), Just(5u8), Just(0u8), Just(8u8)]).prop_map(|(sel, len)| RstLen { sel, len }),
        1 => sel_of(&[Open, Idle, HalfClosed]).prop_map(|sel| GoawayOnStream { sel }),
    ];
    let frame_size = prop_oneof![
        4 => (0u8..7, prop_oneof![Just(0u16), Just(1u16), Just(8u16), 0u16..4000]).prop_map(|(what, extra)| Oversize { what, extra }),
        1 => any::<bool>().prop_map(|headers| PadTooLong { headers }),
    ];
    let unknown = (prop_oneof![10u8..16, 17u8..=255], sel_of(&[Zero, Open, Idle, HalfClosed, Closed]), 0u8..100, any::<u8>()).prop_map(|(typ, sel, len, flags)| UnknownType { typ, sel, len, flags });
    let malformed = (0u8..15).prop_map(|kind| Malformed { kind });
    let header_list = prop_oneof![2 => any::<bool>().prop_map(|single| HeaderListOver { single }), 1 => (17u8..60).prop_map(|kb| HeaderListLarge { kb })];
    let over = (1u8..5).prop_map(|extra| OverLimit { extra });
    let after = (0u8..4).prop_map(|what| AfterGoaway { what });
    let truncated = (prop_oneof![0u8..10, any::<u8>()], prop_oneof![Just(8u16), 1u16..200, 200u16..16384], any::<u16>(), any::<bool>()).prop_map(|(typ, declared, p, reset)| Truncated { typ, declared, present: p % declared.max(1), reset });
    let preface = (0u8..7, 0u8..24).prop_map(|(kind, pos)| BadPreface { kind, pos });
    let flood = (0u8..8, flood_n()).prop_map(|(kind, n)| Flood { kind, n });
    prop_oneof![
        1 => Just(None),
        4 => stream_state,
        3 => continuation,
        2 => priority,
        3 => window,
        3 => settings,
        2 => ping,
        2 => rst_goaway,
        2 => frame_size,
        2 => unknown,
        3 => malformed,
        1 => header_list,
        1 => over,
        1 => after,
        1 => truncated,
        1 => preface,
        4 => flood,
    ]
}

fn stream_spec() -> impl Strategy<Value = StreamSpec> {
    (any::<bool>(), prop_oneof![Just(0u16), 1u16..64, 64u16..3000], prop_oneof![Just(0u16), 1u16..64, 64u16..3000], any::<u32>()).prop_map(|(h2c, req_len, resp_len, p)| StreamSpec { h2c, req_len, resp_len, phase: pick(p, &[Phase::Open, Phase::HalfClosed, Phase::Done]) })
}

/// make the skeleton contain the stream states the anomaly names (construction, not filtering)
pub fn normalize(mut case: Case) -> Case {
    for need in case.anomaly.needs() {
        if !case.streams.iter().any(|s| s.phase == need) {
            if case.streams.len() < 3 {
                case.streams.push(StreamSpec { h2c: case.seed & 1 == 1, req_len: 40, resp_len: 40, phase: need });
            } else {
                let k = (case.seed % 3) as usize;
                case.streams[k].phase = need;
            }
        }
    }
    match case.anomaly {
        Anomaly::OverLimit { .. } => {
            case.low_limit = true;
            for s in case.streams.iter_mut() {
                s.phase = Phase::Done;
            }
        }
        Anomaly::BadPreface { .. } => case.streams.clear(),
        Anomaly::HeadersOn { sel: Sel::Open, end: true } => {
            // request trailers toward the HTTP/1.1 backend: suspected framing defect outside this property (see `build`)
            if super::c15::steer(false) {
                if let Some(s) = case.streams.iter_mut().find(|s| s.phase == Phase::Open) {
                    s.h2c = true;
                }
            }
        }
        _ => {}
    }
    if case.early && !(case.anomaly.early_ok()) {
        case.early = false;
    }
    if case.early {
        case.streams.clear();
    }
    case
}

pub fn strategy() -> impl Strategy<Value = Case> {
    (any::<u64>(), prop::collection::vec(stream_spec(), 0..=3), anomaly(), prop::bool::weighted(0.3), prop::bool::weighted(0.35))
        .prop_map(|(seed, streams, anomaly, early, low_limit)| normalize(Case { seed, streams, anomaly, early, low_limit, strict: false }))
}

// ------------------------------------------------------------------ expectation model (RFC 9113)

/// The admissible reactions to one anomaly.
#[derive(Clone, Debug, Default)]
struct Expect {
    /// no visible reaction: the frame is ignored / the conversation is served normally
    ignore: bool,
    /// RST_STREAM on the target stream with one of these codes
    rst: Vec<u32>,
    rst_any: bool,
    /// GOAWAY with one of these codes, then close
    goaway: Vec<u32>,
    /// an HTTP error status (4xx / 5xx) on the target stream (RFC 9113 8.1.1: "a server MAY send an HTTP response")
    status_err: bool,
    /// closing the connection without GOAWAY
    close_silently: bool,
    /// the RFC does not constrain the reaction
    any: bool,
    /// the stream a stream error would be signalled on
    target: Option<u32>,
    /// the target is a well-formed request: when the anomaly is ignored it must be answered by the backend (2xx)
    target_served: bool,
    /// a 2xx answer on the target means a request that must be refused was served
    never_2xx: bool,
    /// ignoring is admissible only when the target stream was complete by the time sozu saw the frame (close race, RFC 9113 5.1 "closed")
    ignore_if_target_done: bool,
}

impl Expect {
    fn conn(codes: &[u32]) -> Expect {
        Expect { goaway: codes.to_vec(), ..Default::default() }
    }
    /// stream error on `id` (RFC 9113 5.4.1: an endpoint MAY treat a stream error as a connection error)
    fn stream(id: u32, codes: &[u32]) -> Expect {
        Expect { rst: codes.to_vec(), goaway: codes.to_vec(), target: Some(id), ..Default::default() }
    }
    fn ignored() -> Expect {
        Expect { ignore: true, ..Default::default() }
    }
    fn describe(&self) -> String {
        let mut v = vec![];
        if self.any {
            return "anything but a crash or a wedge".into();
        }
        if self.ignore {
            v.push("ignored / served normally".to_string());
        }
        if self.ignore_if_target_done {
            v.push("ignored if the stream had completed".to_string());
        }
        if self.rst_any {
            v.push("RST_STREAM".to_string());
        } else if !self.rst.is_empty() {
            v.push(format!("RST_STREAM{:?}", self.rst));
        }
        if !self.goaway.is_empty() {
            v.push(format!("GOAWAY{:?}", self.goaway));
        }
        if self.status_err {
            v.push("HTTP 4xx/5xx".to_string());
        }
        if self.close_silently {
            v.push("close".to_string());
        }
        v.join(" | ")
    }
}

#[derive(Clone, Debug, PartialEq)]
enum Reaction {
    Ignored,
    Rst(u32),
    Goaway(u32),
    Closed,
    Status(u16),
}

impl Reaction {
    fn label(&self) -> String {
        match self {
            Reaction::Ignored => "ignored_or_served".into(),
            Reaction::Rst(c) => format!("rst_stream_{c}"),
            Reaction::Goaway(c) => format!("goaway_{c}"),
            Reaction::Closed => "closed_without_goaway".into(),
            Reaction::Status(s) => format!("http_{s}"),
        }
    }
}

fn admissible(e: &Expect, r: &Reaction, target_done: bool) -> bool {
    if e.any {
        return true;
    }
    match r {
        Reaction::Ignored => e.ignore || (e.ignore_if_target_done && target_done),
        Reaction::Rst(c) => e.rst_any || e.rst.contains(c),
        Reaction::Goaway(c) => e.goaway.contains(c),
        Reaction::Closed => e.close_silently,
        Reaction::Status(s) => {
            if (200..300).contains(s) {
                e.ignore && !e.never_2xx
            } else {
                e.status_err
            }
        }
    }
}

// ------------------------------------------------------------------ wire helpers

/// state of the streams of the skeleton on this connection
struct Skel {
    ids: Vec<u32>,
    /// next unused odd stream id (above every id used)
    next_id: u32,
}

#[derive(Clone, Copy, Debug, PartialEq)]
enum St {
    Zero,
    Idle,
    EvenIdle,
    LowerUnused,
    Closed,
    HalfClosed,
    Open,
}

impl Skel {
    fn take_id(&mut self) -> u32 {
        let id = self.next_id;
        self.next_id += 2;
        id
    }
    fn highest_used(&self) -> u32 {
        self.next_id.saturating_sub(2)
    }
    /// stream id and actual state for a selector; selectors outside `allowed` or without a matching stream fall back
    fn resolve(&self, case: &Case, sel: Sel, allowed: &[Sel], fallback: Sel) -> (u32, St) {
        let sel = if allowed.contains(&sel) { sel } else { fallback };
        let by_phase = |p: Phase| case.streams.iter().position(|s| s.phase == p).and_then(|i| self.ids.get(i).copied());
        let r = match sel {
            Sel::Zero => Some((0, St::Zero)),
            Sel::Idle => Some((self.next_id + 8, St::Idle)),
            Sel::EvenLow => Some((2, St::EvenIdle)),
            Sel::EvenHigh => Some((self.next_id + 9, St::EvenIdle)),
            Sel::LowerUnused => {
                if self.highest_used() > 1 && !self.ids.contains(&1) {
                    Some((1, St::LowerUnused))
                } else {
                    None
                }
            }
            Sel::Closed => by_phase(Phase::Done).map(|id| (id, St::Closed)),
            Sel::HalfClosed => by_phase(Phase::HalfClosed).map(|id| (id, St::HalfClosed)),
            Sel::Open => by_phase(Phase::Open).map(|id| (id, St::Open)),
        };
        match r {
            Some(x) => x,
            None => match fallback {
                Sel::EvenHigh => (self.next_id + 9, St::EvenIdle),
                Sel::Zero => (0, St::Zero),
                _ => (self.next_id + 8, St::Idle),
            },
        }
    }
}

fn enc(typ: u8, flags: u8, stream: u32, payload: Vec<u8>) -> Vec<u8> {
    Frame::new(typ, flags, stream, payload).encode()
}

fn request_headers(h2c: bool, path: &str, lab_req: usize) -> Vec<(String, String)> {
    vec![
        (":method".to_string(), "POST".to_string()),
        (":scheme".to_string(), "https".to_string()),
        (":authority".to_string(), if h2c { "c1.lab" } else { "c0.lab" }.to_string()),
        (":path".to_string(), path.to_string()),
        ("x-lab-req".to_string(), lab_req.to_string()),
    ]
}

/// what was seen on the abusive connection
#[derive(Default)]
struct Wire {
    goaways: Vec<(u32, u32)>,
    goaway_at: Option<Instant>,
    closed: bool,
    closed_at: Option<Instant>,
    write_failed: bool,
    /// the connection ended with a TCP reset (sozu closed while bytes of ours were unread)
    reset: bool,
    /// a GOAWAY was recovered from the socket after the reset
    salvaged: bool,
}

#[derive(Clone, Copy, Debug, PartialEq)]
enum End {
    Stop,
    Closed,
    Timeout,
}

/// read frames until `stop` says so, the connection ends or the deadline passes
fn pump(c: &mut Conn, w: &mut Wire, deadline: Instant, stop: &mut dyn FnMut(&Conn, Option<&Frame>) -> bool) -> End {
    if stop(c, None) {
        return End::Stop;
    }
    loop {
        if w.closed {
            return End::Closed;
        }
        match c.next_frame((Instant::now() + Duration::from_millis(25)).min(deadline)) {
            H2Event::Frame(f) => {
                if f.typ == h2::GOAWAY {
                    w.goaways.push((f.u32_at(0).unwrap_or(0) & 0x7fff_ffff, f.u32_at(4).unwrap_or(0)));
                    w.goaway_at.get_or_insert(Instant::now());
                }
                if stop(c, Some(&f)) {
                    return End::Stop;
                }
            }
            ev @ (H2Event::Eof | H2Event::Reset) => {
                if matches!(ev, H2Event::Reset) {
                    w.reset = true;
                    salvage(c, w);
                }
                w.closed = true;
                w.closed_at = Some(Instant::now());
                return End::Closed;
            }
            H2Event::Timeout => {
                if Instant::now() >= deadline {
                    return End::Timeout;
                }
            }
        }
    }
}

/// After a failed write rustls reports the write error from every `read` (it flushes first), so frames sozu
/// sent before closing - typically the GOAWAY - would stay unread in the socket: read the TLS records directly.
fn salvage(c: &mut Conn, w: &mut Wire) {
    use std::io::Read;
    let mut plain = vec![];
    for _ in 0..64 {
        match c.s.conn.read_tls(&mut c.s.sock) {
            Ok(0) | Err(_) => break,
            Ok(_) => {
                if c.s.conn.process_new_packets().is_err() {
                    break;
                }
                let mut tmp = [0u8; 16384];
                while let Ok(n) = c.s.conn.reader().read(&mut tmp) {
                    if n == 0 {
                        break;
                    }
                    plain.extend_from_slice(&tmp[..n]);
                }
            }
        }
    }
    let mut pos = 0;
    while let Some((f, used)) = h2::parse_frame(&plain[pos..]) {
        pos += used;
        c.log.push((f.typ, f.flags, f.stream, f.payload.len()));
        if f.typ == h2::GOAWAY {
            let g = (f.u32_at(0).unwrap_or(0) & 0x7fff_ffff, f.u32_at(4).unwrap_or(0));
            w.goaways.push(g);
            w.goaway_at.get_or_insert(Instant::now());
            c.goaway = Some(g);
            w.salvaged = true;
        }
    }
}

fn write(c: &mut Conn, w: &mut Wire, bytes: &[u8]) {
    if bytes.is_empty() || w.closed {
        return;
    }
    if c.write_raw(bytes).is_err() {
        w.write_failed = true;
    }
}

/// read until nothing has arrived for `quiet` (bounded)
fn settle(c: &mut Conn, w: &mut Wire, quiet: Duration) {
    let hard = Instant::now() + Duration::from_millis(600);
    loop {
        let mut got = false;
        let end = pump(c, w, (Instant::now() + quiet).min(hard), &mut |_, f| {
            if f.is_some() {
                got = true;
            }
            f.is_some()
        });
        if end != End::Stop || !got || Instant::now() >= hard {
            return;
        }
    }
}

fn stream_finished(c: &Conn, id: u32) -> bool {
    c.streams.get(&id).map(|s| s.end_stream || s.reset.is_some()).unwrap_or(false)
}

fn status_of(c: &Conn, id: u32) -> Option<u16> {
    c.streams.get(&id).filter(|s| s.headers_done).and_then(|s| h2::hdr(&s.headers, ":status")).and_then(|v| v.parse().ok())
}

/// after a GOAWAY with an error code sozu must close the connection within the bound
fn expect_close(c: &mut Conn, w: &mut Wire, what: &str) -> Result<(), Failure> {
    let from = w.goaway_at.unwrap_or_else(Instant::now);
    let end = pump(c, w, from + BOUND, &mut |_, _| false);
    if end != End::Closed {
        return Err(Failure::new("C15/connection-not-closed-after-goaway", format!("{what}: sozu sent GOAWAY {:?} and did not close the TCP connection within 3 s", w.goaways)));
    }
    Ok(())
}

// ------------------------------------------------------------------ probes

fn probe_h2(lab: &H2Lab, seed: u64, k: usize) -> Result<(), String> {
    let started = Instant::now();
    let mut c = lab.h2_client("c0.lab", Settings::default())?;
    c.replenish(0);
    let id = 1;
    let body = content(seed ^ (0xC000 + k as u64), 16);
    c.send_headers(id, &request_headers(false, "/probe", 900 + k), false, None).map_err(|e| format!("probe write: {e}"))?;
    c.send(&Frame::data(id, &body, true, None)).map_err(|e| format!("probe write: {e}"))?;
    let mut w = Wire::default();
    let end = pump(&mut c, &mut w, started + BOUND, &mut |c, _| stream_finished(c, id));
    let st = c.streams.get(&id).cloned().unwrap_or_default();
    let _ = c.send(&Frame::goaway(0, h2::NO_ERROR));
    if end != End::Stop {
        return Err(format!("HTTP/2 probe: no complete response within 3 s ({end:?}; GOAWAY {:?}; {} body bytes, headers {:?})", w.goaways, st.body.len(), st.headers));
    }
    if let Some(code) = st.reset {
        return Err(format!("HTTP/2 probe: stream reset with code {code}"));
    }
    let want = content(seed ^ (0xD000 + k as u64), 24);
    if h2::hdr(&st.headers, ":status").as_deref() != Some("200") || st.body != want {
        return Err(format!("HTTP/2 probe: status {:?}, {} body bytes (expected 200 and 24 bytes)", h2::hdr(&st.headers, ":status"), st.body.len()));
    }
    Ok(())
}

fn probe_h1(lab: &H2Lab, seed: u64, k: usize) -> Result<(), String> {
    let started = Instant::now();
    let mut s = h1::connect(lab.http_addr, Duration::from_secs(2)).map_err(|e| format!("HTTP/1.1 probe: connect: {e}"))?;
    let req = h1::build_head("GET /probe HTTP/1.1", &[("Host".to_string(), "c0.lab".to_string()), ("x-lab-req".to_string(), (900 + k).to_string())]);
    h1::write_all(&mut s, &req).map_err(|e| format!("HTTP/1.1 probe: write: {e}"))?;
    let mut c = H1Conn::new(s);
    match c.next_message(Kind::Response { head_request: false }, started + BOUND) {
        ReadOutcome::Message(m) => {
            let want = content(seed ^ (0xD000 + k as u64), 24);
            if m.status() != Some(200) || m.body != want || m.end != h1::End::Clean {
                return Err(format!("HTTP/1.1 probe: {:?} with {} body bytes, end {:?} (expected 200 and 24 bytes)", m.start_line, m.body.len(), m.end));
            }
            Ok(())
        }
        other => Err(format!("HTTP/1.1 probe: {}", h1::describe(&other))),
    }
}

fn probes(lab: &H2Lab, seed: u64, when: &str, k: usize) -> Result<(), Failure> {
    if let Err(e) = probe_h2(lab, seed, k) {
        return Err(Failure::new(format!("C15/probe-not-served:{when}"), e));
    }
    if let Err(e) = probe_h1(lab, seed, k + 1) {
        return Err(Failure::new(format!("C15/probe-not-served:{when}"), e));
    }
    Ok(())
}

// ------------------------------------------------------------------ the anomaly on the wire + its expectation

#[derive(Default)]
struct Injection {
    bytes: Vec<u8>,
    expect: Expect,
    /// flood-class frames in `bytes` (counted against the documented thresholds)
    flood_frames: usize,
    /// a skeleton stream whose request the anomaly itself completed (valid trailers)
    ended: Option<u32>,
    /// SETTINGS / PING frames in `bytes` that must each be acknowledged when the connection goes on
    want_settings_acks: usize,
    want_ping_acks: usize,
    /// drop the connection right after the write (Some(true): with RST)
    close_after: Option<bool>,
    /// state of the stream the anomaly was sent on (class label)
    state: Option<St>,
    /// streams opened by the anomaly that are reset by the harness itself (rapid reset)
    own_resets: Vec<u32>,
    /// the case falls in the shape of a recorded finding: only the ALWAYS oracles apply (non-strict cases)
    known: Option<&'static str>,
}

fn filler(seed: u64, n: usize) -> String {
    String::from_utf8(content(seed ^ 0xF111, n)).unwrap_or_default()
}

/// HEADERS (+ CONTINUATION) frames for a block cut at the given fragment lengths (the last fragment takes the rest)
fn block_frames(stream: u32, block: &[u8], end_stream: bool, cuts: &[usize]) -> (Vec<u8>, usize) {
    let mut out = vec![];
    let mut pos = 0;
    let mut frames = 0;
    let mut parts: Vec<&[u8]> = vec![];
    for c in cuts {
        let n = (*c).min(block.len() - pos);
        parts.push(&block[pos..pos + n]);
        pos += n;
    }
    parts.push(&block[pos..]);
    let last = parts.len() - 1;
    for (i, p) in parts.iter().enumerate() {
        let mut flags = if i == last { h2::F_END_HEADERS } else { 0 };
        if i == 0 && end_stream {
            flags |= h2::F_END_STREAM;
        }
        out.extend(enc(if i == 0 { h2::HEADERS } else { h2::CONTINUATION }, flags, stream, p.to_vec()));
        frames += 1;
    }
    (out, frames - 1)
}

fn build(case: &Case, c: &mut Conn, sk: &mut Skel, max_frame: usize) -> Injection {
    use Anomaly::*;
    let mut inj = Injection::default();
    let h2c = case.seed & 2 == 2;
    match &case.anomaly {
        None => inj.expect = Expect::ignored(),
        DataOn { sel, len, end } => {
            let (id, st) = sk.resolve(case, *sel, &[Sel::Idle, Sel::EvenLow, Sel::EvenHigh, Sel::Closed, Sel::HalfClosed, Sel::Zero, Sel::LowerUnused], Sel::Idle);
            inj.state = Some(st);
            inj.bytes = Frame::data(id, &vec![b'x'; *len as usize], *end, Option::None).encode();
            inj.expect = match st {
                // 5.1 idle: anything but HEADERS / PRIORITY is a connection error PROTOCOL_ERROR; 6.1: stream 0 likewise
                St::Zero | St::Idle | St::EvenIdle => Expect::conn(&[PE]),
                // 5.1.1: implicitly closed by the use of a higher id
                St::LowerUnused => Expect { goaway: vec![PE, SC], ..Expect::stream(id, &[SC]) },
                // 5.1 closed / half-closed (remote), 6.1: STREAM_CLOSED (stream error, or connection error after END_STREAM)
                _ => Expect::stream(id, &[SC]),
            };
            if st == St::EvenIdle && id < sk.highest_used() {
                inj.known = Some("even-id-below-highest-treated-as-closed");
            }
        }
        HeadersOn { sel, end } => {
            let (id, st) = sk.resolve(case, *sel, &[Sel::EvenLow, Sel::EvenHigh, Sel::LowerUnused, Sel::Closed, Sel::HalfClosed, Sel::Open], Sel::EvenHigh);
            inj.state = Some(st);
            let list = if st == St::Open { vec![("x-trailer".to_string(), "1".to_string())] } else { request_headers(h2c, "/again", 500) };
            let block = c.encode_headers(&list);
            inj.bytes = enc(h2::HEADERS, h2::F_END_HEADERS | if *end { h2::F_END_STREAM } else { 0 }, id, block);
            inj.expect = match st {
                // 5.1.1: a client must use odd ids: unexpected stream identifier -> connection error PROTOCOL_ERROR
                St::EvenIdle => Expect::conn(&[PE]),
                St::LowerUnused => Expect { goaway: vec![PE, SC], ..Expect::stream(id, &[SC]) },
                St::Closed => Expect { goaway: vec![SC, PE], ..Expect::stream(id, &[SC]) },
                St::HalfClosed => Expect::stream(id, &[SC]),
                St::Open if *end => {
                    // valid trailers: they end the request
                    inj.ended = Some(id);
                    Expect::ignored()
                }
                // 8.1: HEADERS without END_STREAM after the request's HEADERS: malformed -> stream error PROTOCOL_ERROR
                St::Open => Expect { status_err: true, never_2xx: true, ..Expect::stream(id, &[PE]) },
                _ => Expect::conn(&[PE]),
            };
            if st == St::EvenIdle && id < sk.highest_used() {
                inj.known = Some("even-id-below-highest-treated-as-closed");
            }
            if st == St::Open && *end && case.streams.iter().zip(&sk.ids).any(|(s, i)| *i == id && !s.h2c) {
                // suspected defect outside C15 (message framing toward an HTTP/1.1 backend): request trailers are
                // forwarded without the terminating last-chunk, the backend cannot read the request (502)
                inj.known = Some("h2-request-trailers-to-h1-backend");
            }
        }
        ContinuationAlone { sel } => {
            let (id, st) = sk.resolve(case, *sel, &[Sel::Open, Sel::Idle, Sel::HalfClosed, Sel::Closed, Sel::Zero], Sel::Idle);
            inj.state = Some(st);
            inj.bytes = enc(h2::CONTINUATION, h2::F_END_HEADERS, id, vec![0x82, 0x87]);
            // 6.10: CONTINUATION not preceded by HEADERS without END_HEADERS -> connection error PROTOCOL_ERROR
            inj.expect = Expect::conn(&[PE]);
        }
        ContinuationOtherStream => {
            let a = sk.take_id();
            let b = sk.take_id();
            let block = c.encode_headers(&request_headers(h2c, "/split", 500));
            let cut = block.len() / 2;
            inj.bytes = enc(h2::HEADERS, h2::F_END_STREAM, a, block[..cut].to_vec());
            inj.bytes.extend(enc(h2::CONTINUATION, h2::F_END_HEADERS, b, block[cut..].to_vec()));
            inj.expect = Expect::conn(&[PE]);
        }
        HeaderBlockInterleaved { with } => {
            let a = sk.take_id();
            let block = c.encode_headers(&request_headers(h2c, "/split", 500));
            let cut = block.len() / 2;
            inj.bytes = enc(h2::HEADERS, h2::F_END_STREAM, a, block[..cut].to_vec());
            let (open, _) = sk.resolve(case, Sel::Open, &[Sel::Open], Sel::Idle);
            let mid = match with {
                0 => Frame::ping(false, [7; 8]).encode(),
                1 => Frame::data(open, b"zz", false, Option::None).encode(),
                2 => enc(0x42, 0, 0, vec![1, 2, 3]),
                3 => Frame::settings(&[]).encode(),
                4 => Frame::window_update(0, 100).encode(),
                5 => {
                    let other = sk.take_id();
                    let b2 = c.encode_headers(&request_headers(h2c, "/other", 500));
                    enc(h2::HEADERS, h2::F_END_STREAM | h2::F_END_HEADERS, other, b2)
                }
                6 => Frame::rst(a, h2::CANCEL).encode(),
                _ => enc(h2::PRIORITY, 0, a, vec![0, 0, 0, 0, 16]),
            };
            inj.bytes.extend(mid);
            inj.bytes.extend(enc(h2::CONTINUATION, h2::F_END_HEADERS, a, block[cut..].to_vec()));
            // 6.2 / 4.3: a header block must be contiguous: anything else in between -> connection error PROTOCOL_ERROR
            inj.expect = Expect::conn(&[PE]);
        }
        PrioritySelf { sel, in_headers } => {
            if *in_headers {
                let id = sk.take_id();
                let block = c.encode_headers(&request_headers(h2c, "/prio", 600));
                let mut p = id.to_be_bytes().to_vec();
                p.push(15);
                p.extend(block);
                inj.bytes = enc(h2::HEADERS, h2::F_END_HEADERS | h2::F_END_STREAM | h2::F_PRIORITY, id, p);
                inj.expect = Expect { ignore: true, target_served: true, ..Expect::stream(id, &[PE]) };
            } else {
                let (id, st) = sk.resolve(case, *sel, &[Sel::Open, Sel::Idle, Sel::HalfClosed, Sel::Closed], Sel::Idle);
                inj.state = Some(st);
                let mut p = id.to_be_bytes().to_vec();
                p.push(15);
                inj.bytes = enc(h2::PRIORITY, 0, id, p);
                // RFC 9113 deprecates the priority scheme (5.3.2) and no longer defines self-dependency as an error; RFC 7540 5.3.1 made it a stream error
                inj.expect = Expect { ignore: true, ..Expect::stream(id, &[PE]) };
            }
        }
        PriorityLen { sel, len } => {
            let (id, st) = sk.resolve(case, *sel, &[Sel::Open, Sel::Idle, Sel::HalfClosed], Sel::Idle);
            inj.state = Some(st);
            inj.bytes = enc(h2::PRIORITY, 0, id, vec![0; *len as usize]);
            // 6.3: length other than 5 -> stream error FRAME_SIZE_ERROR
            inj.expect = Expect::stream(id, &[FS]);
        }
        WindowZero { sel } => {
            let (id, st) = sk.resolve(case, *sel, &[Sel::Zero, Sel::Open, Sel::HalfClosed, Sel::Idle], Sel::Zero);
            inj.state = Some(st);
            inj.bytes = Frame::window_update(id, 0).encode();
            // 6.9: increment 0 -> stream error PROTOCOL_ERROR; on the connection window -> connection error
            inj.expect = match st {
                St::Zero | St::Idle => Expect::conn(&[PE]),
                St::HalfClosed => Expect { ignore_if_target_done: true, ..Expect::stream(id, &[PE]) },
                _ => Expect::stream(id, &[PE]),
            };
        }
        WindowOverflow { sel } => {
            let (id, st) = sk.resolve(case, *sel, &[Sel::Zero, Sel::Open, Sel::HalfClosed], Sel::Zero);
            inj.state = Some(st);
            inj.bytes = Frame::window_update(id, 0x7fff_ffff).encode();
            // 6.9.1: window above 2^31-1 -> RST_STREAM / GOAWAY with FLOW_CONTROL_ERROR
            inj.expect = match st {
                St::Zero => Expect::conn(&[FC]),
                St::HalfClosed => Expect { ignore_if_target_done: true, ..Expect::stream(id, &[FC]) },
                _ => Expect::stream(id, &[FC]),
            };
        }
        WindowLen { sel, len } => {
            let (id, st) = sk.resolve(case, *sel, &[Sel::Zero, Sel::Open], Sel::Zero);
            inj.state = Some(st);
            inj.bytes = enc(h2::WINDOW_UPDATE, 0, id, vec![0, 0, 1, 0, 0, 0, 0, 0][..(*len as usize).min(8)].to_vec());
            // 6.9: length other than 4 -> connection error FRAME_SIZE_ERROR
            inj.expect = Expect::conn(&[FS]);
        }
        WindowOnIdle => {
            let (id, st) = sk.resolve(case, Sel::Idle, &[Sel::Idle], Sel::Idle);
            inj.state = Some(st);
            inj.bytes = Frame::window_update(id, 1000).encode();
            inj.expect = Expect::conn(&[PE]);
        }
        Settings { kind } => {
            let (frame, e) = match kind {
                0 => (Frame::settings(&[(h2::S_ENABLE_PUSH, 2)]), Expect::conn(&[PE])),
                1 => {
                    inj.known = Some("settings-initial-window-above-max-protocol-error");
                    (Frame::settings(&[(h2::S_INITIAL_WINDOW_SIZE, 0x8000_0000)]), Expect::conn(&[FC]))
                }
                2 => (Frame::settings(&[(h2::S_MAX_FRAME_SIZE, 16383)]), Expect::conn(&[PE])),
                3 => (Frame::settings(&[(h2::S_MAX_FRAME_SIZE, 1 << 24)]), Expect::conn(&[PE])),
                4 => (Frame::new(h2::SETTINGS, h2::F_ACK, 0, vec![0, 3, 0, 0, 0, 100]), Expect::conn(&[FS])),
                5 => (Frame::new(h2::SETTINGS, 0, 0, vec![0, 3, 0, 0, 0]), Expect::conn(&[FS])),
                6 => (Frame::new(h2::SETTINGS, 0, 0, vec![0, 3, 0, 0, 0, 100, 0]), Expect::conn(&[FS])),
                7 => {
                    let (id, st) = sk.resolve(case, Sel::Open, &[Sel::Open], Sel::Idle);
                    inj.state = Some(st);
                    (Frame::new(h2::SETTINGS, 0, id, vec![]), Expect::conn(&[PE]))
                }
                _ => {
                    // 6.5.2: an unknown identifier MUST be ignored; the frame is acknowledged
                    inj.want_settings_acks = 1;
                    (Frame::settings(&[(0x00f7, 12345)]), Expect::ignored())
                }
            };
            inj.bytes = frame.encode();
            inj.expect = e;
        }
        PingLen { len } => {
            inj.bytes = enc(h2::PING, 0, 0, vec![9; *len as usize]);
            // 6.7: length other than 8 -> connection error FRAME_SIZE_ERROR
            inj.expect = Expect::conn(&[FS]);
        }
        PingOnStream { sel } => {
            let (id, st) = sk.resolve(case, *sel, &[Sel::Open, Sel::Idle, Sel::HalfClosed], Sel::Idle);
            inj.state = Some(st);
            inj.bytes = enc(h2::PING, 0, id, vec![9; 8]);
            inj.expect = Expect::conn(&[PE]);
        }
        Rst { sel } => {
            let (id, st) = sk.resolve(case, *sel, &[Sel::Idle, Sel::Zero, Sel::EvenHigh], Sel::Idle);
            inj.state = Some(st);
            inj.bytes = Frame::rst(id, h2::CANCEL).encode();
            // 6.4: stream 0 or an idle stream -> connection error PROTOCOL_ERROR
            inj.expect = Expect::conn(&[PE]);
        }
        RstLen { sel, len } => {
            let (id, st) = sk.resolve(case, *sel, &[Sel::Open, Sel::HalfClosed], Sel::Idle);
            inj.state = Some(st);
            inj.bytes = enc(h2::RST_STREAM, 0, id, vec![0; *len as usize]);
            // 6.4: length other than 4 -> connection error FRAME_SIZE_ERROR (on an idle stream PROTOCOL_ERROR applies as well)
            inj.expect = Expect::conn(if st == St::Idle { &[FS, PE] } else { &[FS] });
        }
        GoawayOnStream { sel } => {
            let (id, st) = sk.resolve(case, *sel, &[Sel::Open, Sel::Idle, Sel::HalfClosed], Sel::Idle);
            inj.state = Some(st);
            inj.bytes = Frame::new(h2::GOAWAY, 0, id, Frame::goaway(0, h2::NO_ERROR).payload).encode();
            inj.expect = Expect::conn(&[PE]);
        }
        Oversize { what, extra } => {
            let size = max_frame + 1 + *extra as usize;
            // 4.2: FRAME_SIZE_ERROR; a connection error when the frame carries a field block, is SETTINGS or is on stream 0
            match what {
                0 | 3 => {
                    let (id, st) = sk.resolve(case, Sel::Open, &[Sel::Open], Sel::Idle);
                    inj.state = Some(st);
                    inj.bytes = enc(if *what == 0 { h2::DATA } else { 0x4f }, 0, id, vec![b'o'; size]);
                    inj.expect = if st == St::Open { Expect::stream(id, &[FS]) } else { Expect::conn(&[FS, PE]) };
                    if *what == 0 && st == St::Open {
                        c.send_conn_window -= size as i64;
                        *c.send_stream_window.entry(id).or_insert(65535) -= size as i64;
                    }
                }
                1 | 6 => {
                    let id = sk.take_id();
                    let mut list = request_headers(h2c, "/big", 500);
                    list.push(("x-fill".to_string(), filler(case.seed, 2 * size + 64)));
                    let block = c.encode_headers(&list);
                    let block = if block.len() < size + 8 { [block, vec![0u8; size + 8]].concat() } else { block };
                    if *what == 1 {
                        inj.bytes = enc(h2::HEADERS, h2::F_END_STREAM, id, block[..size].to_vec());
                    } else {
                        inj.bytes = enc(h2::HEADERS, h2::F_END_STREAM, id, block[..8].to_vec());
                        inj.bytes.extend(enc(h2::CONTINUATION, 0, id, block[8..8 + size].to_vec()));
                    }
                    inj.expect = Expect::conn(&[FS]);
                }
                2 => {
                    inj.bytes = enc(0x4f, 0, 0, vec![b'o'; size]);
                    inj.expect = Expect::conn(&[FS]);
                }
                4 => {
                    let entries = size.div_ceil(6);
                    let mut p = vec![];
                    for i in 0..entries {
                        p.extend_from_slice(&[0, 0xf0]);
                        p.extend_from_slice(&(i as u32).to_be_bytes());
                    }
                    inj.bytes = enc(h2::SETTINGS, 0, 0, p);
                    inj.expect = Expect::conn(&[FS]);
                }
                _ => {
                    inj.bytes = enc(h2::PING, 0, 0, vec![1; size]);
                    inj.expect = Expect::conn(&[FS]);
                }
            }
        }
        PadTooLong { headers } => {
            if *headers {
                let id = sk.take_id();
                let block = c.encode_headers(&request_headers(h2c, "/pad", 500));
                let mut p = vec![(block.len() + 1).min(255) as u8];
                p.extend(block);
                inj.bytes = enc(h2::HEADERS, h2::F_END_HEADERS | h2::F_END_STREAM | h2::F_PADDED, id, p);
            } else {
                let (id, st) = sk.resolve(case, Sel::Open, &[Sel::Open], Sel::Idle);
                inj.state = Some(st);
                inj.bytes = enc(h2::DATA, h2::F_PADDED, id, vec![10, b'a', b'b']);
            }
            // 6.1 / 6.2: padding as long as the payload or longer -> connection error PROTOCOL_ERROR
            inj.expect = Expect::conn(&[PE]);
        }
        UnknownType { typ, sel, len, flags } => {
            let (id, st) = sk.resolve(case, *sel, &[Sel::Zero, Sel::Open, Sel::Idle, Sel::HalfClosed, Sel::Closed], Sel::Zero);
            inj.state = Some(st);
            let typ = if *typ < 10 || *typ == 0x10 { 0x4f } else { *typ };
            inj.bytes = enc(typ, *flags, id, vec![0xAB; *len as usize]);
            // 4.1 / 5.5: frames of unknown type MUST be ignored and discarded
            inj.expect = Expect::ignored();
        }
        Malformed { kind } => {
            let id = sk.take_id();
            let mut list = request_headers(h2c, "/m", 500);
            let mut body: Option<&[u8]> = Option::None;
            match kind {
                0 => list.retain(|(n, _)| n != ":method"),
                1 => list.insert(3, (":path".into(), "/second".into())),
                2 => {
                    let p = list.remove(3);
                    list.push(p);
                }
                3 => list.push(("X-Upper".into(), "1".into())),
                4 => list.push(("connection".into(), "close".into())),
                5 => list.push(("te".into(), "gzip".into())),
                6 => {
                    list.push(("content-length".into(), "10".into()));
                    body = Some(b"12345");
                }
                7 => {
                    list.push(("content-length".into(), "3".into()));
                    body = Some(b"12345");
                }
                8 => list.retain(|(n, _)| n != ":path"),
                9 => list.insert(0, (":status".into(), "200".into())),
                10 => list.retain(|(n, _)| n != ":scheme"),
                11 => list[3].1 = String::new(),
                12 => list.push(("transfer-encoding".into(), "chunked".into())),
                13 => list.push(("upgrade".into(), "websocket".into())),
                _ => list.push(("x-evil".into(), "a\r\nx-injected: 1".into())),
            }
            let block = c.encode_headers(&list);
            inj.bytes = enc(h2::HEADERS, h2::F_END_HEADERS | if body.is_none() { h2::F_END_STREAM } else { 0 }, id, block);
            if let Some(b) = body {
                inj.bytes.extend(Frame::data(id, b, true, Option::None).encode());
            }
            // 8.1.1: malformed request -> stream error PROTOCOL_ERROR; a server MAY send an HTTP response (e.g. 400) before closing the stream
            inj.expect = Expect { status_err: true, never_2xx: true, ..Expect::stream(id, &[PE]) };
        }
        HeaderListOver { single } => {
            let id = sk.take_id();
            let adv = c.theirs.max_header_list_size.unwrap_or(65536) as usize;
            let mut list = request_headers(h2c, "/huge", 500);
            if *single {
                list.push(("x-huge".into(), filler(case.seed, adv + 100)));
            } else {
                for i in 0..64 {
                    list.push((format!("x-huge-{i}"), filler(case.seed ^ i as u64, adv / 64 + 50)));
                }
            }
            let block = c.encode_headers(&list);
            let cuts: Vec<usize> = (0..block.len() / max_frame).map(|_| max_frame).collect();
            let (bytes, conts) = block_frames(id, &block, true, &cuts);
            inj.bytes = bytes;
            inj.flood_frames = conts;
            // 10.5.1: the server may answer 431, refuse the stream or end the connection; it must not accept more than it advertised
            inj.expect = Expect { rst_any: true, goaway: vec![EYC, PE, COMPRESSION, REFUSED, FS], status_err: true, never_2xx: true, target: Some(id), ..Default::default() };
        }
        HeaderListLarge { kb } => {
            let id = sk.take_id();
            let mut list = request_headers(h2c, "/large", 600);
            list.push(("x-large".into(), filler(case.seed, *kb as usize * 1024)));
            let block = c.encode_headers(&list);
            let cuts: Vec<usize> = (0..block.len() / max_frame).map(|_| max_frame).collect();
            let (bytes, conts) = block_frames(id, &block, true, &cuts);
            inj.bytes = bytes;
            inj.flood_frames = conts;
            // SETTINGS_MAX_HEADER_LIST_SIZE is advisory (6.5.2): a lower limit may apply
            inj.expect = Expect { any: true, target: Some(id), ..Default::default() };
        }
        Flood { kind, n } => {
            let n = *n as usize;
            inj.flood_frames = n;
            inj.expect = Expect::ignored();
            match kind {
                0 => {
                    for i in 0..n {
                        inj.bytes.extend(Frame::ping(false, [0xF1, 0, 0, 0, 0, 0, (i >> 8) as u8, i as u8]).encode());
                    }
                    inj.want_ping_acks = n;
                }
                1 => {
                    for i in 0..n {
                        inj.bytes.extend(if i % 2 == 0 { Frame::settings(&[]) } else { Frame::settings(&[(h2::S_INITIAL_WINDOW_SIZE, 65535)]) }.encode());
                    }
                    inj.want_settings_acks = n;
                }
                2 | 7 => {
                    let (id, st) = sk.resolve(case, Sel::Open, &[Sel::Open], Sel::Idle);
                    let id = if st == St::Open {
                        inj.state = Some(st);
                        id
                    } else {
                        let id = sk.take_id();
                        let block = c.encode_headers(&request_headers(h2c, "/empty", 600));
                        inj.bytes.extend(enc(h2::HEADERS, h2::F_END_HEADERS, id, block));
                        inj.expect.target = Some(id);
                        inj.expect.target_served = true;
                        id
                    };
                    for i in 0..n {
                        // kind 7: PADDED frames with no content octets at all (Pad Length 0..3 + that much padding):
                        // as empty as a zero-length frame for the application, not for the wire
                        let pad = if *kind == 7 { Some((i % 4) as u8) } else { Option::None };
                        inj.bytes.extend(Frame::data(id, &[], false, pad).encode());
                    }
                    if inj.expect.target.is_some() {
                        inj.bytes.extend(Frame::data(id, b"end", true, Option::None).encode());
                    }
                    // recorded finding of C14 (frame storm): the session may be closed without GOAWAY
                    inj.expect.close_silently = true;
                }
                3 => {
                    for _ in 0..n {
                        let id = sk.take_id();
                        let block = c.encode_headers(&request_headers(h2c, "/rr", 700));
                        inj.bytes.extend(enc(h2::HEADERS, h2::F_END_HEADERS | if case.seed & 4 == 4 { h2::F_END_STREAM } else { 0 }, id, block));
                        inj.bytes.extend(Frame::rst(id, h2::CANCEL).encode());
                        inj.own_resets.push(id);
                    }
                }
                4 | 5 => {
                    let id = sk.take_id();
                    let mut list = request_headers(h2c, "/cont", 600);
                    list.push(("x-fill".to_string(), filler(case.seed, 2 * n + 64)));
                    let block = c.encode_headers(&list);
                    let cuts: Vec<usize> = if *kind == 4 { vec![1; n] } else { vec![0; n + 1] };
                    let (bytes, conts) = block_frames(id, &block, true, &cuts);
                    inj.bytes = bytes;
                    inj.flood_frames = conts;
                    inj.expect.target = Some(id);
                    inj.expect.target_served = true;
                }
                _ => {
                    for _ in 0..n {
                        inj.bytes.extend(Frame::window_update(0, 1).encode());
                    }
                }
            }
            if inj.flood_frames >= 200 {
                // every documented per-window threshold is at most 100 (doc/configure.md; H2FloodConfig defaults):
                // at twice that, within one burst, the flood must be answered - GOAWAY(ENHANCE_YOUR_CALM), or the
                // connection is gone (a GOAWAY written right before the close can be lost to a TCP reset)
                inj.expect.ignore = false;
                inj.expect.close_silently = true;
            }
            if n >= MIN_FLOOD_THRESHOLD {
                // doc/configure.md "H2 flood detection thresholds": the connection is ended with GOAWAY(ENHANCE_YOUR_CALM) (RFC 9113 10.5)
                inj.expect.goaway.push(EYC);
                if inj.expect.target.is_some() {
                    inj.expect.rst.extend([EYC, REFUSED]);
                }
            }
        }
        Truncated { typ, declared, present, reset } => {
            let declared = (*declared).max(1) as usize;
            let present = (*present as usize).min(declared - 1);
            let (id, _) = sk.resolve(case, Sel::Open, &[Sel::Open], Sel::Zero);
            let mut b = enc(*typ, 0, id, vec![0x55; declared]);
            b.truncate(9 + present);
            if case.seed & 8 == 8 {
                // cut inside the frame header
                b.truncate(1 + (case.seed >> 8) as usize % 8);
            }
            inj.bytes = b;
            inj.close_after = Some(*reset);
            inj.expect = Expect { any: true, ..Default::default() };
        }
        // handled by their own flows
        OverLimit { .. } | AfterGoaway { .. } | BadPreface { .. } => {}
    }
    inj
}

// ------------------------------------------------------------------ scenario

static WORKER_PANIC: Mutex<Option<(String, String)>> = Mutex::new(None);

fn worker_died(lab: &mut H2Lab, when: &str) -> Failure {
    let joined = lab.worker.join();
    let panic = WORKER_PANIC.lock().unwrap().clone();
    match panic {
        Some((loc, msg)) if !engine::panic_is_harness(&loc) => {
            let short = loc.rsplit_once("/repo/").map(|(_, b)| b.to_string()).unwrap_or(loc.clone());
            Failure::new(format!("panic@{short}"), format!("the worker thread panicked at {loc} ({when}): {msg}"))
        }
        _ => Failure::new("C15/worker-died", format!("the worker thread is gone ({when}): {joined:?}")),
    }
}

fn marker(k: &Cell<u8>) -> [u8; 8] {
    k.set(k.get().wrapping_add(1));
    [0xC1, 0x5C, k.get(), 0xA5, 0x5A, 0x0F, 0xF0, 0x99]
}

fn plan(lab: &H2Lab, case: &Case) {
    let mut h1_actions = BTreeMap::new();
    let mut h2s = H2Shared::default();
    let mut add = |i: usize, h2c: bool, body: Vec<u8>, seed: u64, len: usize| {
        if h2c {
            h2s.actions.insert(i, H2Action { status: 200, headers: vec![("x-lab-resp".into(), i.to_string())], body, ..Default::default() });
        } else {
            h1_actions.insert(
                i,
                BackendAction::Respond { status: 200, headers: vec![("x-lab-resp".into(), i.to_string())], body_seed: seed, body_len: len, framing: BodyFraming::ContentLength, write: Default::default(), close_after: false, cut_at: None, reset: false },
            );
        }
    };
    for (i, s) in case.streams.iter().enumerate() {
        let seed = case.seed ^ (0xA000 + i as u64);
        add(i, s.h2c, content(seed, s.resp_len as usize), seed, s.resp_len as usize);
    }
    // streams opened by the over-limit flow
    for k in 0..24usize {
        let seed = case.seed ^ (0xA100 + k as u64);
        add(100 + k, (case.seed >> k) & 1 == 1, content(seed, 20), seed, 20);
    }
    // probes (always cluster c0)
    for k in 0..8usize {
        let seed = case.seed ^ (0xD000 + k as u64);
        add(900 + k, false, content(seed, 24), seed, 24);
    }
    lab.reset_plan(h1_actions, ReadScript::default(), h2s);
}

/// a stream of the skeleton answered as planned
fn verify_stream(c: &Conn, case: &Case, i: usize, id: u32, w: &Wire, what: &str) -> Result<(), Failure> {
    let label = case.anomaly.label();
    let Some(st) = c.streams.get(&id) else {
        return Err(Failure::new(format!("C15/{what}:{label}"), format!("stream {id} (request {i}) got no answer at all; GOAWAY {:?}, closed {}", w.goaways, w.closed)));
    };
    if let Some(code) = st.reset {
        return Err(Failure::new(format!("C15/{what}:{label}"), format!("stream {id} (request {i}), not concerned by the anomaly, was reset with code {code}; GOAWAY {:?}", w.goaways)));
    }
    if !st.end_stream {
        return Err(Failure::new(format!("C15/{what}:{label}"), format!("stream {id} (request {i}) did not complete within 3 s: headers {:?}, {} body bytes; GOAWAY {:?}, closed {}", st.headers, st.body.len(), w.goaways, w.closed)));
    }
    let want = content(case.seed ^ (0xA000 + i as u64), case.streams[i].resp_len as usize);
    if h2::hdr(&st.headers, ":status").as_deref() != Some("200") || h2::hdr(&st.headers, "x-lab-resp").as_deref() != Some(i.to_string().as_str()) {
        return Err(Failure::new(format!("C15/{what}:{label}"), format!("stream {id} (request {i}): answered with {:?}, expected the backend's 200 for request {i}", st.headers)));
    }
    if let Some(off) = first_mismatch(&st.body, &want) {
        return Err(Failure::new(format!("C15/{what}-body:{label}"), format!("stream {id} (request {i}): {} body bytes received, {} sent by the backend, first difference at {off}", st.body.len(), want.len())));
    }
    Ok(())
}

fn raw_client(lab: &H2Lab, first: &[u8]) -> Result<Conn, String> {
    let (tls, _) = h2::tls_connect(lab.https_addr, "c0.lab", &["h2"]).map_err(|e| format!("TLS connect: {e}"))?;
    if tls.conn.alpn_protocol() != Some(b"h2") {
        return Err("ALPN did not negotiate h2".into());
    }
    let mut mine = Settings::default();
    mine.enable_push = 0;
    let mut c = H2Conn::new(tls, false, mine);
    c.write_raw(first).map_err(|e| format!("first write: {e}"))?;
    Ok(c)
}

pub fn scenario(lab: &mut H2Lab, case: &Case) -> CheckResult {
    let mut rep = CaseReport::default();
    let label = case.anomaly.label();
    if !lab.worker.alive() {
        return Err(worker_died(lab, "before the scenario"));
    }
    plan(lab, case);
    let pings = Cell::new(0u8);
    let mut w = Wire::default();
    let mut sk = Skel { ids: vec![], next_id: 3 };
    rep.class(format!("a:{label}"));
    rep.class(format!("f:{}", case.anomaly.family()));
    rep.class(if case.low_limit { "listener_max_concurrent_streams_4" } else { "listener_max_concurrent_streams_default" });

    // ---------------- preface family: no HTTP/2 connection is ever established
    if let Anomaly::BadPreface { kind, pos } = &case.anomaly {
        let mut first = h2::PREFACE.to_vec();
        match kind {
            0 => {
                let p = *pos as usize % first.len();
                first[p] ^= 0x20;
                first.extend(Frame::settings(&[]).encode());
            }
            1 => first = b"GET / HTTP/1.1\r\nHost: c0.lab\r\n\r\n".to_vec(),
            2 => first.extend(Frame::ping(false, [1; 8]).encode()),
            3 => first.extend(Frame::settings_ack().encode()),
            4 => first.extend(enc(h2::SETTINGS, 0, 1, vec![])),
            5 => first.extend(enc(h2::SETTINGS, 0, 0, vec![0, 3, 0, 0, 0])),
            _ => first.extend(enc(h2::HEADERS, h2::F_END_HEADERS | h2::F_END_STREAM, 1, vec![0x82, 0x87, 0x84])),
        }
        let mut c = match raw_client(lab, &first) {
            Ok(c) => c,
            Err(e) => return Err(Failure::new("C15/h2-connect", e)),
        };
        let start = Instant::now();
        let end = pump(&mut c, &mut w, start + BOUND, &mut |_, _| false);
        // 3.4: an invalid preface is a connection error PROTOCOL_ERROR; the GOAWAY MAY be omitted
        let reaction = match (w.goaways.first(), end) {
            (Some((_, code)), _) => Reaction::Goaway(*code),
            (None, End::Closed) => Reaction::Closed,
            _ => Reaction::Ignored,
        };
        rep.class(format!("r:{}", reaction.label()));
        let mut e = Expect { close_silently: true, goaway: vec![PE, FS], ..Default::default() };
        if *kind == 5 && super::c15::steer(case.strict) {
            // recorded finding: the first SETTINGS frame is not checked for a length multiple of 6
            rep.excluded_known += 1;
            rep.class("known:preface-settings-length-not-multiple-of-6-accepted");
            e.any = true;
        }
        if !admissible(&e, &reaction, false) {
            return Err(Failure::new(format!("C15/reaction-not-admissible:{label}"), format!("invalid connection preface ({first:02x?}): observed {reaction:?}, admissible: {}", e.describe())));
        }
        if end != End::Closed && !e.any {
            return Err(Failure::new("C15/connection-not-closed-after-goaway", format!("{label}: the connection was still open 3 s after the invalid preface (GOAWAY {:?})", w.goaways)));
        }
        probes(lab, case.seed, "during", 0)?;
        drop(c);
        probes(lab, case.seed, "after", 2)?;
        if !lab.worker.alive() {
            return Err(worker_died(lab, "after the scenario"));
        }
        rep.class("state:preface");
        rep.inner_evaluations = 1;
        return Ok(rep);
    }

    // ---------------- connection
    let mut c: Conn = if case.early {
        // the anomaly travels with the client preface: sozu meets it during the SETTINGS exchange
        let mut first = h2::PREFACE.to_vec();
        first.extend(Frame::settings(&[(h2::S_ENABLE_PUSH, 0)]).encode());
        match raw_client(lab, &[]) {
            Ok(mut c) => {
                c.conn_credit = 65535;
                let inj = build(case, &mut c, &mut sk, 16384);
                first.extend(&inj.bytes);
                write(&mut c, &mut w, &first);
                return finish_simple(lab, case, c, w, sk, inj, rep, &pings, true);
            }
            Err(e) => return Err(Failure::new("C15/h2-connect", e)),
        }
    } else {
        match lab.h2_client("c0.lab", Settings::default()) {
            Ok(c) => c,
            Err(e) => return Err(Failure::new("C15/h2-connect", format!("HTTP/2 connection to the HTTPS listener failed: {e}"))),
        }
    };
    let _ = c.s.sock.set_write_timeout(Some(BOUND));
    c.replenish(0);
    let max_frame = c.theirs.max_frame_size as usize;

    // ---------------- skeleton before the anomaly: completed streams, then open streams
    let order: Vec<usize> = [Phase::Done, Phase::Open, Phase::HalfClosed].iter().flat_map(|p| case.streams.iter().enumerate().filter(move |(_, s)| s.phase == *p).map(|(i, _)| i)).collect();
    sk.ids = vec![0; case.streams.len()];
    for &i in &order {
        sk.ids[i] = sk.take_id();
    }
    let body_of = |i: usize| content(case.seed ^ (0xB000 + i as u64), case.streams[i].req_len as usize);
    let deadline = Instant::now() + BOUND;
    for &i in order.iter().filter(|&&i| case.streams[i].phase == Phase::Done) {
        let id = sk.ids[i];
        let s = &case.streams[i];
        if c.send_headers(id, &request_headers(s.h2c, &format!("/r{i}"), i), s.req_len == 0, None).is_err() || (s.req_len > 0 && c.send_body(id, &body_of(i), &[], None, true, deadline).is_err()) {
            return Err(Failure::new("C15/skeleton:write", format!("cannot send request {i} on stream {id}")));
        }
    }
    let done_ids: Vec<(usize, u32)> = order.iter().filter(|&&i| case.streams[i].phase == Phase::Done).map(|&i| (i, sk.ids[i])).collect();
    pump(&mut c, &mut w, Instant::now() + BOUND, &mut |c, _| done_ids.iter().all(|(_, id)| stream_finished(c, *id)));
    for (i, id) in &done_ids {
        verify_stream(&c, case, *i, *id, &w, "skeleton")?;
    }
    let mut half_sent = vec![0usize; case.streams.len()];
    for &i in order.iter().filter(|&&i| case.streams[i].phase == Phase::Open) {
        let id = sk.ids[i];
        let s = &case.streams[i];
        let body = body_of(i);
        let half = body.len() / 2;
        half_sent[i] = half;
        if c.send_headers(id, &request_headers(s.h2c, &format!("/r{i}"), i), false, None).is_err() || (half > 0 && c.send_body(id, &body[..half], &[], None, false, deadline).is_err()) {
            return Err(Failure::new("C15/skeleton:write", format!("cannot open request {i} on stream {id}")));
        }
    }
    let has_open = case.streams.iter().any(|s| s.phase != Phase::Done);
    rep.class_if(has_open, "open_stream_before_anomaly");
    rep.class_if(case.streams.iter().any(|s| s.phase == Phase::Open), "state:open_stream");
    rep.class_if(case.streams.iter().any(|s| s.phase == Phase::HalfClosed), "state:half_closed_stream");
    rep.class_if(case.streams.iter().any(|s| s.phase == Phase::Done), "state:closed_stream");
    rep.nontrivial = has_open || matches!(case.anomaly, Anomaly::Flood { .. });

    // ---------------- the half-closed streams travel in the same write as the anomaly
    let mut batch = vec![];
    for &i in order.iter().filter(|&&i| case.streams[i].phase == Phase::HalfClosed) {
        let id = sk.ids[i];
        let s = &case.streams[i];
        let block = c.encode_headers(&request_headers(s.h2c, &format!("/r{i}"), i));
        batch.extend(enc(h2::HEADERS, h2::F_END_HEADERS | if s.req_len == 0 { h2::F_END_STREAM } else { 0 }, id, block));
        if s.req_len > 0 {
            batch.extend(Frame::data(id, &body_of(i), true, None).encode());
            c.send_conn_window -= s.req_len as i64;
        }
        c.send_stream_window.entry(id).or_insert(c.theirs.initial_window_size as i64);
    }

    // ---------------- own flows
    match &case.anomaly {
        Anomaly::OverLimit { extra } => {
            write(&mut c, &mut w, &batch);
            return over_limit(lab, case, c, w, sk, *extra as usize, rep, &pings);
        }
        Anomaly::AfterGoaway { what } => {
            batch.extend(Frame::goaway(0, h2::NO_ERROR).encode());
            match what {
                0 => {
                    let id = sk.take_id();
                    let block = c.encode_headers(&request_headers(case.seed & 2 == 2, "/late", 600));
                    batch.extend(enc(h2::HEADERS, h2::F_END_HEADERS | h2::F_END_STREAM, id, block));
                }
                1 => batch.extend(Frame::ping(false, [3; 8]).encode()),
                2 => {
                    let (id, st) = sk.resolve(case, Sel::Open, &[Sel::Open], Sel::Idle);
                    if st == St::Open {
                        batch.extend(Frame::data(id, &[], false, None).encode());
                    }
                }
                _ => {}
            }
            write(&mut c, &mut w, &batch);
            // 6.8 leaves the rest of the connection to the receiver of GOAWAY: only the ALWAYS oracles apply
            let inj = Injection { expect: Expect { any: true, ..Default::default() }, ..Default::default() };
            return finish_simple(lab, case, c, w, sk, inj, rep, &pings, false);
        }
        _ => {}
    }
    let inj = build(case, &mut c, &mut sk, max_frame);
    batch.extend(&inj.bytes);
    write(&mut c, &mut w, &batch);
    let _ = half_sent;
    finish_simple(lab, case, c, w, sk, inj, rep, &pings, false)
}

fn ping_acks(c: &Conn) -> usize {
    c.log.iter().filter(|(t, f, _, _)| *t == h2::PING && f & h2::F_ACK != 0).count()
}

/// what the HTTP/1.1 mock backend received (diagnostics in failure messages)
fn backend_view(lab: &H2Lab) -> String {
    let g = lab.h1_shared.lock().unwrap();
    let raw: Vec<String> = g.raw.iter().map(|(k, v)| format!("{k:?}: {:?}", engine::truncate(&String::from_utf8_lossy(v), 400))).collect();
    let inv: Vec<String> = g.recorded.iter().filter_map(|r| r.invalid.clone()).collect();
    format!("HTTP/1.1 backend received {raw:?}, unreadable: {inv:?}")
}

fn log_tail(c: &Conn) -> String {
    let n = c.log.len();
    c.log[n.saturating_sub(8)..].iter().map(|(t, f, s, l)| format!("{}(flags {f:#x}, stream {s}, {l} bytes)", Frame::new(*t, 0, 0, vec![]).type_name())).collect::<Vec<_>>().join(", ")
}

fn ending(lab: &mut H2Lab, case: &Case, rep: CaseReport) -> CheckResult {
    probes(lab, case.seed, "after", 2)?;
    if !lab.worker.alive() {
        return Err(worker_died(lab, "after the scenario"));
    }
    Ok(rep)
}

#[allow(clippy::too_many_arguments)]
fn finish_simple(lab: &mut H2Lab, case: &Case, mut c: Conn, mut w: Wire, sk: Skel, inj: Injection, mut rep: CaseReport, pings: &Cell<u8>, early: bool) -> CheckResult {
    let label = case.anomaly.label();
    let mut inj = inj;
    if let (Some(k), true) = (inj.known, super::c15::steer(case.strict)) {
        rep.excluded_known += 1;
        rep.class(format!("known:{k}"));
        inj.expect.any = true;
    }
    let e = &inj.expect;
    if let Some(st) = inj.state {
        rep.class(format!("target:{st:?}"));
    }
    rep.class_if(early, "state:settings_exchange");
    rep.inner_evaluations = case.streams.len() as u64 + 1;
    // ---- truncated frame: the client goes away in the middle of a frame
    if let Some(reset) = inj.close_after {
        if reset {
            let s = c.s;
            h1::reset(s.sock);
        } else {
            drop(c);
        }
        rep.class("r:client_dropped_connection");
        std::thread::sleep(Duration::from_millis(20));
        if !lab.worker.alive() {
            return Err(worker_died(lab, "after a truncated frame"));
        }
        return ending(lab, case, rep);
    }
    let acks_before = c.settings_acks_received;
    let pacs_before = ping_acks(&c);
    let syncs_before = pings.get() as usize;
    // ---- what does sozu answer?
    let m = marker(pings);
    write(&mut c, &mut w, &Frame::ping(false, m).encode());
    let mut acked = false;
    let end = pump(&mut c, &mut w, Instant::now() + BOUND, &mut |_, f| match f {
        Some(f) if f.typ == h2::PING && f.flags & h2::F_ACK != 0 && f.payload == m => {
            acked = true;
            true
        }
        Some(f) if f.typ == h2::GOAWAY => true,
        _ => false,
    });
    if !lab.worker.alive() {
        return Err(worker_died(lab, &format!("after {label}")));
    }
    let mut reaction = Reaction::Ignored;
    if acked {
        settle(&mut c, &mut w, Duration::from_millis(30));
        if let Some(t) = e.target {
            if e.target_served || e.status_err || e.never_2xx {
                // a request: wait for sozu's verdict on it
                pump(&mut c, &mut w, Instant::now() + BOUND, &mut |c, _| stream_finished(c, t) || c.goaway.is_some());
            }
        }
    } else if end == End::Timeout {
        return Err(Failure::new(
            format!("C15/no-progress:{label}"),
            format!("after the anomaly the connection neither answered a PING nor was closed nor got GOAWAY within 3 s (write failed: {}); last frames received: {}", w.write_failed, log_tail(&c)),
        ));
    }
    let target_done = e.target.map(|t| c.streams.get(&t).map(|s| s.end_stream).unwrap_or(false)).unwrap_or(false);
    if let Some((_, code)) = w.goaways.first().copied() {
        reaction = Reaction::Goaway(code);
    } else if w.closed {
        reaction = Reaction::Closed;
    } else if let Some(t) = e.target {
        let st = c.streams.get(&t);
        let status = status_of(&c, t);
        let reset = st.and_then(|s| s.reset);
        reaction = match (status, reset) {
            (Some(s), _) if !(200..300).contains(&s) => Reaction::Status(s),
            (_, Some(code)) => Reaction::Rst(code),
            (Some(s), None) => {
                if (e.target_served && st.map(|s| s.end_stream).unwrap_or(false)) || (!e.never_2xx && sk.ids.contains(&t)) {
                    // a stream of the skeleton that simply got its answer
                    Reaction::Ignored
                } else {
                    Reaction::Status(s)
                }
            }
            (None, None) => {
                if e.target_served || e.never_2xx && sk.ids.iter().all(|i| *i != t) {
                    return Err(Failure::new(format!("C15/no-answer:{label}"), format!("the request on stream {t} got neither a response nor RST_STREAM nor GOAWAY within 3 s; last frames received: {}", log_tail(&c))));
                }
                Reaction::Ignored
            }
        };
    }
    rep.class(format!("r:{}", reaction.label()));
    rep.class(format!("ar:{label}=>{}", reaction.label()));
    rep.class_if(w.salvaged, "goaway_read_from_socket_after_tcp_reset");
    rep.class_if(matches!(reaction, Reaction::Ignored) && !e.ignore && e.ignore_if_target_done && target_done, "race:target_stream_complete_before_anomaly");
    rep.class_if(matches!(reaction, Reaction::Goaway(EYC)), "r:enhance_your_calm");
    rep.class_if(matches!(reaction, Reaction::Goaway(_)) && !e.rst.is_empty() && !e.any, "stream_error_escalated_to_connection_error");
    // sozu writes GOAWAY and closes the socket at once; when input of ours is still unread the kernel answers with a TCP
    // reset that can destroy the GOAWAY on its way (RFC 9113 5.4.1: GOAWAY is a SHOULD and may not be received reliably)
    let lost_goaway = reaction == Reaction::Closed && w.reset && !e.goaway.is_empty();
    rep.class_if(lost_goaway, "closed_by_tcp_reset_goaway_possibly_lost");
    if !lost_goaway && !admissible(e, &reaction, target_done) {
        return Err(Failure::new(
            format!("C15/reaction-not-admissible:{label}"),
            format!(
                "{label} (sent on stream {:?} in state {:?}, {} flood-class frames): observed {reaction:?}, admissible per RFC 9113: {}; GOAWAY frames {:?} (connection closed: {}, by TCP reset: {}, a write failed: {}); last frames received: {}; {}",
                e.target.or(inj.state.map(|_| 0)),
                inj.state,
                inj.flood_frames,
                e.describe(),
                w.goaways,
                w.closed,
                w.reset,
                w.write_failed,
                log_tail(&c),
                backend_view(lab)
            ),
        ));
    }
    // ---- (2) a connection error ends the connection
    if let Reaction::Goaway(code) = reaction {
        if code != h2::NO_ERROR {
            expect_close(&mut c, &mut w, &label)?;
        }
    }
    // ---- (4) other connections are served while this one is still around
    probes(lab, case.seed, "during", 0)?;
    let alive = matches!(reaction, Reaction::Ignored | Reaction::Rst(_) | Reaction::Status(_)) && !w.closed;
    if alive {
        // every SETTINGS / PING of the anomaly is acknowledged (6.5.3, 6.7)
        let got_s = c.settings_acks_received - acks_before;
        let want_s = inj.want_settings_acks + early as usize;
        if inj.want_settings_acks > 0 && got_s < want_s {
            return Err(Failure::new(format!("C15/frames-not-acknowledged:{label}"), format!("{want_s} SETTINGS frames sent, {got_s} acknowledged although the connection goes on")));
        }
        let got_p = ping_acks(&c) - pacs_before;
        let want_p = inj.want_ping_acks + (pings.get() as usize - syncs_before);
        if inj.want_ping_acks > 0 && got_p < want_p {
            return Err(Failure::new(format!("C15/frames-not-acknowledged:{label}"), format!("{want_p} PING frames sent, {got_p} acknowledged although the connection goes on")));
        }
        // ---- (3) streams not concerned by a stream error complete with their exact bodies
        let touched: Option<u32> = if matches!(reaction, Reaction::Rst(_) | Reaction::Status(_)) { e.target } else { None };
        let deadline = Instant::now() + BOUND;
        let mut waiting = vec![];
        for (i, s) in case.streams.iter().enumerate() {
            let id = sk.ids[i];
            if s.phase == Phase::Done || Some(id) == touched {
                continue;
            }
            if s.phase == Phase::Open && inj.ended != Some(id) {
                let body = content(case.seed ^ (0xB000 + i as u64), s.req_len as usize);
                let half = body.len() / 2;
                if let Err(err) = c.send_body(id, &body[half..], &[], None, true, deadline) {
                    if !stream_finished(&c, id) && c.goaway.is_none() {
                        return Err(Failure::new(format!("C15/untouched-stream-not-served:{label}"), format!("cannot finish the body of stream {id}: {err}")));
                    }
                }
            }
            waiting.push((i, id));
        }
        pump(&mut c, &mut w, deadline, &mut |c, _| waiting.iter().all(|(_, id)| stream_finished(c, *id)));
        for (i, id) in &waiting {
            verify_stream(&c, case, *i, *id, &w, "untouched-stream-not-served")?;
        }
        rep.inner_evaluations += waiting.len() as u64;
        if let Some((_, code)) = w.goaways.first() {
            if *code != h2::NO_ERROR && !e.any {
                return Err(Failure::new(format!("C15/reaction-not-admissible:{label}"), format!("GOAWAY with code {code} arrived late, after the connection had gone on and served its streams")));
            }
        }
        let _ = c.send(&Frame::goaway(0, h2::NO_ERROR));
    }
    drop(c);
    ending(lab, case, rep)
}

#[allow(clippy::too_many_arguments)]
fn over_limit(lab: &mut H2Lab, case: &Case, mut c: Conn, mut w: Wire, mut sk: Skel, extra: usize, mut rep: CaseReport, pings: &Cell<u8>) -> CheckResult {
    let label = case.anomaly.label();
    let Some(limit) = c.theirs.max_concurrent_streams.filter(|l| *l <= 16) else {
        rep.class("over_limit_skipped:advertised_limit_above_16");
        let _ = c.send(&Frame::goaway(0, h2::NO_ERROR));
        drop(c);
        return ending(lab, case, rep);
    };
    let limit = limit as usize;
    let m = limit + extra;
    let mut ids = vec![];
    let mut bytes = vec![];
    for k in 0..m {
        let id = sk.take_id();
        let block = c.encode_headers(&request_headers((case.seed >> k) & 1 == 1, &format!("/o{k}"), 100 + k));
        bytes.extend(enc(h2::HEADERS, h2::F_END_HEADERS, id, block));
        c.send_stream_window.entry(id).or_insert(c.theirs.initial_window_size as i64);
        ids.push(id);
    }
    write(&mut c, &mut w, &bytes);
    rep.nontrivial = true;
    rep.class("open_stream_before_anomaly");
    let mk = marker(pings);
    write(&mut c, &mut w, &Frame::ping(false, mk).encode());
    let mut acked = false;
    let end = pump(&mut c, &mut w, Instant::now() + BOUND, &mut |_, f| match f {
        Some(f) if f.typ == h2::PING && f.flags & h2::F_ACK != 0 && f.payload == mk => {
            acked = true;
            true
        }
        Some(f) if f.typ == h2::GOAWAY => true,
        _ => false,
    });
    if !lab.worker.alive() {
        return Err(worker_died(lab, &format!("after {label}")));
    }
    if acked {
        // the refusals of the excess streams
        let refused_enough = |c: &Conn| ids.iter().filter(|id| c.streams.get(id).and_then(|s| s.reset).is_some()).count() >= extra;
        pump(&mut c, &mut w, Instant::now() + Duration::from_secs(1), &mut |c, _| refused_enough(c) || c.goaway.is_some());
    } else if end == End::Timeout {
        return Err(Failure::new(format!("C15/no-progress:{label}"), format!("{m} streams opened against a limit of {limit}: neither PING ACK nor GOAWAY nor close within 3 s; last frames: {}", log_tail(&c))));
    }
    if let Some((_, code)) = w.goaways.first().copied() {
        // 5.1.2: stream error PROTOCOL_ERROR or REFUSED_STREAM, which an endpoint may escalate (5.4.1)
        rep.class(format!("r:goaway_{code}"));
        if ![PE, REFUSED].contains(&code) {
            return Err(Failure::new(format!("C15/reaction-not-admissible:{label}"), format!("{m} streams opened against an advertised limit of {limit}: GOAWAY with code {code}; admissible: RST_STREAM[7, 1] on the excess streams or GOAWAY[1, 7]")));
        }
        expect_close(&mut c, &mut w, &label)?;
        probes(lab, case.seed, "during", 0)?;
        drop(c);
        return ending(lab, case, rep);
    }
    if w.closed {
        return Err(Failure::new(format!("C15/reaction-not-admissible:{label}"), format!("{m} streams opened against an advertised limit of {limit}: the connection was closed without GOAWAY")));
    }
    let refused: Vec<(u32, u32)> = ids.iter().filter_map(|id| c.streams.get(id).and_then(|s| s.reset).map(|code| (*id, code))).collect();
    if let Some((id, code)) = refused.iter().find(|(_, code)| ![PE, REFUSED].contains(code)) {
        return Err(Failure::new(format!("C15/reaction-not-admissible:{label}"), format!("stream {id} beyond the advertised limit of {limit} was reset with code {code}; RFC 9113 5.1.2 prescribes PROTOCOL_ERROR or REFUSED_STREAM")));
    }
    // (5) never more streams open at once than advertised
    let kept = m - refused.len();
    if kept > limit {
        return Err(Failure::new(
            "C15/concurrent-streams-over-limit",
            format!("sozu advertised SETTINGS_MAX_CONCURRENT_STREAMS {limit}; {m} streams were opened at once and only {} were refused: {kept} are open concurrently (refused: {refused:?})", refused.len()),
        ));
    }
    rep.class(format!("r:refused_{}_of_{}_excess", refused.len(), extra));
    rep.class_if(refused.len() > extra, "refused_more_than_the_excess");
    probes(lab, case.seed, "during", 0)?;
    // the accepted streams are served
    let deadline = Instant::now() + BOUND;
    let kept_ids: Vec<(usize, u32)> = ids.iter().enumerate().filter(|(_, id)| !refused.iter().any(|(r, _)| r == *id)).map(|(k, id)| (k, *id)).collect();
    for (_, id) in &kept_ids {
        let _ = c.send(&Frame::data(*id, b"0123456789", true, None));
    }
    pump(&mut c, &mut w, deadline, &mut |c, _| kept_ids.iter().all(|(_, id)| stream_finished(c, *id)));
    let mut answered = 0;
    for (k, id) in &kept_ids {
        let st = c.streams.get(id).cloned().unwrap_or_default();
        let want = content(case.seed ^ (0xA100 + *k as u64), 20);
        if st.reset.is_some() || !st.end_stream || h2::hdr(&st.headers, ":status").as_deref() != Some("200") || st.body != want || h2::hdr(&st.headers, "x-lab-resp") != Some((100 + k).to_string()) {
            return Err(Failure::new(
                format!("C15/untouched-stream-not-served:{label}"),
                format!("stream {id} (within the advertised limit of {limit}, not refused) was not served: reset {:?}, complete {}, headers {:?}, {} body bytes; GOAWAY {:?}", st.reset, st.end_stream, st.headers, st.body.len(), w.goaways),
            ));
        }
        answered += 1;
    }
    rep.inner_evaluations = answered + refused.len() as u64;
    let _ = c.send(&Frame::goaway(0, h2::NO_ERROR));
    drop(c);
    ending(lab, case, rep)
}

// ------------------------------------------------------------------ child process + evidence text

const FAMILIES: &[&str] = &["stream_state", "continuation", "priority", "window_update", "settings", "ping", "rst_goaway", "frame_size_padding", "unknown_type", "request_malformed", "header_list", "concurrency", "after_goaway", "truncated", "preface", "flood", "control"];

pub fn describe(ev: &mut Evidence) {
    ev.rule(
        SUB_CONN,
        "one HTTP/2 (TLS, ALPN h2) client connection through a live worker: a valid conversation skeleton (preface, SETTINGS exchange, 0..3 POST streams with bodies up to 3 KB to an HTTP/1.1 or an h2c mock backend, each either completed before, left open (HEADERS + half of the body) or half-closed (whole request in the same write as the anomaly)) with ONE generated anomaly or flood: DATA / HEADERS on idle, even, lower-unused, closed, half-closed streams, trailers without END_STREAM, lone / foreign-stream CONTINUATION and 8 frame types interleaved in a header block, PRIORITY self-dependency and wrong length, WINDOW_UPDATE 0 / overflow / wrong length / on idle, 9 SETTINGS defects, PING length / on a stream, RST_STREAM on idle / stream 0 / wrong length, GOAWAY on a stream, 7 kinds of frames above the advertised MAX_FRAME_SIZE, padding longer than the payload, unknown frame types, 15 malformed requests (8.1.1, 8.2, 8.3), header lists above and near the advertised MAX_HEADER_LIST_SIZE, more streams than the advertised MAX_CONCURRENT_STREAMS, frames after the client's GOAWAY, a truncated frame then close / reset, 7 invalid prefaces, 7 floods of N in {8, 50, 200, 2000} frames; connection-level anomalies also travel with the client preface (state: settings exchange); the listener advertises MAX_CONCURRENT_STREAMS 4 or the default 100. Oracle: (1) the reaction on the wire - ignored/served, RST_STREAM(code) on the stream, HTTP error status, GOAWAY(code), close - is in the admissible set an expectation model written from RFC 9113 gives for the anomaly in the state it met (stream errors may be escalated, 5.4.1; where the RFC leaves a choice all choices are admitted; GOAWAY(ENHANCE_YOUR_CALM) is admitted once 20 flood-class frames, the smallest documented threshold, were sent); a malformed request or an over-limit header list is never answered 2xx; SETTINGS and PING of a connection that goes on are all acknowledged; (2) after GOAWAY with an error code the TCP connection is closed within 3 s; no anomaly leaves the connection mute (neither PING ACK nor GOAWAY nor close within 3 s); (3) streams not concerned by a stream error complete with their exact bodies; (4) the worker thread stays alive and a fresh HTTP/2 connection and an HTTP/1.1 connection are served within 3 s while the abusive connection is still open and after it; (5) of L+k streams opened at once against an advertised limit L at least k are refused (REFUSED_STREAM / PROTOCOL_ERROR) and the others served. A failing scenario is re-run twice on a fresh worker and reported only when it fails again. Non-trivial: an open or half-closed stream exists when the anomaly arrives, or the anomaly is a flood.",
    );
    ev.assume("flood admissibility is one-sided: ENHANCE_YOUR_CALM is admitted from 20 flood-class frames on and never required (RFC 9113 10.5 makes flood defence optional); the 2x-threshold 'required' clause of the design is not asserted");
    ev.assume("floods of empty DATA frames (a recorded C14 finding closes such sessions without GOAWAY) are judged by: worker alive, probes served, reaction in {served, ENHANCE_YOUR_CALM, session closed}");
    ev.assume("the mock peers keep generous flow-control windows (the head-of-line stall recorded for C14 is out of scope)");
    ev.floor(SUB_CONN, "open_stream_before_anomaly", 0.3);
    ev.floor(SUB_CONN, "state:settings_exchange", 0.03);
    ev.floor(SUB_CONN, "state:half_closed_stream", 0.1);
    ev.floor(SUB_CONN, "state:closed_stream", 0.1);
    for f in FAMILIES {
        ev.floor(SUB_CONN, &format!("f:{f}"), 0.012);
    }
}

fn install_worker_panic_hook() {
    engine::install_panic_hook();
    let prev = std::panic::take_hook();
    std::panic::set_hook(Box::new(move |info| {
        if std::thread::current().name().map(|n| n.starts_with("sozu-")).unwrap_or(false) {
            let loc = info.location().map(|l| format!("{}:{}", l.file(), l.line())).unwrap_or_else(|| "?".into());
            let msg = if let Some(s) = info.payload().downcast_ref::<&str>() {
                s.to_string()
            } else if let Some(s) = info.payload().downcast_ref::<String>() {
                s.clone()
            } else {
                "<non-string panic>".into()
            };
            *WORKER_PANIC.lock().unwrap() = Some((loc, msg));
        }
        prev(info);
    }));
}

pub fn child(args: &Args) -> Stats {
    lab::init_ports(args.shard.map(|s| s.0).unwrap_or(0));
    install_worker_panic_hook();
    let labcell: RefCell<Option<(H2Lab, bool)>> = RefCell::new(None);
    let flaky = Cell::new(0u64);
    let rebuilt = Cell::new(0u64);
    let run_on = |fresh: bool, case: &Case| -> CheckResult {
        let mut lab = match (fresh, labcell.borrow_mut().take()) {
            (false, Some((l, low))) if low == case.low_limit => l,
            (_, old) => {
                drop(old);
                *WORKER_PANIC.lock().unwrap() = None;
                rebuilt.set(rebuilt.get() + 1);
                let low = case.low_limit;
                H2Lab::new("c15", LabConfig::default(), move |l| {
                    if low {
                        l.h2_max_concurrent_streams = Some(LOW_LIMIT);
                    }
                })
            }
        };
        let r = scenario(&mut lab, case);
        *labcell.borrow_mut() = if r.is_ok() { Some((lab, case.low_limit)) } else { None };
        r
    };
    let check = |case: &Case| -> CheckResult {
        let first = run_on(false, case);
        let Err(f) = first else { return first };
        for _ in 0..2 {
            if let Err(f2) = run_on(true, case) {
                if f2.signature == f.signature {
                    return Err(f2);
                }
            }
        }
        flaky.set(flaky.get() + 1);
        engine::note_flaky("C15", &f, &serde_json::to_string(case).unwrap_or_default());
        let mut rep = CaseReport::default();
        rep.class("flaky_unconfirmed");
        Ok(rep)
    };
    let mut st = engine::run_lab_shard(args, "C15", SUB_CONN, args.cases(600, 6000), strategy(), check, 16);
    st.flaky_unconfirmed += flaky.get();
    st
}
