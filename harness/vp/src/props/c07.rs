//! C07 — a rejected configuration command leaves no trace; an accepted one changes only
//! the objects it names (in-process tier on ConfigState; DESIGN §4 C07).

use std::collections::BTreeMap;

use proptest::prelude::*;
use serde::{Deserialize, Serialize};
use serde_json::Value;
use sozu_command_lib::{
    proto::command::{Request, request::RequestType},
    state::ConfigState,
};

use crate::{
    engine::{self, Args, CaseReport, CheckResult, Evidence},
    gens::cmd,
    model::state::{first_diff, projection},
};

#[derive(Clone, Debug, Serialize, Deserialize)]
pub struct Case {
    pub history: Vec<Request>,
    pub command: Request,
}

/// the command under test: biased toward multi-field verbs with one bad field among good ones
fn command() -> impl Strategy<Value = Request> {
    let r = |t: RequestType| -> Request { t.into() };
    prop_oneof![
        6 => cmd::update_http_listener().prop_map(move |p| r(RequestType::UpdateHttpListener(p))),
        6 => cmd::update_https_listener().prop_map(move |p| r(RequestType::UpdateHttpsListener(p))),
        10 => cmd::request(),
    ]
}

/// Point `c` at an object some command of the history created (so that patches, removals and
/// replacements mostly hit existing targets); `x` picks among the candidates.
fn retarget(history: &[Request], c: &mut Request, x: u32) {
    use RequestType as T;
    let pick = |cands: Vec<&Request>| -> Option<Request> {
        if cands.is_empty() {
            None
        } else {
            Some(cands[engine::pick_idx(x, cands.len())].clone())
        }
    };
    let of = |f: fn(&T) -> bool| -> Vec<&Request> {
        history
            .iter()
            .filter(|r| r.request_type.as_ref().map(f).unwrap_or(false))
            .collect()
    };
    let Some(t) = c.request_type.as_mut() else { return };
    match t {
        T::UpdateHttpListener(p) => {
            if let Some(Request { request_type: Some(T::AddHttpListener(l)) }) = pick(of(|t| matches!(t, T::AddHttpListener(_)))) {
                p.address = l.address;
            }
        }
        T::UpdateHttpsListener(p) => {
            if let Some(Request { request_type: Some(T::AddHttpsListener(l)) }) = pick(of(|t| matches!(t, T::AddHttpsListener(_)))) {
                p.address = l.address;
            }
        }
        T::UpdateTcpListener(p) => {
            if let Some(Request { request_type: Some(T::AddTcpListener(l)) }) = pick(of(|t| matches!(t, T::AddTcpListener(_)))) {
                p.address = l.address;
            }
        }
        T::UpdateUdpListener(p) => {
            if let Some(Request { request_type: Some(T::AddUdpListener(l)) }) = pick(of(|t| matches!(t, T::AddUdpListener(_)))) {
                p.address = l.address;
            }
        }
        T::ReplaceCertificate(r) => {
            if let Some(Request { request_type: Some(T::AddCertificate(a)) }) = pick(of(|t| matches!(t, T::AddCertificate(_)))) {
                r.address = a.address;
                if let Ok(fp) = a.certificate.fingerprint() {
                    r.old_fingerprint = fp.to_string();
                }
            }
        }
        T::RemoveCertificate(r) => {
            if let Some(Request { request_type: Some(T::AddCertificate(a)) }) = pick(of(|t| matches!(t, T::AddCertificate(_)))) {
                r.address = a.address;
                if let Ok(fp) = a.certificate.fingerprint() {
                    r.fingerprint = fp.to_string();
                }
            }
        }
        T::AddCertificate(r) => {
            if let Some(Request { request_type: Some(T::AddCertificate(a)) }) = pick(of(|t| matches!(t, T::AddCertificate(_)))) {
                r.address = a.address;
            }
        }
        T::RemoveBackend(b) => {
            if let Some(Request { request_type: Some(T::AddBackend(a)) }) = pick(of(|t| matches!(t, T::AddBackend(_)))) {
                b.cluster_id = a.cluster_id;
                b.backend_id = a.backend_id;
                b.address = a.address;
            }
        }
        T::SetHealthCheck(h) => {
            if let Some(Request { request_type: Some(T::AddCluster(a)) }) = pick(of(|t| matches!(t, T::AddCluster(_)))) {
                h.cluster_id = a.cluster_id;
            }
        }
        T::RemoveHttpFrontend(f) => {
            if let Some(Request { request_type: Some(T::AddHttpFrontend(a)) }) = pick(of(|t| matches!(t, T::AddHttpFrontend(_)))) {
                *f = a;
            }
        }
        T::RemoveHttpsFrontend(f) => {
            if let Some(Request { request_type: Some(T::AddHttpsFrontend(a)) }) = pick(of(|t| matches!(t, T::AddHttpsFrontend(_)))) {
                *f = a;
            }
        }
        T::RemoveTcpFrontend(f) => {
            if let Some(Request { request_type: Some(T::AddTcpFrontend(a)) }) = pick(of(|t| matches!(t, T::AddTcpFrontend(_)))) {
                *f = a;
            }
        }
        _ => {}
    }
}

pub fn strategy() -> impl Strategy<Value = Case> {
    (cmd::history(30), command(), prop::bool::weighted(0.75), any::<u32>()).prop_map(|(history, mut command, aim, x)| {
        if aim {
            retarget(&history, &mut command, x);
        }
        Case { history, command }
    })
}

/// Flatten a projection into (map, key, sub-key) -> value entries.
fn entries(p: &Value) -> BTreeMap<(String, String, String), Value> {
    let mut out = BTreeMap::new();
    let Some(obj) = p.as_object() else { return out };
    for (map, v) in obj {
        let Some(m) = v.as_object() else { continue };
        for (k, item) in m {
            match (map.as_str(), item) {
                ("backends", Value::Array(a)) => {
                    // bucket presence is an entry of its own ("no orphan entry")
                    out.insert((map.clone(), k.clone(), "<bucket>".into()), Value::Bool(true));
                    for b in a {
                        let sub = format!("{}@{}", b["backend_id"].as_str().unwrap_or("?"), b["address"].as_str().unwrap_or("?"));
                        out.insert((map.clone(), k.clone(), sub), b.clone());
                    }
                }
                ("tcp_fronts" | "udp_fronts", Value::Array(a)) => {
                    out.insert((map.clone(), k.clone(), "<bucket>".into()), Value::Bool(true));
                    for f in a {
                        let sub = f["address"].as_str().unwrap_or("?").to_string();
                        // several frontends could share an address: keep them apart
                        let mut n = 0;
                        let mut key = (map.clone(), k.clone(), sub.clone());
                        while out.contains_key(&key) {
                            n += 1;
                            key = (map.clone(), k.clone(), format!("{sub}#{n}"));
                        }
                        out.insert(key, f.clone());
                    }
                }
                ("certificates", Value::Object(certs)) => {
                    out.insert((map.clone(), k.clone(), "<bucket>".into()), Value::Bool(true));
                    for (fp, c) in certs {
                        out.insert((map.clone(), k.clone(), fp.clone()), c.clone());
                    }
                }
                _ => {
                    out.insert((map.clone(), k.clone(), String::new()), item.clone());
                }
            }
        }
    }
    out
}

fn addr(a: &sozu_command_lib::proto::command::SocketAddress) -> String {
    std::net::SocketAddr::from(*a).to_string()
}

fn listener_map(proxy: i32) -> Option<&'static str> {
    match proxy {
        0 => Some("http_listeners"),
        1 => Some("https_listeners"),
        2 => Some("tcp_listeners"),
        3 => Some("udp_listeners"),
        _ => None,
    }
}

/// May the entry (map, key, sub) differ after command `c` was accepted?
fn named_by(c: &Request, map: &str, key: &str, sub: &str) -> bool {
    let bucket_ok = sub == "<bucket>";
    match c.request_type.as_ref() {
        Some(RequestType::AddCluster(x)) => map == "clusters" && key == x.cluster_id,
        Some(RequestType::RemoveCluster(id)) | Some(RequestType::RemoveHealthCheck(id)) => map == "clusters" && key == id,
        Some(RequestType::SetHealthCheck(x)) => map == "clusters" && key == x.cluster_id,
        Some(RequestType::AddHttpListener(l)) => map == "http_listeners" && key == addr(&l.address),
        Some(RequestType::AddHttpsListener(l)) => map == "https_listeners" && key == addr(&l.address),
        Some(RequestType::AddTcpListener(l)) => map == "tcp_listeners" && key == addr(&l.address),
        Some(RequestType::AddUdpListener(l)) => map == "udp_listeners" && key == addr(&l.address),
        Some(RequestType::UpdateHttpListener(l)) => map == "http_listeners" && key == addr(&l.address),
        Some(RequestType::UpdateHttpsListener(l)) => map == "https_listeners" && key == addr(&l.address),
        Some(RequestType::UpdateTcpListener(l)) => map == "tcp_listeners" && key == addr(&l.address),
        Some(RequestType::UpdateUdpListener(l)) => map == "udp_listeners" && key == addr(&l.address),
        Some(RequestType::RemoveListener(l)) => Some(map) == listener_map(l.proxy) && key == addr(&l.address),
        Some(RequestType::ActivateListener(l)) => Some(map) == listener_map(l.proxy) && key == addr(&l.address),
        Some(RequestType::DeactivateListener(l)) => Some(map) == listener_map(l.proxy) && key == addr(&l.address),
        Some(RequestType::AddHttpFrontend(f)) | Some(RequestType::RemoveHttpFrontend(f)) => map == "http_fronts" && key == f.to_string(),
        Some(RequestType::AddHttpsFrontend(f)) | Some(RequestType::RemoveHttpsFrontend(f)) => map == "https_fronts" && key == f.to_string(),
        Some(RequestType::AddTcpFrontend(f)) | Some(RequestType::RemoveTcpFrontend(f)) => {
            map == "tcp_fronts" && key == f.cluster_id && (bucket_ok || sub.split('#').next() == Some(addr(&f.address).as_str()))
        }
        Some(RequestType::AddUdpFrontend(f)) | Some(RequestType::RemoveUdpFrontend(f)) => {
            map == "udp_fronts" && key == f.cluster_id && (bucket_ok || sub.split('#').next() == Some(addr(&f.address).as_str()))
        }
        Some(RequestType::AddBackend(b)) => map == "backends" && key == b.cluster_id && (bucket_ok || sub == format!("{}@{}", b.backend_id, addr(&b.address))),
        Some(RequestType::RemoveBackend(b)) => map == "backends" && key == b.cluster_id && (bucket_ok || sub == format!("{}@{}", b.backend_id, addr(&b.address))),
        Some(RequestType::AddCertificate(a)) => {
            map == "certificates" && key == addr(&a.address) && (bucket_ok || a.certificate.fingerprint().map(|f| f.to_string() == sub).unwrap_or(false))
        }
        Some(RequestType::RemoveCertificate(r)) => map == "certificates" && key == addr(&r.address) && (bucket_ok || sub == r.fingerprint.to_ascii_lowercase()),
        Some(RequestType::ReplaceCertificate(r)) => {
            map == "certificates"
                && key == addr(&r.address)
                && (bucket_ok
                    || sub == r.old_fingerprint.to_ascii_lowercase()
                    || r.new_certificate.fingerprint().map(|f| f.to_string() == sub).unwrap_or(false))
        }
        _ => false,
    }
}

/// number of fields set in a patch-like command (for the non-triviality rule)
fn set_fields(c: &Request) -> usize {
    serde_json::to_value(c)
        .ok()
        .and_then(|v| v.get("request_type").cloned())
        .and_then(|v| v.as_object().and_then(|o| o.values().next().cloned()))
        .and_then(|v| v.as_object().map(|o| o.values().filter(|x| !x.is_null() && **x != Value::Array(vec![]) && !x.as_object().map(|m| m.is_empty()).unwrap_or(false)).count()))
        .unwrap_or(0)
}

pub fn check(case: &Case) -> CheckResult {
    let mut rep = CaseReport::default();
    let mut s = ConfigState::new();
    for r in &case.history {
        let _ = s.dispatch(r);
    }
    let before = projection(&s, false);
    let verdict = s.dispatch(&case.command);
    let after = projection(&s, false);
    let verb = cmd::verb(&case.command);

    let e0 = entries(&before);
    let e1 = entries(&after);
    let mut changed: Vec<(String, String, String)> = vec![];
    for (k, v) in &e0 {
        if e1.get(k) != Some(v) {
            changed.push(k.clone());
        }
    }
    for k in e1.keys() {
        if !e0.contains_key(k) {
            changed.push(k.clone());
        }
    }
    let targets_existing = e0.keys().any(|(m, k, sub)| named_by(&case.command, m, k, sub));

    match &verdict {
        Err(e) => {
            if let Some(d) = first_diff(&before, &after) {
                fail!(
                    format!("C07/rejected-command-left-trace:{verb}"),
                    "{verb} was rejected ({e}) but the configuration changed (left = before): {d}; command: {}",
                    engine::truncate(&format!("{:?}", case.command), 700)
                );
            }
        }
        Ok(()) => {
            for (m, k, sub) in &changed {
                if !named_by(&case.command, m, k, sub) {
                    fail!(
                        format!("C07/accepted-command-changed-unnamed-object:{verb}"),
                        "{verb} was accepted and changed {m}/{k}/{sub}, an object it does not name; command: {}",
                        engine::truncate(&format!("{:?}", case.command), 700)
                    );
                }
            }
        }
    }

    let fields = set_fields(&case.command);
    rep.nontrivial = (verdict.is_err() && fields >= 2) || targets_existing;
    rep.class_if(verdict.is_err(), "rejected");
    rep.class_if(verdict.is_ok(), "accepted");
    rep.class_if(verdict.is_err() && targets_existing, "rejected_on_existing_target");
    rep.class_if(verdict.is_err() && fields >= 3, "rejected_multi_field");
    rep.class_if(targets_existing, "targets_existing_object");
    rep.class(format!("verb:{verb}"));
    Ok(rep)
}

pub fn run(args: &Args) -> i32 {
    let mut ev = Evidence::new(args, "exploration");
    ev.rule(
        "state",
        "(S, c): S built by a G-cmd history of 0..30 commands; c one command biased toward multi-field listener patches with one invalid field among valid ones, certificate replace/add with unparsable payloads, unknown enum values, missing targets and duplicates. If dispatch(c) is Err the strict projection (no bucket normalisation) must be identical; if Ok only entries named by c (listener address, cluster id, frontend key, (cluster, backend id, address), (address, fingerprint)) may differ. Non-trivial: c rejected with >= 2 set fields, or c targets an object existing in S; distinct by case hash.",
    );
    ev.assume("worker-side application (lib/src/server.rs) is not in this tier");
    ev.floor("state", "rejected_on_existing_target", 0.03);
    ev.floor("state", "rejected", 0.15);
    let cases = args.cases(200_000, 3_000_000);
    engine::run_pbt(&mut ev, args, "state", cases, strategy, check);
    ev.finish()
}
