//! C11 — command channels deliver every message once, intact, within memory bounds
//! (in-process stateful check; DESIGN §4 C11).
//!
//! A `Channel<WorkerRequest, WorkerResponse>` sits on one end of a unix socket pair, the harness
//! owns the other end as a raw socket and moves bytes in arbitrary pieces. Wire format (read from
//! command/src/channel.rs): `[u64 little-endian = total frame length, prefix included][prost payload]`.
//! The peer's frames and the expected frames of the channel's writes are built by the hand-written
//! protobuf encoder of this file, never by the channel.
//!
//! Model = two FIFO byte streams with known frame boundaries. Observables: results of
//! `read_message`/`write_message`, `front_buf`/`back_buf` (public: `data()`, `available_data()`,
//! `capacity()`), `interest`/`readiness`, and the kernel's count of unread bytes (FIONREAD) on both
//! sockets, which gives the exact number of bytes the channel pulled from / pushed to the socket.

use std::{
    io::{Read, Write},
    os::unix::{
        io::{AsRawFd, RawFd},
        net::UnixStream as StdUnixStream,
    },
    time::Duration,
};

use mio::net::UnixStream as MioUnixStream;
use proptest::prelude::*;
use prost::Message as _;
use serde::{Deserialize, Serialize};
use sozu_command_lib::{
    channel::{Channel, ChannelError},
    proto::command::{Request, Status, WorkerRequest, WorkerResponse, request::RequestType},
    ready::Ready,
};

use crate::engine::{self, Args, CaseReport, CheckResult, Evidence, Failure};

const PREFIX: usize = 8;
const SIG_WEDGE: &str = "C11/undecodable-frame-wedges-channel";
const SIG_NOT_COMPACTED: &str = "C11/full-front-buffer-never-compacted";
const SIG_INTEREST_LOST: &str = "C11/read-interest-lost-after-error";

// ---------------------------------------------------------------------------
// case

#[derive(Clone, Debug, Serialize, Deserialize)]
pub enum FrameSpec {
    /// a well-formed frame whose payload is `payload` bytes long (0 = empty payload, 1..=5 -> 6;
    /// clipped so that the frame fits `max_buffer_size`)
    Valid { payload: u32, id_hint: u8, status: u8, seed: u8 },
    /// a well-formed frame of total length `max_buffer_size - below`
    NearMax { below: u8, id_hint: u8, seed: u8 },
    /// 8 bytes declaring a total length below the prefix size
    ShortPrefix { declared: u8 },
    /// 8 bytes declaring a total length above `max_buffer_size` (kind selects the excess)
    OverMax { kind: u8 },
    /// a frame with a correct prefix whose `payload` bytes are not a WorkerResponse
    Undecodable { payload: u16, flavor: u8 },
}

#[derive(Clone, Debug, Serialize, Deserialize)]
pub enum Op {
    /// the peer writes the next (up to) k bytes of its stream
    PeerWrite(u32),
    /// `handle_events(READABLE); readable()`
    ChanReadable,
    /// `read_message()`
    ChanReadMessage,
    /// `write_message()` of a WorkerRequest whose frame is about `size` bytes
    /// (`near_max`: the frame is `max_buffer_size + size - 3` bytes instead, size in 0..=6)
    ChanWriteMessage { size: u32, near_max: bool, save_state: bool, seed: u8 },
    /// `handle_events(WRITABLE); writable()`
    ChanWritable,
    /// the peer reads up to k bytes
    PeerRead(u32),
    /// the main process' loop: `sozu::command::sessions::extract_messages`
    ExtractMessages,
    /// the worker's loop (lib/src/server.rs read_channel_messages_and_notify), mirrored
    ServerLoop,
}

#[derive(Clone, Debug, Serialize, Deserialize)]
pub struct Case {
    pub buffer_size: u32,
    pub max_buffer_size: u32,
    /// SO_SNDBUF requested on both sockets (0 = kernel default)
    pub sndbuf: u32,
    pub blocking: bool,
    /// who drives the read side: 0 = arbitrary caller (primitive ops as generated, drain = worker loop
    /// then extract_messages loop), 1 = worker (every read op is the worker's read loop, drain = that
    /// loop only), 2 = main process (every read op is `writable(); extract_messages()`, drain = same)
    #[serde(default)]
    pub owner: u8,
    /// when true the undecodable-payload frames of `frames` are left out of the stream
    /// (known finding C11/undecodable-frame-wedges-channel; keeps the rest of the space explored)
    #[serde(default)]
    pub no_undecodable: bool,
    pub frames: Vec<FrameSpec>,
    pub ops: Vec<Op>,
    /// in the drain phase the peer writes at most max(drain_chunk, 1/32 of what is left) bytes per
    /// round (0 = everything at once)
    #[serde(default)]
    pub drain_chunk: u32,
}

// ---------------------------------------------------------------------------
// generators

fn frame_spec() -> impl Strategy<Value = FrameSpec> {
    prop_oneof![
        10 => (0u32..=40, any::<u8>(), 0u8..3, any::<u8>())
            .prop_map(|(payload, id_hint, status, seed)| FrameSpec::Valid { payload, id_hint, status, seed }),
        3 => (40u32..=2000, any::<u8>(), 0u8..3, any::<u8>())
            .prop_map(|(payload, id_hint, status, seed)| FrameSpec::Valid { payload, id_hint, status, seed }),
        1 => (2000u32..=65536, any::<u8>(), 0u8..3, any::<u8>())
            .prop_map(|(payload, id_hint, status, seed)| FrameSpec::Valid { payload, id_hint, status, seed }),
        2 => (0u8..=16, any::<u8>(), any::<u8>()).prop_map(|(below, id_hint, seed)| FrameSpec::NearMax { below, id_hint, seed }),
        2 => (0u8..8).prop_map(|declared| FrameSpec::ShortPrefix { declared }),
        1 => (0u8..8).prop_map(|kind| FrameSpec::OverMax { kind }),
        2 => (prop_oneof![3 => 1u16..=64, 1 => 64u16..=600], 0u8..6).prop_map(|(payload, flavor)| FrameSpec::Undecodable { payload, flavor }),
    ]
}

fn chunk() -> impl Strategy<Value = u32> {
    prop_oneof![3 => 1u32..=16, 3 => 16u32..=512, 2 => 512u32..=70_000]
}

fn write_op() -> impl Strategy<Value = Op> {
    (
        prop_oneof![4 => 0u32..=64, 2 => 64u32..=2000, 1 => 2000u32..=66_000],
        prop::bool::weighted(0.15),
        any::<bool>(),
        any::<u8>(),
    )
        .prop_map(|(size, near_max, save_state, seed)| Op::ChanWriteMessage {
            size: if near_max { size % 7 } else { size },
            near_max,
            save_state,
            seed,
        })
}

fn op() -> impl Strategy<Value = Op> {
    prop_oneof![
        8 => chunk().prop_map(Op::PeerWrite),
        4 => Just(Op::ChanReadable),
        6 => Just(Op::ChanReadMessage),
        3 => write_op(),
        3 => Just(Op::ChanWritable),
        3 => chunk().prop_map(Op::PeerRead),
        1 => Just(Op::ExtractMessages),
        1 => Just(Op::ServerLoop),
    ]
}

fn sizes() -> impl Strategy<Value = (u32, u32)> {
    (
        prop_oneof![3 => 16u32..=128, 3 => 128u32..=1024, 1 => 1024u32..=8192],
        prop_oneof![1 => Just(1u32), 4 => 2u32..=8, 2 => 8u32..=512],
        0u32..=17,
    )
        .prop_map(|(b, mult, jitter)| {
            let max = (b.saturating_mul(mult) + jitter).clamp(32, 65_536).max(b);
            (b, max)
        })
}

/// 70% of the cases leave undecodable frames out (see `Case::no_undecodable`)
const NO_UNDECODABLE_SHARE: f64 = 0.7;

pub fn strategy() -> impl Strategy<Value = Case> {
    (
        sizes(),
        prop_oneof![1 => Just(0u32), 2 => 1u32..=8192, 1 => 8192u32..=65_536],
        prop::bool::weighted(NO_UNDECODABLE_SHARE),
        prop_oneof![2 => Just(0u8), 1 => Just(1u8), 1 => Just(2u8)],
        prop::collection::vec(frame_spec(), 0..=10),
        prop::collection::vec(op(), 0..=80),
        prop_oneof![2 => Just(0u32), 2 => 1u32..=16, 2 => 16u32..=512],
    )
        .prop_map(|((buffer_size, max_buffer_size), sndbuf, no_undecodable, owner, frames, ops, drain_chunk)| Case {
            buffer_size,
            max_buffer_size,
            sndbuf,
            blocking: false,
            owner,
            no_undecodable,
            frames,
            ops,
            drain_chunk,
        })
}

pub fn strategy_blocking() -> impl Strategy<Value = Case> {
    let op = prop_oneof![
        5 => chunk().prop_map(Op::PeerWrite),
        5 => Just(Op::ChanReadMessage),
        2 => write_op(),
    ];
    (
        sizes(),
        prop::bool::weighted(NO_UNDECODABLE_SHARE),
        prop::collection::vec(frame_spec(), 0..=8),
        prop::collection::vec(op, 0..=40),
        prop_oneof![2 => Just(0u32), 2 => 1u32..=16, 2 => 16u32..=512],
    )
        .prop_map(|((buffer_size, max_buffer_size), no_undecodable, frames, ops, drain_chunk)| Case {
            buffer_size,
            max_buffer_size,
            sndbuf: 0,
            blocking: true,
            owner: 0,
            no_undecodable,
            frames,
            ops,
            drain_chunk,
        })
}

// ---------------------------------------------------------------------------
// the independent encoder / decoder (protobuf wire format by hand)

fn put_varint(out: &mut Vec<u8>, mut v: u64) {
    loop {
        let b = (v & 0x7f) as u8;
        v >>= 7;
        if v == 0 {
            out.push(b);
            return;
        }
        out.push(b | 0x80);
    }
}

fn varint_len(mut v: u64) -> usize {
    let mut n = 1;
    while v >= 0x80 {
        v >>= 7;
        n += 1;
    }
    n
}

fn put_len_field(out: &mut Vec<u8>, field: u32, data: &[u8]) {
    put_varint(out, ((field as u64) << 3) | 2);
    put_varint(out, data.len() as u64);
    out.extend_from_slice(data);
}

/// WorkerResponse { required string id = 1; required ResponseStatus status = 2; required string message = 3; }
fn enc_response(id: &str, status: u8, message: &str) -> Vec<u8> {
    let mut out = Vec::with_capacity(id.len() + message.len() + 12);
    put_len_field(&mut out, 1, id.as_bytes());
    put_varint(&mut out, 2 << 3);
    put_varint(&mut out, status as u64);
    put_len_field(&mut out, 3, message.as_bytes());
    out
}

fn response_len(id_len: usize, msg_len: usize) -> usize {
    1 + varint_len(id_len as u64) + id_len + 2 + 1 + varint_len(msg_len as u64) + msg_len
}

/// WorkerRequest { required string id = 1; required Request content = 2; }
/// Request { oneof { string save_state = 1; Status status = 12; … } }
fn enc_request(id: &str, save_state: Option<&str>) -> Vec<u8> {
    let mut content = Vec::new();
    match save_state {
        Some(path) => put_len_field(&mut content, 1, path.as_bytes()),
        None => put_len_field(&mut content, 12, &[]),
    }
    let mut out = Vec::new();
    put_len_field(&mut out, 1, id.as_bytes());
    put_len_field(&mut out, 2, &content);
    out
}

fn request_len(id_len: usize, path_len: Option<usize>) -> usize {
    let content = match path_len {
        Some(p) => 1 + varint_len(p as u64) + p,
        None => 2,
    };
    1 + varint_len(id_len as u64) + id_len + 1 + varint_len(content as u64) + content
}

fn framed(payload: &[u8]) -> Vec<u8> {
    let mut out = Vec::with_capacity(payload.len() + PREFIX);
    out.extend_from_slice(&((payload.len() + PREFIX) as u64).to_le_bytes());
    out.extend_from_slice(payload);
    out
}

fn get_varint(b: &[u8], p: &mut usize) -> Option<u64> {
    let mut v = 0u64;
    for shift in 0..10 {
        let byte = *b.get(*p)?;
        *p += 1;
        v |= ((byte & 0x7f) as u64) << (7 * shift);
        if byte & 0x80 == 0 {
            return Some(v);
        }
    }
    None
}

/// the length-delimited fields of a message, in wire order; None if anything else is in there
fn len_fields(b: &[u8]) -> Option<Vec<(u64, &[u8])>> {
    let mut p = 0;
    let mut out = vec![];
    while p < b.len() {
        let key = get_varint(b, &mut p)?;
        if key & 7 != 2 {
            return None;
        }
        let len = get_varint(b, &mut p)? as usize;
        let data = b.get(p..p.checked_add(len)?)?;
        p += len;
        out.push((key >> 3, data));
    }
    Some(out)
}

/// hand decoder of a WorkerRequest payload: (id, Some(path) for SaveState / None for Status)
fn dec_request(b: &[u8]) -> Option<(String, Option<String>)> {
    let f = len_fields(b)?;
    if f.len() != 2 || f[0].0 != 1 || f[1].0 != 2 {
        return None;
    }
    let id = String::from_utf8(f[0].1.to_vec()).ok()?;
    let c = len_fields(f[1].1)?;
    if c.len() != 1 {
        return None;
    }
    match c[0] {
        (1, path) => Some((id, Some(String::from_utf8(path.to_vec()).ok()?))),
        (12, []) => Some((id, None)),
        _ => None,
    }
}

/// position-dependent printable ASCII
fn text(seed: u8, salt: usize, n: usize) -> String {
    (0..n).map(|i| (b'!' + ((seed as usize + salt + i * 7 + (i >> 6) * 13) % 90) as u8) as char).collect()
}

/// largest n in 0..=hi with f(n) <= target (f increasing); None if f(0) > target
fn largest_fitting(target: usize, hi: usize, f: impl Fn(usize) -> usize) -> Option<usize> {
    if f(0) > target {
        return None;
    }
    let (mut lo, mut hi) = (0usize, hi);
    while lo < hi {
        let mid = (lo + hi + 1) / 2;
        if f(mid) <= target {
            lo = mid;
        } else {
            hi = mid - 1;
        }
    }
    Some(lo)
}

/// (id_len, msg_len) of a canonical WorkerResponse payload of exactly `target` bytes (target >= 6)
fn size_response(target: usize, id_hint: u8) -> (usize, usize) {
    let id0 = (id_hint as usize % 24).min(target - 6);
    let mut best = (0, 0);
    for id_len in [id0, id0 + 1, id0.saturating_sub(1), id0 + 2] {
        if let Some(m) = largest_fitting(target, target, |m| response_len(id_len, m)) {
            if response_len(id_len, m) == target {
                return (id_len, m);
            }
            if response_len(id_len, m) > response_len(best.0, best.1) || best == (0, 0) {
                best = (id_len, m);
            }
        }
    }
    best
}

/// (id_len, path_len) of a WorkerRequest whose payload is `target` bytes, or the closest below
/// (the smallest possible if target is too small)
fn size_request(target: usize, save_state: bool, id_hint: u8) -> (usize, Option<usize>) {
    if !save_state {
        let n = largest_fitting(target, target, |n| request_len(n, None)).unwrap_or(0);
        return (n, None);
    }
    let id0 = id_hint as usize % 24;
    let mut best: Option<(usize, usize)> = None;
    for id_len in [id0, id0 + 1, id0 + 2, id0 + 3] {
        if let Some(p) = largest_fitting(target, target, |p| request_len(id_len, Some(p))) {
            if request_len(id_len, Some(p)) == target {
                return (id_len, Some(p));
            }
            if best.map(|(i, q)| request_len(id_len, Some(p)) > request_len(i, Some(q))).unwrap_or(true) {
                best = Some((id_len, p));
            }
        }
    }
    match best {
        Some((i, p)) => (i, Some(p)),
        None => (0, Some(0)),
    }
}

// ---------------------------------------------------------------------------
// the peer's outgoing stream

#[derive(Clone, Copy, Debug, PartialEq, Eq)]
enum Kind {
    Valid,
    Short,
    OverMax,
    Undecodable,
}

struct Frame {
    kind: Kind,
    start: usize,
    /// bytes this frame occupies in the stream (Short/OverMax: the 8 prefix bytes)
    len: usize,
    declared: u64,
    /// the message the peer framed and its canonical encoding
    expected: Option<(WorkerResponse, Vec<u8>)>,
    /// number of peer writes that carried a part of this frame
    writes: u32,
    /// times `read_message` reported this (undecodable) frame without dropping it
    refused: u32,
}

fn undecodable_payload(n: usize, flavor: u8) -> Vec<u8> {
    let n = n.max(1);
    let mut p: Vec<u8> = match flavor {
        // field 1 (string) with wire type varint
        1 => vec![0x08, 0x01],
        // string longer than what is left
        2 => {
            let mut v = vec![0x0a];
            put_varint(&mut v, n as u64 + 5);
            v.resize(n.max(v.len()), b'a');
            v
        }
        // id is not UTF-8
        3 if (3..=129).contains(&n) => {
            let mut v = vec![0x0a, (n - 2) as u8];
            v.resize(n, 0xff);
            v
        }
        // field number 0
        4 => vec![0x02, 0x00],
        // a canonical message followed by half a tag
        5 if n >= 7 => {
            let (i, m) = size_response(n - 1, 3);
            let mut v = enc_response(&text(1, 0, i), 1, &text(2, 0, m));
            v.push(0xff);
            v
        }
        // an endless varint
        _ => vec![0xff; n],
    };
    p.resize(n, 0x00);
    p
}

struct Stream {
    bytes: Vec<u8>,
    frames: Vec<Frame>,
    skipped_undecodable: u64,
}

fn build_stream(case: &Case) -> Stream {
    let max = case.max_buffer_size as usize;
    let mut s = Stream { bytes: vec![], frames: vec![], skipped_undecodable: 0 };
    for spec in &case.frames {
        let start = s.bytes.len();
        let valid = |payload_target: usize, id_hint: u8, status: u8, seed: u8| -> (Vec<u8>, WorkerResponse, Vec<u8>) {
            if payload_target == 0 {
                // an empty payload decodes to the default message
                let canon = enc_response("", 0, "");
                return (framed(&[]), WorkerResponse { id: String::new(), status: 0, message: String::new(), content: None }, canon);
            }
            let (i, m) = size_response(payload_target.max(6), id_hint);
            let (id, msg) = (text(seed, 0, i), text(seed, 1000, m));
            let payload = enc_response(&id, status, &msg);
            let expected = WorkerResponse { id, status: status as i32, message: msg, content: None };
            (framed(&payload), expected, payload)
        };
        let (kind, bytes, declared, expected) = match *spec {
            FrameSpec::Valid { payload, id_hint, status, seed } => {
                let room = max.saturating_sub(PREFIX);
                let target = (payload as usize).min(room);
                let target = if (1..6).contains(&target) { if room >= 6 { 6 } else { 0 } } else { target };
                let (b, e, c) = valid(target, id_hint, status % 3, seed);
                (Kind::Valid, b, 0, Some((e, c)))
            }
            FrameSpec::NearMax { below, id_hint, seed } => {
                let total = max.saturating_sub(below as usize).max(PREFIX + 6);
                let (b, e, c) = valid(total - PREFIX, id_hint, seed % 3, seed);
                (Kind::Valid, b, 0, Some((e, c)))
            }
            FrameSpec::ShortPrefix { declared } => {
                let d = (declared % 8) as u64;
                (Kind::Short, d.to_le_bytes().to_vec(), d, None)
            }
            FrameSpec::OverMax { kind } => {
                let m = max as u64;
                let d = match kind % 8 {
                    0 => m + 1,
                    1 => m + 2,
                    2 => m * 2,
                    3 => m + 0x100,
                    4 => 1 << 31,
                    5 => 1 << 32,
                    6 => 1 << 63,
                    _ => u64::MAX,
                };
                (Kind::OverMax, d.to_le_bytes().to_vec(), d, None)
            }
            FrameSpec::Undecodable { payload, flavor } => {
                if case.no_undecodable {
                    s.skipped_undecodable += 1;
                    continue;
                }
                let n = (payload as usize).clamp(1, max.saturating_sub(PREFIX).max(1));
                let p = undecodable_payload(n, flavor);
                if WorkerResponse::decode(&p[..]).is_ok() {
                    panic!("C11 harness bug: 'undecodable' payload decodes: {p:?}");
                }
                (Kind::Undecodable, framed(&p), 0, None)
            }
        };
        let len = bytes.len();
        let declared = if declared == 0 && kind != Kind::Short { len as u64 } else { declared };
        s.bytes.extend_from_slice(&bytes);
        s.frames.push(Frame { kind, start, len, declared, expected, writes: 0, refused: 0 });
    }
    s
}

// ---------------------------------------------------------------------------
// the world

fn inq(fd: RawFd) -> usize {
    let mut n: libc::c_int = 0;
    // SAFETY: FIONREAD writes one c_int through the pointer
    let r = unsafe { libc::ioctl(fd, libc::FIONREAD, &mut n as *mut libc::c_int) };
    if r != 0 {
        panic!("C11 harness: ioctl(FIONREAD) failed: {}", std::io::Error::last_os_error());
    }
    n as usize
}

fn set_sndbuf(fd: RawFd, v: u32) {
    let v = v as libc::c_int;
    // SAFETY: plain setsockopt with a c_int value
    unsafe {
        libc::setsockopt(fd, libc::SOL_SOCKET, libc::SO_SNDBUF, &v as *const libc::c_int as *const libc::c_void, std::mem::size_of::<libc::c_int>() as libc::socklen_t);
    }
}

fn err_name(e: &ChannelError) -> &'static str {
    match e {
        ChannelError::Read(_) => "Read",
        ChannelError::NoByteWritten => "NoByteWritten",
        ChannelError::NoByteToRead => "NoByteToRead",
        ChannelError::MessageTooLarge { .. } => "MessageTooLarge",
        ChannelError::MessageLengthUnderDelimiter { .. } => "MessageLengthUnderDelimiter",
        ChannelError::Write(_) => "Write",
        ChannelError::BufferFull { .. } => "BufferFull",
        ChannelError::TimeoutReached(_) => "TimeoutReached",
        ChannelError::NothingRead => "NothingRead",
        ChannelError::InvalidCharSet(_) => "InvalidCharSet",
        ChannelError::SetTimeout { .. } => "SetTimeout",
        ChannelError::BlockingStatus { .. } => "BlockingStatus",
        ChannelError::Connection(_) => "Connection",
        ChannelError::InvalidProtobufMessage(_) => "InvalidProtobufMessage",
        ChannelError::MismatchBufferSize => "MismatchBufferSize",
    }
}

#[derive(Default)]
struct Seen {
    front_grew: bool,
    front_shrank: bool,
    back_grew: bool,
    back_shrank: bool,
    chan_write_wouldblock: bool,
    peer_write_wouldblock: bool,
    read_interest_dropped: bool,
    buffer_full_error: bool,
    write_refused: bool,
    extract_used: bool,
    server_loop_used: bool,
    short_reported: u32,
    overmax_reported: u32,
    undecodable_reported: u32,
    undecodable_skipped_by_channel: u32,
    big_delivered: bool,
    empty_delivered: bool,
    blocking_peer_stuck: bool,
    reads: u64,
}

struct World {
    chan: Channel<WorkerRequest, WorkerResponse>,
    peer: StdUnixStream,
    blocking: bool,
    owner: u8,
    drain_chunk: usize,
    initial: usize,
    max: usize,
    stream: Vec<u8>,
    frames: Vec<Frame>,
    /// bytes of `stream` the kernel accepted from the peer
    sent: usize,
    /// index of the frame at the channel's parse position
    fi: usize,
    delivered: u64,
    last_read_err: &'static str,
    /// what the peer must receive: frames of the accepted writes, concatenated
    out_expected: Vec<u8>,
    out_msgs: Vec<(String, Option<String>)>,
    peer_in: Vec<u8>,
    front_cap: usize,
    back_cap: usize,
    seen: Seen,
}

impl World {
    fn new(case: &Case) -> World {
        let (a, b) = StdUnixStream::pair().expect("socketpair");
        a.set_nonblocking(true).expect("nonblocking");
        b.set_nonblocking(true).expect("nonblocking");
        if case.sndbuf > 0 {
            set_sndbuf(a.as_raw_fd(), case.sndbuf);
            set_sndbuf(b.as_raw_fd(), case.sndbuf);
        }
        let mut chan: Channel<WorkerRequest, WorkerResponse> =
            Channel::new(MioUnixStream::from_std(a), case.buffer_size as u64, case.max_buffer_size as u64);
        if case.blocking {
            chan.blocking().expect("blocking()");
        }
        let st = build_stream(case);
        World {
            chan,
            peer: b,
            blocking: case.blocking,
            owner: if case.blocking { 0 } else { case.owner.min(2) },
            drain_chunk: case.drain_chunk as usize,
            initial: case.buffer_size as usize,
            max: case.max_buffer_size as usize,
            stream: st.bytes,
            frames: st.frames,
            sent: 0,
            fi: 0,
            delivered: 0,
            last_read_err: "-",
            out_expected: vec![],
            out_msgs: vec![],
            peer_in: vec![],
            front_cap: case.buffer_size as usize,
            back_cap: case.buffer_size as usize,
            seen: Seen::default(),
        }
    }

    /// the front buffer is at its maximal capacity with no free tail, yet holds less than its capacity:
    /// the consumed bytes at its head were not reclaimed
    fn full_uncompacted(&self) -> bool {
        let b = &self.chan.front_buf;
        b.capacity() >= self.max && b.available_space() == 0 && b.available_data() < b.capacity()
    }

    fn ppos(&self) -> usize {
        self.frames.get(self.fi).map(|f| f.start).unwrap_or(self.stream.len())
    }

    fn state(&self) -> String {
        format!(
            "[buffer_size {} max {} | front: cap {} data {} space {} | back: cap {} data {} | interest {:?} readiness {:?} | peer sent {}/{} bytes, unread in socket {} | frame #{}/{} at stream offset {} | last read error {}]",
            self.initial,
            self.max,
            self.chan.front_buf.capacity(),
            self.chan.front_buf.available_data(),
            self.chan.front_buf.available_space(),
            self.chan.back_buf.capacity(),
            self.chan.back_buf.available_data(),
            self.chan.interest,
            self.chan.readiness,
            self.sent,
            self.stream.len(),
            inq(self.chan.fd()),
            self.fi,
            self.frames.len(),
            self.ppos(),
            self.last_read_err,
        )
    }

    fn describe(&self, i: usize) -> String {
        match self.frames.get(i) {
            None => "end of stream".into(),
            Some(f) => format!("{:?} frame #{i} ({} bytes, declared length {})", f.kind, f.len, f.declared),
        }
    }

    /// invariants that hold after every step
    fn observe(&mut self) -> Result<(), Failure> {
        let (fc, bc) = (self.chan.front_buf.capacity(), self.chan.back_buf.capacity());
        if fc > self.max || bc > self.max {
            fail!("C11/buffer-exceeds-max", "front_buf capacity {fc}, back_buf capacity {bc}, max_buffer_size {} {}", self.max, self.state());
        }
        self.seen.front_grew |= fc > self.front_cap;
        self.seen.front_shrank |= fc < self.front_cap;
        self.seen.back_grew |= bc > self.back_cap;
        self.seen.back_shrank |= bc < self.back_cap;
        self.front_cap = fc;
        self.back_cap = bc;

        // read side: what the channel pulled and has not consumed is exactly the stream from the parse position
        let avail = self.chan.front_buf.available_data();
        let pulled = self.sent as i64 - inq(self.chan.fd()) as i64;
        let ppos = self.ppos() as i64;
        if pulled - avail as i64 != ppos {
            fail!(
                "C11/byte-accounting",
                "the channel pulled {pulled} bytes and holds {avail}, so it consumed {} bytes, but the frames handed out so far end at stream offset {ppos} {}",
                pulled - avail as i64,
                self.state()
            );
        }
        let want = &self.stream[ppos as usize..ppos as usize + avail];
        if self.chan.front_buf.data() != want {
            let got = self.chan.front_buf.data();
            let at = got.iter().zip(want).position(|(a, b)| a != b).unwrap_or(0);
            fail!("C11/buffered-bytes-corrupted", "front_buf differs from the peer's stream at buffered offset {at} (stream offset {}) {}", ppos as usize + at, self.state());
        }

        // write side
        let pending = self.chan.back_buf.available_data();
        let flushed = self.peer_in.len() + inq(self.peer.as_raw_fd());
        if self.out_expected.len() < pending || self.out_expected.len() - pending != flushed {
            fail!(
                "C11/write-byte-accounting",
                "accepted frames total {} bytes, back_buf holds {pending}, but {flushed} bytes reached the socket {}",
                self.out_expected.len(),
                self.state()
            );
        }
        if self.chan.back_buf.data() != &self.out_expected[flushed..] {
            fail!("C11/written-bytes-corrupted", "back_buf content differs from the unflushed tail of the accepted frames {}", self.state());
        }
        Ok(())
    }

    fn peer_write(&mut self, k: usize) -> usize {
        let end = self.stream.len().min(self.sent.saturating_add(k));
        if end == self.sent {
            return 0;
        }
        let n = match self.peer.write(&self.stream[self.sent..end]) {
            Ok(n) => n,
            Err(e) if e.kind() == std::io::ErrorKind::WouldBlock => 0,
            Err(e) => panic!("C11 harness: peer write failed: {e}"),
        };
        if n < end - self.sent {
            self.seen.peer_write_wouldblock = true;
        }
        if n > 0 {
            let (a, b) = (self.sent, self.sent + n);
            for f in self.frames.iter_mut() {
                if f.start < b && f.start + f.len > a {
                    f.writes += 1;
                }
            }
            self.sent = b;
        }
        n
    }

    fn peer_read(&mut self, k: usize) -> Result<usize, Failure> {
        let mut total = 0;
        let mut buf = vec![0u8; k.min(65_536)];
        while total < k {
            let want = (k - total).min(buf.len());
            match self.peer.read(&mut buf[..want]) {
                Ok(0) => panic!("C11 harness: channel side closed"),
                Ok(n) => {
                    self.peer_in.extend_from_slice(&buf[..n]);
                    total += n;
                }
                Err(e) if e.kind() == std::io::ErrorKind::WouldBlock => break,
                Err(e) => panic!("C11 harness: peer read failed: {e}"),
            }
        }
        if self.peer_in.len() > self.out_expected.len() || self.peer_in[..] != self.out_expected[..self.peer_in.len()] {
            let at = self.peer_in.iter().zip(&self.out_expected).position(|(a, b)| a != b).unwrap_or(self.out_expected.len());
            fail!("C11/written-bytes-corrupted", "the peer received bytes that differ from the accepted frames at offset {at} (received {} bytes, accepted {}) {}", self.peer_in.len(), self.out_expected.len(), self.state());
        }
        Ok(total)
    }

    fn do_readable(&mut self) -> Result<usize, Failure> {
        let r = self.chan.readable();
        if !self.chan.interest.is_readable() {
            self.seen.read_interest_dropped = true;
        }
        match r {
            Ok(n) => Ok(n),
            Err(ChannelError::Connection(None)) => Ok(0),
            Err(e) => fail!("C11/unexpected-io-error", "readable() failed although the peer is alive: {e:?} {}", self.state()),
        }
    }

    fn do_writable(&mut self) -> Result<usize, Failure> {
        let r = self.chan.writable();
        match r {
            Ok(n) => {
                if self.chan.back_buf.available_data() > 0 {
                    self.seen.chan_write_wouldblock = true;
                }
                Ok(n)
            }
            Err(ChannelError::Connection(None)) => Ok(0),
            Err(e) => fail!("C11/unexpected-io-error", "writable() failed although the peer is alive: {e:?} {}", self.state()),
        }
    }

    /// would a blocking `read_message` return without further peer writes?
    fn blocking_read_returns(&self) -> bool {
        let reach = self.chan.front_buf.available_data() + inq(self.chan.fd());
        match self.frames.get(self.fi) {
            None => false,
            Some(f) => match f.kind {
                Kind::Short | Kind::OverMax => reach >= PREFIX,
                Kind::Valid | Kind::Undecodable => reach >= f.len,
            },
        }
    }

    /// one `read_message` call against the model; Ok(true) if a message was delivered
    fn read_one(&mut self) -> Result<bool, Failure> {
        let fd = self.chan.fd();
        let avail_b = self.chan.front_buf.available_data();
        let inq_b = inq(fd);
        // bytes the call can look at: the buffer, plus the socket in blocking mode
        let reach = if self.blocking { avail_b + inq_b } else { avail_b };
        let r = if self.blocking {
            // same code path as read_message(); the timeout only fires if the channel hangs
            self.chan.read_message_blocking_timeout(Some(Duration::from_secs(10)))
        } else {
            self.chan.read_message()
        };
        self.seen.reads += 1;
        let consumed = (avail_b + inq_b) as i64 - (self.chan.front_buf.available_data() + inq(fd)) as i64;
        if let Err(e) = &r {
            self.last_read_err = err_name(e);
            self.seen.buffer_full_error |= matches!(e, ChannelError::BufferFull { .. });
            if matches!(e, ChannelError::TimeoutReached(_)) {
                fail!("C11/blocking-read-hangs", "blocking read_message did not return although {} is completely available {}", self.describe(self.fi), self.state());
            }
        }
        let fi = self.fi;
        let what = self.describe(fi);
        // (message expected, bytes that must be consumed, or for undecodable: 0 or len)
        let (kind, len) = match self.frames.get(fi) {
            None => (None, 0),
            Some(f) => match f.kind {
                Kind::Short if reach >= PREFIX => (Some(Kind::Short), PREFIX),
                Kind::OverMax if reach >= PREFIX => (Some(Kind::OverMax), 0),
                Kind::Valid if reach >= f.len => (Some(Kind::Valid), f.len),
                Kind::Undecodable if reach >= f.len => (Some(Kind::Undecodable), f.len),
                _ => (None, 0),
            },
        };
        match (kind, r) {
            (Some(Kind::Valid), Ok(m)) => {
                let (want, canon) = self.frames[fi].expected.as_ref().expect("valid frame has a message");
                if &m != want {
                    fail!("C11/message-corrupted", "{what} was delivered as {} instead of {}", engine::truncate(&format!("{m:?}"), 300), engine::truncate(&format!("{want:?}"), 300));
                }
                if &m.encode_to_vec() != canon {
                    fail!("C11/message-corrupted", "{what}: the delivered message does not re-encode to the canonical payload");
                }
                if consumed != len as i64 {
                    fail!("C11/misframed", "{what} was delivered but {consumed} bytes were consumed instead of {len} {}", self.state());
                }
                self.seen.big_delivered |= len * 2 > self.max;
                self.seen.empty_delivered |= len == PREFIX;
                self.fi += 1;
                self.delivered += 1;
                Ok(true)
            }
            (Some(Kind::Valid), Err(e)) => {
                let sig = if matches!(e, ChannelError::BufferFull { .. }) && self.full_uncompacted() {
                    SIG_NOT_COMPACTED.to_string()
                } else {
                    format!("C11/valid-frame-not-delivered:{}", err_name(&e))
                };
                fail!(
                    sig,
                    "{what} is completely available ({reach} bytes reachable) but read_message returned {e:?} {}",
                    self.state()
                );
            }
            (_, Ok(m)) => {
                fail!("C11/phantom-message", "read_message returned {} although the next thing in the stream is {what} with {reach} bytes reachable {}", engine::truncate(&format!("{m:?}"), 300), self.state());
            }
            (Some(Kind::Undecodable), Err(_)) => {
                self.seen.undecodable_reported += 1;
                if consumed == len as i64 {
                    self.seen.undecodable_skipped_by_channel += 1;
                    self.fi += 1;
                } else if consumed == 0 {
                    self.frames[fi].refused += 1;
                    // the frame is still at the front of the buffer; is a valid frame complete behind it?
                    if self.frames[fi].refused >= 2 {
                        if let Some(next) = self.frames.get(fi + 1) {
                            if next.kind == Kind::Valid && reach >= len + next.len {
                                fail!(
                                    SIG_WEDGE,
                                    "{what} was reported as an error {} times and is still at the front of the buffer; the valid {} is completely available behind it and is never delivered (last error {}) {}",
                                    self.frames[fi].refused,
                                    self.describe(fi + 1),
                                    self.last_read_err,
                                    self.state()
                                );
                            }
                        }
                    }
                } else {
                    fail!("C11/misframed-on-error", "{what}: the error consumed {consumed} bytes, neither nothing nor the frame {}", self.state());
                }
                Ok(false)
            }
            (k, Err(_)) => {
                if consumed != len as i64 {
                    fail!("C11/misframed-on-error", "{what} with {reach} bytes reachable: the error consumed {consumed} bytes instead of {len} {}", self.state());
                }
                match k {
                    Some(Kind::Short) => {
                        self.seen.short_reported += 1;
                        self.fi += 1;
                    }
                    Some(Kind::OverMax) => self.seen.overmax_reported += 1,
                    _ => {}
                }
                Ok(false)
            }
        }
    }

    /// lib/src/server.rs read_channel_messages_and_notify, minus the dispatch of the requests
    fn server_loop(&mut self) -> Result<(), Failure> {
        if !self.chan.readiness().is_readable() {
            return Ok(());
        }
        self.do_readable()?;
        let mut spins = 0u32;
        loop {
            if self.read_one()? {
                continue;
            }
            if (self.chan.interest & self.chan.readiness).is_readable() {
                self.do_readable()?;
                spins += 1;
                if spins > 200_000 {
                    fail!("C11/read-loop-spins", "the worker's read loop does not terminate {}", self.state());
                }
                continue;
            }
            return Ok(());
        }
    }

    /// bin/src/command/sessions.rs extract_messages (the real one) against the batch model
    fn extract(&mut self) -> Result<(), Failure> {
        let fd = self.chan.fd();
        let before = self.chan.front_buf.available_data() + inq(fd);
        let msgs = sozu::command::sessions::extract_messages(&mut self.chan);
        let after = self.chan.front_buf.available_data() + inq(fd);
        let mut left = before as i64 - after as i64;
        let mut want: Vec<&WorkerResponse> = vec![];
        let mut i = self.fi;
        while left > 0 {
            let Some(f) = self.frames.get(i) else { break };
            if f.kind == Kind::OverMax || (f.len as i64) > left {
                break;
            }
            if let Some((m, _)) = &f.expected {
                want.push(m);
            }
            left -= f.len as i64;
            i += 1;
        }
        if left != 0 {
            fail!("C11/misframed", "extract_messages consumed {} bytes from {}: not a whole number of frames {}", before as i64 - after as i64, self.describe(self.fi), self.state());
        }
        if msgs.len() != want.len() || msgs.iter().zip(&want).any(|(a, b)| a != *b) {
            fail!(
                "C11/message-corrupted",
                "extract_messages consumed frames #{}..#{i} and returned {} messages where the peer framed {}: got {} want {}",
                self.fi,
                msgs.len(),
                want.len(),
                engine::truncate(&format!("{msgs:?}"), 300),
                engine::truncate(&format!("{want:?}"), 300)
            );
        }
        self.delivered += msgs.len() as u64;
        self.fi = i;
        self.seen.extract_used = true;
        // extract_messages stops at the first error: a complete undecodable frame at the front of
        // the buffer now is one that read_message just reported and did not drop
        let avail = self.chan.front_buf.available_data();
        if let Some(f) = self.frames.get_mut(i) {
            if f.kind == Kind::Undecodable && avail >= f.len {
                f.refused += 1;
                self.seen.undecodable_reported += 1;
                self.last_read_err = "InvalidProtobufMessage";
            }
        }
        Ok(())
    }

    /// the loop of extract_messages, mirrored on top of `read_one`
    fn extract_mirror(&mut self) -> Result<(), Failure> {
        for _ in 0..200_000u32 {
            self.do_readable()?;
            let cap = self.chan.front_buf.capacity();
            if self.read_one()? {
                continue;
            }
            if self.chan.front_buf.capacity() == cap {
                return Ok(());
            }
        }
        fail!("C11/read-loop-spins", "the extract_messages loop does not terminate {}", self.state());
    }

    /// one readable event as the owner of the channel handles it
    fn owner_read(&mut self, events: Ready) -> Result<(), Failure> {
        self.chan.handle_events(events);
        match self.owner {
            1 => {
                self.seen.server_loop_used = true;
                self.server_loop()
            }
            _ => {
                // WorkerSession::ready / ClientSession::ready
                self.do_writable()?;
                self.extract()
            }
        }
    }

    fn write_message(&mut self, size: u32, near_max: bool, save_state: bool, seed: u8) -> Result<(), Failure> {
        let total = if near_max { (self.max + size as usize).saturating_sub(3) } else { (size as usize).min(self.max + 32) };
        let (id_len, path_len) = size_request(total.saturating_sub(PREFIX), save_state, seed);
        let id = text(seed, 0, id_len);
        let path = path_len.map(|p| text(seed, 500, p));
        let msg = WorkerRequest {
            id: id.clone(),
            content: Request {
                request_type: Some(match &path {
                    Some(p) => RequestType::SaveState(p.clone()),
                    None => RequestType::Status(Status {}),
                }),
            },
        };
        let frame = framed(&enc_request(&id, path.as_deref()));
        let pending = self.chan.back_buf.available_data();
        if self.blocking && frame.len() <= self.max {
            // a blocking write of an accepted frame goes straight to the socket: the peer must have room
            self.peer_read(usize::MAX)?;
        }
        match self.chan.write_message(&msg) {
            Ok(()) => {
                if frame.len() > self.max {
                    fail!("C11/oversized-write-accepted", "a frame of {} bytes was accepted, max_buffer_size {} {}", frame.len(), self.max, self.state());
                }
                self.out_expected.extend_from_slice(&frame);
                self.out_msgs.push((id, path));
            }
            Err(ChannelError::MessageTooLarge { .. }) => {
                self.seen.write_refused = true;
                if pending == 0 && frame.len() <= self.max {
                    fail!("C11/write-refused-within-max", "a frame of {} bytes was refused on an empty back buffer, max_buffer_size {} {}", frame.len(), self.max, self.state());
                }
            }
            Err(e) => fail!("C11/unexpected-io-error", "write_message failed: {e:?} {}", self.state()),
        }
        if self.blocking {
            self.peer_read(usize::MAX)?;
        }
        Ok(())
    }

    fn step(&mut self, op: &Op) -> Result<(), Failure> {
        match *op {
            Op::PeerWrite(k) => {
                self.peer_write(k as usize);
            }
            Op::PeerRead(k) => {
                self.peer_read(k as usize)?;
            }
            Op::ChanWriteMessage { size, near_max, save_state, seed } => self.write_message(size, near_max, save_state, seed)?,
            Op::ChanReadMessage if self.owner == 0 => {
                if !self.blocking || self.blocking_read_returns() {
                    self.read_one()?;
                }
            }
            _ if self.blocking => {}
            Op::ChanWritable => {
                self.chan.handle_events(Ready::WRITABLE);
                self.do_writable()?;
            }
            _ if self.owner != 0 => self.owner_read(Ready::READABLE)?,
            Op::ChanReadable => {
                self.chan.handle_events(Ready::READABLE);
                self.do_readable()?;
            }
            Op::ExtractMessages => {
                self.chan.handle_events(Ready::READABLE);
                self.extract()?;
            }
            Op::ServerLoop => {
                self.chan.handle_events(Ready::READABLE);
                self.seen.server_loop_used = true;
                self.server_loop()?;
            }
            // owner 0 is handled by the guarded arm, the other owners by `owner_read`
            Op::ChanReadMessage => {}
        }
        self.observe()
    }

    /// Let both sides run until nothing moves any more, the way the owners' event loops would.
    fn drain(&mut self) -> Result<(), Failure> {
        let mut idle = 0;
        for _round in 0..200_000u32 {
            let mark = (self.sent, self.fi, self.peer_in.len(), self.chan.front_buf.capacity(), self.chan.front_buf.available_data(), self.chan.back_buf.available_data());
            // blocking mode: the channel only reads when a whole frame is reachable, so the peer must not
            // exhaust the socket buffer with the per-write overhead of small pieces
            let k = if self.drain_chunk == 0 || self.blocking { usize::MAX } else { self.drain_chunk.max((self.stream.len() - self.sent) / 32 + 1) };
            self.peer_write(k);
            if self.blocking {
                while self.blocking_read_returns() {
                    let fi = self.fi;
                    self.read_one()?;
                    if self.fi == fi {
                        break;
                    }
                }
            } else if self.owner != 0 {
                self.owner_read(Ready::READABLE | Ready::WRITABLE)?;
                self.do_writable()?;
            } else {
                self.chan.handle_events(Ready::READABLE | Ready::WRITABLE);
                self.server_loop()?;
                self.extract_mirror()?;
                self.do_writable()?;
            }
            self.peer_read(usize::MAX)?;
            self.observe()?;
            let now = (self.sent, self.fi, self.peer_in.len(), self.chan.front_buf.capacity(), self.chan.front_buf.available_data(), self.chan.back_buf.available_data());
            if now == mark {
                idle += 1;
                // two more rounds after the last movement: every pending error is reported at least twice
                if idle >= 3 {
                    return Ok(());
                }
            } else {
                idle = 0;
            }
        }
        fail!("C11/drain-does-not-settle", "both sides still move after 200000 rounds {}", self.state());
    }

    fn final_checks(&mut self) -> Result<(), Failure> {
        // read side: everything before an over-max prefix must have been handed out
        if let Some(f) = self.frames.get(self.fi) {
            let valid_behind = self.frames[self.fi + 1..].iter().take_while(|g| g.kind != Kind::OverMax).filter(|g| g.kind == Kind::Valid).count();
            match f.kind {
                Kind::OverMax => {}
                Kind::Undecodable if f.refused > 0 => {
                    if valid_behind > 0 {
                        fail!(
                            SIG_WEDGE,
                            "{} was reported as an error {} times and never dropped; {valid_behind} valid frame(s) the peer sent behind it were never delivered (last error {}) {}",
                            self.describe(self.fi),
                            f.refused,
                            self.last_read_err,
                            self.state()
                        );
                    }
                }
                // blocking mode reads only what the model says is complete; the peer could not send the rest
                _ if self.blocking && !self.blocking_read_returns() => self.seen.blocking_peer_stuck = true,
                _ => {
                    let avail = self.chan.front_buf.available_data();
                    let sig = if avail < f.len && self.full_uncompacted() {
                        SIG_NOT_COMPACTED
                    } else if !self.chan.interest.is_readable() {
                        // the owner's loop is gated on `readiness()` and nothing re-arms READABLE
                        SIG_INTEREST_LOST
                    } else {
                        "C11/stalled"
                    };
                    fail!(
                        sig,
                        "nothing moves any more but {} was never handed out ({avail} of its bytes are buffered, {valid_behind} more valid frame(s) behind it) {}",
                        self.describe(self.fi),
                        self.state()
                    );
                }
            }
        }
        // write side
        if self.chan.back_buf.available_data() > 0 {
            fail!("C11/write-stalled", "nothing moves any more but back_buf still holds {} bytes {}", self.chan.back_buf.available_data(), self.state());
        }
        if self.peer_in != self.out_expected {
            fail!("C11/written-bytes-corrupted", "the peer received {} bytes, the accepted frames total {}", self.peer_in.len(), self.out_expected.len());
        }
        // decode what the peer received by hand
        let mut p = 0;
        let mut got = vec![];
        while p < self.peer_in.len() {
            let Some(prefix) = self.peer_in.get(p..p + PREFIX) else {
                fail!("C11/written-frame-malformed", "truncated prefix at offset {p} of the peer's input");
            };
            let total = u64::from_le_bytes(prefix.try_into().expect("8 bytes")) as usize;
            let Some(payload) = (total >= PREFIX).then(|| self.peer_in.get(p + PREFIX..p + total)).flatten() else {
                fail!("C11/written-frame-malformed", "frame at offset {p} declares {total} bytes, {} are there", self.peer_in.len() - p);
            };
            let Some(m) = dec_request(payload) else {
                fail!("C11/written-frame-malformed", "payload of the frame at offset {p} is not the WorkerRequest that was written: {:?}", &payload[..payload.len().min(64)]);
            };
            got.push(m);
            p += total;
        }
        if got != self.out_msgs {
            fail!("C11/written-messages-differ", "the peer decoded {} messages, {} were accepted by write_message", got.len(), self.out_msgs.len());
        }
        Ok(())
    }
}

pub fn check(case: &Case) -> CheckResult {
    let mut rep = CaseReport::default();
    if case.buffer_size == 0 || case.buffer_size > case.max_buffer_size {
        // outside the generated domain (hand-edited replay)
        return Ok(rep);
    }
    let mut w = World::new(case);
    w.observe()?;
    for op in &case.ops {
        w.step(op)?;
    }
    w.drain()?;
    w.final_checks()?;

    let s = &w.seen;
    let split3 = w.frames.iter().any(|f| f.writes >= 3);
    let messages = w.delivered + w.out_msgs.len() as u64;
    let grew = s.front_grew || s.back_grew;
    rep.nontrivial = messages >= 3 && split3 && (s.chan_write_wouldblock || grew);
    rep.inner_evaluations = s.reads + case.ops.len() as u64;
    let skipped = case.no_undecodable && case.frames.iter().any(|f| matches!(f, FrameSpec::Undecodable { .. }));
    rep.excluded_known = skipped as u64;
    rep.class_if(messages >= 3, "messages>=3");
    rep.class_if(w.delivered >= 1, "delivered_to_channel");
    rep.class_if(!w.out_msgs.is_empty(), "delivered_to_peer");
    rep.class_if(split3, "frame_split_over_3_writes");
    rep.class_if(s.chan_write_wouldblock, "channel_write_wouldblock");
    rep.class_if(s.peer_write_wouldblock, "peer_write_wouldblock");
    rep.class_if(s.front_grew, "front_grew");
    rep.class_if(s.front_shrank, "front_shrank");
    rep.class_if(s.back_grew, "back_grew");
    rep.class_if(s.back_shrank, "back_shrank");
    rep.class_if(s.read_interest_dropped, "front_full_at_max");
    rep.class_if(s.buffer_full_error, "buffer_full_error");
    rep.class_if(s.write_refused, "write_refused_too_large");
    rep.class_if(s.short_reported > 0, "malformed:short_prefix");
    rep.class_if(s.overmax_reported > 0, "malformed:over_max");
    rep.class_if(s.undecodable_reported > 0, "malformed:undecodable");
    rep.class_if(s.undecodable_skipped_by_channel > 0, "undecodable_dropped_by_channel");
    rep.class_if(s.short_reported > 0 && w.delivered > 0, "valid_and_short_prefix_mixed");
    rep.class_if(s.big_delivered, "frame_over_half_max_delivered");
    rep.class_if(s.empty_delivered, "empty_payload_delivered");
    rep.class_if(s.extract_used, "op:extract_messages");
    rep.class_if(s.server_loop_used, "op:server_loop");
    rep.class_if(skipped, "undecodable_left_out");
    rep.class_if(s.blocking_peer_stuck, "blocking_peer_could_not_send_all");
    rep.class_if(case.sndbuf > 0 && case.sndbuf < 8192, "small_sndbuf");
    rep.class_if(case.buffer_size == case.max_buffer_size, "no_growth_room");
    Ok(rep)
}

pub fn run(args: &Args) -> i32 {
    let mut ev = Evidence::new(args, "exploration");
    ev.rule(
        "nonblocking",
        "Case = (buffer_size 16..8192, max_buffer_size = buffer_size x 1..512 (+0..17) clamped to 32..65536; SO_SNDBUF default / kernel minimum / small on both sockets; owner of the read side: arbitrary caller / worker / main process; peer stream = 0..10 frames: valid WorkerResponse frames (payload 0..40 mostly, up to max, near-max = max-0..16), 8-byte prefixes declaring < 8, prefixes declaring max+1 .. u64::MAX, correctly prefixed payloads that are not a WorkerResponse (6 flavours; left out in 70% of the cases, counted in excluded_known); 0..80 ops: PeerWrite(k), readable(), read_message(), write_message(WorkerRequest Status/SaveState, frame size 0..max+32 or max-3..max+3), writable(), PeerRead(k), the real sessions::extract_messages, the mirrored worker read loop of lib/src/server.rs; with owner worker / main every read op is that owner's whole loop) followed by a drain phase: the peer writes the rest (in pieces of drain_chunk), the owner's loop(s), writable() and the peer's reads run until nothing moves for 3 rounds. Frames are encoded and decoded by the hand-written protobuf code of the check, never by the channel. Oracle after every step: front_buf.data() == the peer's stream from the model's parse position (byte accounting through FIONREAD on the socket), back_buf.data() == unflushed tail of the accepted frames, both capacities <= max_buffer_size. Per read_message: complete valid frame -> exactly that message (struct equality and canonical re-encoding) and exactly its bytes consumed; incomplete -> Err, nothing consumed; prefix < 8 -> Err, 8 bytes consumed; prefix > max -> Err on every call, nothing consumed; undecodable -> Err, and the frame dropped at the latest on the following call if a valid frame is complete behind it; an Ok that is not the next framed message fails. write_message: refused iff too large (must be accepted on an empty back buffer when the frame is <= max, never accepted above max). End: every frame before the first over-max prefix was handed out (otherwise stalled / wedged), every accepted write was received by the peer byte-identical and decodes by hand to the same (id, content). Non-trivial: >= 3 messages delivered (both directions together), >= 1 frame carried by >= 3 peer writes, and a would-block in writable() or a buffer growth; distinct by case hash.",
    );
    ev.rule(
        "blocking",
        "same stream and oracle with the channel in blocking mode and default socket buffers; ops PeerWrite(k), read_message() (only when the model says it returns: a complete frame or a malformed prefix is reachable in buffer + socket; a 10 s timeout turns a hang into a failure), write_message() followed by the peer reading everything; drain = peer writes everything, reads while the model says a read returns.",
    );
    ev.assume("the peer never closes its socket during a case (HUP handling is not part of this check)");
    ev.assume("buffer_size <= max_buffer_size, both > 0 (the defaults are 1 MB / 2 MB; the config loader does not validate the pair)");
    ev.assume("the frame of a declared length below 8 is its 8 prefix bytes");
    ev.assume("handle_events(READABLE/WRITABLE) may be delivered spuriously (mio documents spurious readiness events)");
    ev.assume("would-block points are chosen by the kernel (socket buffer accounting), the oracle does not depend on them");
    ev.floor("nonblocking", "messages>=3", 0.4);
    ev.floor("nonblocking", "frame_split_over_3_writes", 0.2);
    ev.floor("nonblocking", "front_grew", 0.2);
    ev.floor("nonblocking", "back_grew", 0.05);
    ev.floor("nonblocking", "channel_write_wouldblock", 0.02);
    ev.floor("nonblocking", "malformed:short_prefix", 0.08);
    ev.floor("nonblocking", "malformed:over_max", 0.05);
    ev.floor("nonblocking", "valid_and_short_prefix_mixed", 0.06);
    ev.floor("nonblocking", "frame_over_half_max_delivered", 0.1);
    ev.floor("nonblocking", "front_shrank", 0.05);
    ev.floor("blocking", "delivered_to_channel", 0.5);
    engine::run_pbt(&mut ev, args, "nonblocking", args.cases(300_000, 6_000_000), strategy, check);
    engine::run_pbt(&mut ev, args, "blocking", args.cases(60_000, 1_000_000), strategy_blocking, check);
    ev.finish()
}
