//! C17 — TLS always serves a loaded certificate that covers the requested name
//! (in-process tier on `sozu_lib::tls::CertificateResolver`; DESIGN §4 C17).
//!
//! Stateful PBT: histories of Add / Remove / Replace over the fixture certificate bank
//! (overlapping exact and wildcard names, overridden names and expirations, failing and
//! idempotent replacements, unknown and unparsable fingerprints) are applied to the real
//! resolver and to a reference model (a plain list of loaded `(fingerprint, names, expiry)`).
//! After every operation every probe name is looked up exactly as
//! `MutexCertificateResolver::resolve` does (`domain_lookup(name, true)` then the store) and
//! compared with the model's cover sets.
//!
//! The wire-lab part (real handshakes, strict SNI binding / 421, the "no window" clause of
//! Replace under concurrent handshakes) is the sub-check `handshake` in `c17_lab.rs`; it reuses the
//! history generator and the reference model of this module.

use std::collections::{BTreeMap, BTreeSet};

use proptest::prelude::*;
use serde::{Deserialize, Serialize};
use sozu_command_lib::{
    certificate::Fingerprint,
    proto::command::{AddCertificate, CertificateAndKey, ReplaceCertificate, SocketAddress},
};
use sozu_lib::tls::CertificateResolver;

use crate::{
    engine::{self, Args, CaseReport, CheckResult, Evidence},
    gens::certs::{self, Fixture},
};

// ------------------------------------------------------------------ alphabets

/// names used for `CertificateAndKey.names` overrides: the bank's names plus neighbours that
/// create more exact/wildcard overlap, and a few non-canonical spellings (upper case, trailing dot)
pub(super) const NAME_POOL: &[&str] = &[
    "a.x.com",
    "b.x.com",
    "c.x.com",
    "x.com",
    "*.x.com",
    "*.b.x.com",
    "z.b.x.com",
    "a.b.x.com",
    "*.a.x.com",
    "*.com",
    "a.x.net",
    "localhost",
    "default.test",
    "xn--bcher-kva.x.com",
    // non-canonical spellings
    "A.X.NET",
    "A.x.com",
    "a.x.com.",
    "*.X.com",
];

/// probes that no pool name covers, and non-canonical spellings of covered ones
const EXTRA_PROBES: &[&str] = &[
    "unknown.test",
    "com",
    "net",
    "test",
    "q.x.net",
    "sub.localhost",
    "y.org",
    // variants
    "A.X.COM",
    "a.X.com",
    "Q.X.COM",
    "q.x.com.",
    "b.x.com.",
    "LOCALHOST",
    "Z.B.X.COM",
];

const EXPIRY_POOL: &[i64] = &[
    0,
    -1,
    1,
    1_821_900_491,
    1_821_900_492, // the most frequent notAfter of the bank: ties
    1_821_900_493,
    4_102_444_800,
    i64::MAX,
];

// ------------------------------------------------------------------ case

#[derive(Clone, Copy, Debug, Serialize, Deserialize, PartialEq, Eq)]
pub enum Bad {
    No,
    /// valid PEM armour around bytes that are not DER
    PemNotDer,
    /// truncated base64
    PemTruncated,
    /// empty key
    KeyEmpty,
    /// a certificate PEM where the key is expected
    KeyNotAKey,
}

#[derive(Clone, Debug, Serialize, Deserialize)]
pub struct CertSpec {
    /// id in `certs::BANK` ("c01"…)
    pub fixture: String,
    pub bad: Bad,
    /// `CertificateAndKey.names` (empty = names of the certificate)
    pub names: Vec<String>,
    /// `AddCertificate.expired_at` / `ReplaceCertificate.new_expired_at`
    pub expired_at: Option<i64>,
}

#[derive(Clone, Debug, Serialize, Deserialize)]
pub enum Op {
    Add(CertSpec),
    /// hex fingerprint (always decodable: `remove_certificate` takes a `Fingerprint`)
    Remove(String),
    /// `old` is passed verbatim as `ReplaceCertificate.old_fingerprint` (may be unparsable)
    Replace { old: String, new: CertSpec },
}

#[derive(Clone, Debug, Serialize, Deserialize)]
pub struct Case {
    pub ops: Vec<Op>,
    /// obsolete (DNS comparison is now always demanded); kept so that old replay files parse
    #[serde(default)]
    pub strict_case: bool,
}

type RawSpec = (u32, u8, u8, u8, Vec<u32>, u8, u32);

fn raw_spec() -> impl Strategy<Value = RawSpec> {
    (
        any::<u32>(),                               // fixture
        0u8..3,                                     // 0: whole bank, else the case's focus fixtures
        0u8..32,                                    // bad selector
        0u8..10,                                    // names mode
        prop::collection::vec(any::<u32>(), 1..4),  // override names
        0u8..10,                                    // expiry mode
        any::<u32>(),                               // expiry pick
    )
}

fn fixture_index(id: &str) -> Option<usize> {
    certs::BANK.iter().position(|f| f.id == id)
}

fn resolve_spec(raw: RawSpec, focus: &[usize], focus_names: &[usize]) -> CertSpec {
    let (fx, scope, bad, nmode, names, emode, epick) = raw;
    // 2 of 3 picks come from the case's focus fixtures (more fingerprint reuse inside one history)
    let i = if scope != 0 {
        focus[engine::pick_idx(fx, focus.len())]
    } else {
        engine::pick_idx(fx, certs::BANK.len())
    };
    let bad = match bad {
        28 => Bad::PemNotDer,
        29 => Bad::PemTruncated,
        30 => Bad::KeyEmpty,
        31 => Bad::KeyNotAKey,
        _ => Bad::No,
    };
    let names = if nmode < 6 {
        vec![]
    } else {
        names
            .into_iter()
            .map(|x| {
                // odd picks come from the case's focus names (more name sharing inside one history)
                let i = if x & 1 == 1 {
                    focus_names[engine::pick_idx(x, focus_names.len())]
                } else {
                    engine::pick_idx(x, NAME_POOL.len())
                };
                NAME_POOL[i].to_string()
            })
            .collect()
    };
    let expired_at = match emode {
        0..=5 => None,
        6 | 7 => {
            // another fixture's notAfter: ties and inversions against the bank
            Some(certs::BANK[engine::pick_idx(epick, certs::BANK.len())].not_after)
        }
        _ => Some(EXPIRY_POOL[engine::pick_idx(epick, EXPIRY_POOL.len())]),
    };
    CertSpec {
        fixture: certs::BANK[i].id.to_string(),
        bad,
        names,
        expired_at,
    }
}

fn random_fingerprint(x: u32) -> String {
    let mut s = x as u64 ^ 0xC17C_17C1_7C17_C17C;
    let mut bytes = vec![];
    for _ in 0..4 {
        bytes.extend_from_slice(&engine::splitmix64(&mut s).to_le_bytes());
    }
    hex::encode(bytes)
}

pub fn strategy() -> impl Strategy<Value = Case> {
    ops_strategy(2..17).prop_map(|ops| Case {
        ops,
        strict_case: false,
    })
}

/// histories of `len` operations (shared with the wire-lab sub-check)
pub(super) fn ops_strategy(len: std::ops::Range<usize>) -> impl Strategy<Value = Vec<Op>> {
    (
        prop::collection::vec(any::<u32>(), 2..6),
        prop::collection::vec(any::<u32>(), 1..4),
        prop::collection::vec((0u8..20, raw_spec(), 0u8..20, any::<u32>()), len),
    )
        .prop_map(|(focus, focus_names, raw_ops)| {
            let focus_names: Vec<usize> = focus_names
                .into_iter()
                .map(|x| engine::pick_idx(x, NAME_POOL.len()))
                .collect();
            let focus: Vec<usize> = focus
                .into_iter()
                .map(|x| engine::pick_idx(x, certs::BANK.len()))
                .collect();
            let mut ops = vec![];
            // fixtures some earlier op tried to load (they may be gone again)
            let mut added: Vec<usize> = vec![];
            for (kind, raw, tmode, tpick) in raw_ops {
                let mut spec = resolve_spec(raw, &focus, &focus_names);
                let earlier = |added: &Vec<usize>| -> Option<usize> {
                    if added.is_empty() {
                        None
                    } else {
                        Some(added[engine::pick_idx(tpick, added.len())])
                    }
                };
                let any_bank = engine::pick_idx(tpick, certs::BANK.len());
                if kind < 9 || added.is_empty() {
                    if spec.bad == Bad::No {
                        added.push(fixture_index(&spec.fixture).unwrap());
                    }
                    ops.push(Op::Add(spec));
                } else if kind < 14 {
                    let fp = match tmode {
                        0..=11 => certs::BANK[earlier(&added).unwrap()].fingerprint.to_string(),
                        12..=14 => certs::BANK[any_bank].fingerprint.to_string(),
                        15..=17 => random_fingerprint(tpick),
                        18 => String::new(),
                        _ => "abcd".to_string(),
                    };
                    ops.push(Op::Remove(fp));
                } else {
                    let e = earlier(&added).unwrap();
                    let old = match tmode {
                        0..=8 => certs::BANK[e].fingerprint.to_string(),
                        9 | 10 => {
                            // idempotent replacement of a certificate loaded earlier
                            spec.fixture = certs::BANK[e].id.to_string();
                            certs::BANK[e].fingerprint.to_string()
                        }
                        11 | 12 => certs::BANK[any_bank].fingerprint.to_string(),
                        13 => "zz".to_string(),
                        14 => {
                            // odd length / non-hex prefix: unparsable
                            let fp = certs::BANK[e].fingerprint;
                            if tpick & 1 == 0 {
                                fp[..fp.len() - 1].to_string()
                            } else {
                                format!("0x{fp}")
                            }
                        }
                        15 | 16 => random_fingerprint(tpick),
                        17 => certs::BANK[e].fingerprint.to_ascii_uppercase(),
                        18 => String::new(),
                        _ => {
                            // idempotent, old spelled in upper-case hex
                            spec.fixture = certs::BANK[e].id.to_string();
                            certs::BANK[e].fingerprint.to_ascii_uppercase()
                        }
                    };
                    if spec.bad == Bad::No {
                        added.push(fixture_index(&spec.fixture).unwrap());
                    }
                    ops.push(Op::Replace { old, new: spec });
                }
            }
            ops
        })
}

// ------------------------------------------------------------------ model

#[derive(Clone, Debug)]
pub(super) struct Loaded {
    pub(super) fingerprint: String,
    pub(super) fixture: &'static str,
    /// names the certificate is loaded for, in DNS comparison form: ASCII lower case, one trailing
    /// dot dropped, duplicates dropped (first occurrence kept)
    pub(super) names: Vec<String>,
    /// the names as spelled in the certificate / the override (triage only)
    pub(super) raw_names: Vec<String>,
    pub(super) expiry: i64,
}

#[derive(Default)]
pub(super) struct Model {
    pub(super) loaded: Vec<Loaded>,
    /// fingerprints that were loaded once and are not loaded now
    pub(super) removed: BTreeSet<String>,
}

/// what a Replace whose new certificate is good does by the reference semantics
pub(super) struct ReplaceEffect {
    /// fingerprint of the new certificate (the answer)
    pub(super) fingerprint: String,
    /// old == new: nothing changes
    pub(super) idempotent: bool,
    /// the new certificate was loaded before the call
    pub(super) new_was_loaded: bool,
    /// `old` is a fingerprint at all (else the removal is skipped)
    pub(super) old_parsable: bool,
    /// the loaded certificate the call took away
    pub(super) removed: Option<String>,
}

/// DNS comparison form: ASCII lower case, one trailing dot (absolute form) dropped
pub(super) fn norm(s: &str) -> String {
    let mut s = s.to_ascii_lowercase();
    if s.ends_with('.') {
        s.pop();
    }
    s
}

fn dns_form(names: &[String]) -> Vec<String> {
    let mut out: Vec<String> = vec![];
    for n in names {
        let n = norm(n);
        if !out.contains(&n) {
            out.push(n);
        }
    }
    out
}

/// the wildcard name that covers `name`: `*.` + everything after the left-most label
pub(super) fn wildcard_for(name: &str) -> Option<String> {
    match name.split_once('.') {
        Some((label, rest)) if !label.is_empty() && !rest.is_empty() => Some(format!("*.{rest}")),
        _ => None,
    }
}

impl Model {
    pub(super) fn get(&self, fp: &str) -> Option<&Loaded> {
        self.loaded.iter().find(|l| l.fingerprint == fp)
    }

    /// `Err(())`: the request must be refused and nothing may change
    pub(super) fn add(&mut self, spec: &CertSpec) -> Result<String, ()> {
        if spec.bad != Bad::No {
            return Err(());
        }
        let fx = fixture(spec);
        if self.get(fx.fingerprint).is_none() {
            let raw: Vec<String> = if spec.names.is_empty() {
                fx.names.iter().map(|s| s.to_string()).collect()
            } else {
                spec.names.clone()
            };
            // an already loaded fingerprint is kept as it is (documented: "return the certificate
            // fingerprint regardless of having inserted it or not"; ConfigState skips it likewise)
            self.loaded.push(Loaded {
                fingerprint: fx.fingerprint.to_string(),
                fixture: fx.id,
                names: dns_form(&raw),
                raw_names: raw,
                expiry: spec.expired_at.unwrap_or(fx.not_after),
            });
            self.removed.remove(fx.fingerprint);
        }
        Ok(fx.fingerprint.to_string())
    }

    /// true when a loaded certificate went away
    pub(super) fn remove(&mut self, fp: &str) -> bool {
        let before = self.loaded.len();
        self.loaded.retain(|l| l.fingerprint != fp);
        if self.loaded.len() != before {
            self.removed.insert(fp.to_string());
            true
        } else {
            false
        }
    }

    /// (exact tier, wildcard tier) of loaded certificates covering `probe`, compared as DNS does
    /// (`raw`: byte-wise against the names as spelled — triage only)
    fn tiers_of(&self, probe: &str, raw: bool) -> (Vec<usize>, Vec<usize>) {
        let p = if raw { probe.to_string() } else { norm(probe) };
        let w = wildcard_for(&p);
        let mut exact = vec![];
        let mut wild = vec![];
        for (i, l) in self.loaded.iter().enumerate() {
            let names = if raw { &l.raw_names } else { &l.names };
            if names.iter().any(|n| *n == p) {
                exact.push(i);
            }
            if names.iter().any(|n| *n != p && Some(n) == w.as_ref()) {
                wild.push(i);
            }
        }
        (exact, wild)
    }

    pub(super) fn tiers(&self, probe: &str) -> (Vec<usize>, Vec<usize>) {
        self.tiers_of(probe, false)
    }

    /// Reference semantics of Replace(old, new) for a good `new`: old == new keeps the store as it
    /// is; otherwise Add(new) then Remove(old), the removal being skipped when `old` is not a
    /// fingerprint at all. (A replacement whose new certificate does not parse changes nothing and
    /// is refused: the caller's case.)
    pub(super) fn replace(&mut self, old: &str, new: &CertSpec) -> ReplaceEffect {
        let new_fp = fixture(new).fingerprint;
        let old_hex = hex_bytes(old).as_ref().map(hex::encode);
        let new_was_loaded = self.get(new_fp).is_some();
        if old_hex.as_deref() == Some(new_fp) {
            return ReplaceEffect {
                fingerprint: new_fp.to_string(),
                idempotent: true,
                new_was_loaded,
                old_parsable: true,
                removed: None,
            };
        }
        let fingerprint = self.add(new).expect("good spec");
        let removed = match &old_hex {
            Some(o) if self.remove(o) => Some(o.clone()),
            _ => None,
        };
        ReplaceEffect {
            fingerprint,
            idempotent: false,
            new_was_loaded,
            old_parsable: old_hex.is_some(),
            removed,
        }
    }
}

pub(super) fn fixture(spec: &CertSpec) -> &'static Fixture {
    &certs::BANK[fixture_index(&spec.fixture).expect("fixture id of the bank")]
}

pub(super) fn hex_bytes(s: &str) -> Option<Vec<u8>> {
    hex::decode(s).ok()
}

/// Judge what is served (`None` = default certificate) for one name against the loaded
/// certificates covering it: exact tier first, else wildcard tier; inside the tier a maximal expiry
/// (ties: any). `None` = admissible, else (signature, description).
pub(super) fn verdict(
    model: &Model,
    served: Option<usize>,
    exact: &[usize],
    wild: &[usize],
) -> Option<(&'static str, String)> {
    let ids = |v: &[usize]| v.iter().map(|&i| model.loaded[i].fixture).collect::<Vec<_>>();
    let tier = if !exact.is_empty() { exact } else { wild };
    match served {
        None => (!tier.is_empty()).then(|| {
            (
                "C17/default-for-covered-name",
                format!(
                    "gets the default certificate although loaded certificates cover it: {:?}",
                    ids(tier)
                ),
            )
        }),
        Some(i) => {
            let l = &model.loaded[i];
            if !tier.contains(&i) {
                let sig = if !exact.is_empty() && wild.contains(&i) {
                    "C17/wildcard-over-exact"
                } else {
                    "C17/served-not-covering"
                };
                return Some((
                    sig,
                    format!(
                        "is served {} {:?}; exact candidates {:?}, wildcard candidates {:?}",
                        l.fixture,
                        l.names,
                        ids(exact),
                        ids(wild)
                    ),
                ));
            }
            let best = tier.iter().map(|&j| model.loaded[j].expiry).max().unwrap();
            (l.expiry != best).then(|| {
                (
                    "C17/not-longest-lived",
                    format!(
                        "is served {} expiring {} but an equally specific loaded certificate expires {best}",
                        l.fixture, l.expiry
                    ),
                )
            })
        }
    }
}

// ------------------------------------------------------------------ system under test

pub(super) fn certificate_and_key(spec: &CertSpec) -> CertificateAndKey {
    let fx = fixture(spec);
    let (pem, key) = match spec.bad {
        Bad::No => (fx.pem, fx.key),
        Bad::PemNotDer => (certs::BAD_NOTDER, fx.key),
        Bad::PemTruncated => (certs::BAD_TRUNCATED, fx.key),
        Bad::KeyEmpty => (fx.pem, ""),
        Bad::KeyNotAKey => (fx.pem, fx.pem),
    };
    CertificateAndKey {
        certificate: pem.to_string(),
        certificate_chain: vec![],
        key: key.to_string(),
        versions: vec![],
        names: spec.names.clone(),
    }
}

fn address() -> SocketAddress {
    SocketAddress::new_v4(127, 0, 0, 1, 8443)
}

fn probes() -> Vec<String> {
    let mut set = BTreeSet::new();
    let bank_names = certs::BANK.iter().flat_map(|f| f.names.iter().copied());
    for n in bank_names.chain(NAME_POOL.iter().copied()) {
        match n.strip_prefix("*.") {
            Some(rest) => {
                set.insert(format!("q.{rest}")); // one label under the wildcard
                set.insert(format!("p.q.{rest}")); // two labels: never covered by it
                set.insert(rest.to_string()); // the parent itself: never covered by it
                set.insert(norm(&format!("q.{rest}")));
            }
            None => {
                set.insert(n.to_string());
                set.insert(norm(n));
                set.insert(format!("p.{n}"));
            }
        }
    }
    for n in EXTRA_PROBES {
        set.insert(n.to_string());
    }
    set.into_iter().collect()
}

/// what the resolver serves for `name`: mirrors `MutexCertificateResolver::resolve`
/// (`domains.domain_lookup(name, true)`, then the store); `None` = default certificate
fn served(res: &CertificateResolver, name: &str) -> Option<String> {
    res.domain_lookup(name.as_bytes(), true)
        .map(|(_, fp)| fp.to_string())
}

#[derive(Default)]
struct Seen {
    shared_name: bool,
    expiry_tie: bool,
    effective_remove: bool,
    effective_replace: bool,
    replace_idempotent_loaded: bool,
    replace_idempotent_unloaded: bool,
    replace_failing: bool,
    replace_old_unparsable: bool,
    replace_old_unknown: bool,
    replace_new_already_loaded: bool,
    remove_unknown: bool,
    add_failing: bool,
    readd_loaded: bool,
    override_names: bool,
    override_expiry: bool,
    exact_over_wildcard: bool,
    wildcard_served: bool,
    longest_lived_choice: bool,
    default_served: bool,
    fallback_other: bool,
    fallback_default: bool,
    reload_after_remove: bool,
    weak_probe: bool,
    noncanonical_name_served: bool,
}

pub fn check(case: &Case) -> CheckResult {
    let mut rep = CaseReport::default();
    let probes = probes();
    let mut res = CertificateResolver::default();
    let mut model = Model::default();
    let mut seen = Seen::default();
    let mut prev: BTreeMap<String, Option<String>> = BTreeMap::new();

    for (step, op) in case.ops.iter().enumerate() {
        let mut just_removed: Option<String> = None;
        match op {
            Op::Add(spec) => {
                let was_loaded = spec.bad == Bad::No && model.get(fixture(spec).fingerprint).is_some();
                let was_removed = model.removed.contains(fixture(spec).fingerprint);
                let got = res.add_certificate(&AddCertificate {
                    address: address(),
                    certificate: certificate_and_key(spec),
                    expired_at: spec.expired_at,
                });
                let exp = model.add(spec);
                match (&exp, &got) {
                    (Ok(fp), Ok(g)) if *fp == g.to_string() => {}
                    (Err(()), Err(_)) => seen.add_failing = true,
                    _ => fail!(
                        "C17/op-verdict:add",
                        "step {step} {op:?}: add_certificate returned {got:?}, expected {exp:?}"
                    ),
                }
                if exp.is_ok() {
                    seen.readd_loaded |= was_loaded;
                    seen.reload_after_remove |= was_removed && !was_loaded;
                    if !was_loaded {
                        seen.override_names |= !spec.names.is_empty();
                        seen.override_expiry |= spec.expired_at.is_some();
                    }
                }
            }
            Op::Remove(fp) => {
                let bytes = hex_bytes(fp).expect("generator emits decodable fingerprints for Remove");
                let got = res.remove_certificate(&Fingerprint(bytes.clone()));
                if let Err(e) = got {
                    fail!(
                        "C17/op-verdict:remove",
                        "step {step} {op:?}: remove_certificate failed: {e}"
                    );
                }
                let canonical = hex::encode(&bytes);
                if model.remove(&canonical) {
                    seen.effective_remove = true;
                    just_removed = Some(canonical);
                } else {
                    seen.remove_unknown = true;
                }
            }
            Op::Replace { old, new } => {
                let got = res.replace_certificate(&ReplaceCertificate {
                    address: address(),
                    new_certificate: certificate_and_key(new),
                    old_fingerprint: old.clone(),
                    new_expired_at: new.expired_at,
                });
                // reference semantics: a replacement whose new certificate does not parse changes
                // nothing; otherwise `Model::replace`
                let exp: Result<String, ()> = if new.bad != Bad::No {
                    seen.replace_failing = true;
                    Err(())
                } else {
                    let e = model.replace(old, new);
                    if e.idempotent {
                        if e.new_was_loaded {
                            seen.replace_idempotent_loaded = true;
                        } else {
                            seen.replace_idempotent_unloaded = true;
                        }
                    } else {
                        seen.replace_new_already_loaded |= e.new_was_loaded;
                        if !e.new_was_loaded {
                            seen.override_names |= !new.names.is_empty();
                            seen.override_expiry |= new.expired_at.is_some();
                        }
                        match (e.old_parsable, e.removed) {
                            (false, _) => seen.replace_old_unparsable = true,
                            (true, Some(o)) => {
                                seen.effective_replace = true;
                                just_removed = Some(o);
                            }
                            (true, None) => seen.replace_old_unknown = true,
                        }
                    }
                    Ok(e.fingerprint)
                };
                match (&exp, &got) {
                    (Ok(fp), Ok(g)) if *fp == g.to_string() => {}
                    (Err(()), Err(_)) => {}
                    _ => fail!(
                        "C17/op-verdict:replace",
                        "step {step} {op:?}: replace_certificate returned {got:?}, expected {exp:?}"
                    ),
                }
            }
        }

        // ---- the store holds exactly the loaded certificates
        for fx in certs::BANK {
            let in_store = res
                .get_certificate(&Fingerprint(hex::decode(fx.fingerprint).unwrap()))
                .is_some();
            let in_model = model.get(fx.fingerprint).is_some();
            if in_store != in_model {
                fail!(
                    "C17/store-mismatch",
                    "step {step} {op:?}: certificate {} ({}) is {} the store but {} by the history",
                    fx.id,
                    fx.fingerprint,
                    if in_store { "in" } else { "not in" },
                    if in_model { "loaded" } else { "not loaded" }
                );
            }
        }

        // ---- shape of the loaded set (measurement)
        for (i, a) in model.loaded.iter().enumerate() {
            for b in &model.loaded[i + 1..] {
                if a.names.iter().any(|n| b.names.contains(n)) {
                    seen.shared_name = true;
                    if a.expiry == b.expiry {
                        seen.expiry_tie = true;
                    }
                }
            }
        }

        // ---- every probe
        for name in &probes {
            rep.inner_evaluations += 1;
            let got = served(&res, name);
            let describe = |m: &Model| -> String {
                m.loaded
                    .iter()
                    .map(|l| format!("{}{:?}@{}", l.fixture, l.names, l.expiry))
                    .collect::<Vec<_>>()
                    .join(", ")
            };

            // the served certificate is a loaded one, and the one the store hands to rustls
            let served_cert: Option<&Loaded> = match &got {
                None => None,
                Some(fp) => {
                    let Some(l) = model.get(fp) else {
                        let sig = if model.removed.contains(fp) {
                            "C17/removed-cert-served"
                        } else {
                            "C17/unloaded-cert-served"
                        };
                        fail!(
                            sig,
                            "step {step} {op:?}: SNI {name:?} resolves to fingerprint {fp} which is not loaded; loaded: {}",
                            describe(&model)
                        );
                    };
                    let fpb = Fingerprint(hex::decode(fp).unwrap());
                    if res.get_certificate(&fpb).is_none() {
                        fail!(
                            "C17/dangling-fingerprint",
                            "step {step} {op:?}: SNI {name:?} resolves to {fp} ({}) but the store has no such certificate",
                            l.fixture
                        );
                    }
                    Some(l)
                }
            };
            // the SAN snapshot used for strict SNI binding is the served certificate's name list
            let sni_names = res.names_for_sni(name.as_bytes());
            if sni_names.as_ref() != served_cert.map(|l| &l.names) {
                let only_spelling = match (&sni_names, served_cert) {
                    (Some(got), Some(l)) => dns_form(got) == l.names,
                    _ => false,
                };
                fail!(
                    if only_spelling {
                        "C17/names-not-in-dns-form"
                    } else {
                        "C17/names-for-sni-mismatch"
                    },
                    "step {step} {op:?}: SNI {name:?} is served {:?} with names {:?} but names_for_sni says {sni_names:?}",
                    served_cert.map(|l| l.fixture),
                    served_cert.map(|l| &l.names)
                );
            }

            let served_idx = served_cert.map(|l| {
                model
                    .loaded
                    .iter()
                    .position(|x| x.fingerprint == l.fingerprint)
                    .unwrap()
            });
            let (exact, wild) = model.tiers(name);
            if norm(name) == *name {
                // a server name as rustls hands it over (lower case, no trailing dot): full oracle
                if let Some((sig, what)) = verdict(&model, served_idx, &exact, &wild) {
                    // triage: right if names were compared byte-wise as spelled => the resolver
                    // does not bring certificate names to DNS form (fixed by 5fb16d5)
                    let (re, rw) = model.tiers_of(name, true);
                    let sig = if verdict(&model, served_idx, &re, &rw).is_none() {
                        "C17/noncanonical-spelling-not-served"
                    } else {
                        sig
                    };
                    fail!(
                        sig,
                        "step {step} {op:?}: SNI {name:?} {what} (names compared as DNS does: ASCII case-insensitive, trailing dot ignored); loaded: {}",
                        describe(&model)
                    );
                }
                let tier = if !exact.is_empty() { &exact } else { &wild };
                match served_idx {
                    None => seen.default_served = true,
                    Some(i) => {
                        let best = model.loaded[i].expiry;
                        seen.exact_over_wildcard |= !exact.is_empty() && !wild.is_empty();
                        seen.wildcard_served |= exact.is_empty();
                        seen.longest_lived_choice |=
                            tier.iter().any(|&j| model.loaded[j].expiry != best);
                        seen.noncanonical_name_served |= model.loaded[i].raw_names
                            != model.loaded[i].names
                            && model.tiers_of(name, true) != (exact.clone(), wild.clone());
                    }
                }
            } else {
                // a spelling rustls never hands over (upper case, trailing dot): not a real caller
                // input; only what the property demands of any served certificate is asserted — it is
                // loaded (above) and covers the name as DNS compares
                seen.weak_probe = true;
                if let Some(i) = served_idx {
                    if !exact.contains(&i) && !wild.contains(&i) {
                        let l = &model.loaded[i];
                        fail!(
                            "C17/served-not-covering",
                            "step {step} {op:?}: raw lookup {name:?} is served {} {:?} which does not cover it as DNS compares; loaded: {}",
                            l.fixture,
                            l.names,
                            describe(&model)
                        );
                    }
                }
            }

            // what a removal did to the names the removed certificate was serving
            if let Some(gone) = &just_removed {
                if prev.get(name).and_then(|p| p.as_ref()) == Some(gone) {
                    match &got {
                        Some(_) => seen.fallback_other = true,
                        None => seen.fallback_default = true,
                    }
                }
            }
            prev.insert(name.clone(), got);
        }
    }

    rep.nontrivial = seen.shared_name && (seen.effective_remove || seen.effective_replace);
    rep.class_if(seen.shared_name, "shared_name_2+_loaded");
    rep.class_if(seen.expiry_tie, "shared_name_equal_expiry");
    rep.class_if(seen.effective_remove, "effective_remove");
    rep.class_if(seen.effective_replace, "effective_replace");
    rep.class_if(seen.replace_idempotent_loaded, "replace_idempotent_loaded");
    rep.class_if(seen.replace_idempotent_unloaded, "replace_idempotent_unloaded");
    rep.class_if(seen.replace_failing, "replace_failing");
    rep.class_if(seen.replace_old_unparsable, "replace_old_unparsable");
    rep.class_if(seen.replace_old_unknown, "replace_old_unknown");
    rep.class_if(seen.replace_new_already_loaded, "replace_new_already_loaded");
    rep.class_if(seen.remove_unknown, "remove_unknown");
    rep.class_if(seen.add_failing, "add_failing");
    rep.class_if(seen.readd_loaded, "readd_loaded_fingerprint");
    rep.class_if(seen.reload_after_remove, "reload_after_remove");
    rep.class_if(seen.override_names, "override_names");
    rep.class_if(seen.override_expiry, "override_expiry");
    rep.class_if(seen.exact_over_wildcard, "probe_exact_over_wildcard");
    rep.class_if(seen.wildcard_served, "probe_wildcard_served");
    rep.class_if(seen.longest_lived_choice, "probe_longest_lived_among_unequal");
    rep.class_if(seen.default_served, "probe_default_for_uncovered");
    rep.class_if(seen.fallback_other, "removal_falls_back_to_other_cert");
    rep.class_if(seen.fallback_default, "removal_falls_back_to_default");
    rep.class_if(seen.weak_probe, "raw_noncanonical_probe_weak_oracle");
    rep.class_if(
        seen.noncanonical_name_served,
        "probe_served_via_name_not_spelled_in_dns_form",
    );
    Ok(rep)
}

pub fn run(args: &Args) -> i32 {
    // child shard of the wire-lab sub-check
    if args.shard.is_some() {
        let total = args.cases(150, 1_500);
        let st = super::c17_lab::child(args, total);
        return engine::shard::child_finish(args, &st);
    }
    let mut ev = Evidence::new(args, "exploration");
    ev.rule(
        "resolver",
        "history = 2..16 ops Add(cert, names override?, expired_at?) / Remove(fingerprint: loaded earlier | any of the bank | unknown | empty) / Replace(old: loaded earlier | == new (idempotent) | unknown | unparsable | upper-case hex, new: good | bad PEM | bad key) over the 12-certificate fixture bank (overlapping exact and wildcard names, equal and different expiries), applied to sozu_lib::tls::CertificateResolver and to a reference list of loaded (fingerprint, names in DNS form, expiry). After every op: verdict and returned fingerprint as the reference expects, store == loaded set, and for each of ~60 probe names (every bank/override name in DNS form, one label under each wildcard, two labels under it, the wildcard's parent, unknown names; plus raw upper-case and trailing-dot spellings under a weaker oracle) domain_lookup(name, true) — the call rustls' resolve() makes — returns a loaded fingerprint of the exact tier if that is non-empty, else of the wildcard tier, with maximal expiry in its tier (ties: any), and None (default certificate) iff both tiers are empty; get_certificate finds it; names_for_sni equals its names; a removed fingerprint is never returned. Non-trivial: at some step two loaded certificates share a name, and a Remove/Replace took a loaded certificate away. Distinct by case hash.",
    );
    ev.assume("MutexCertificateResolver::resolve cannot be called in-process (rustls ClientHello has no public constructor); its body is domain_lookup(sni, true) + store lookup, which is what the check calls");
    ev.assume("expiry of a loaded certificate = expired_at override if given, else the fixture's notAfter from the manifest; names = names override if non-empty, else SAN dNSNames (CN when there is no SAN) from the manifest; re-adding a loaded fingerprint keeps the first names/expiry (documented no-op)");
    ev.assume("certificate names (SAN / CN / override) are loaded in DNS comparison form: ASCII lower case, one trailing dot dropped, duplicates dropped keeping the first; cover(N), names_for_sni and the name-sharing measure use that form");
    ev.assume("probes spelled with upper case or a trailing dot are not real caller input (rustls hands the SNI over lower-cased): for them only 'a served certificate is loaded and covers the name as DNS compares' is asserted");
    ev.assume("the 'no window during Replace' clause and strict SNI binding need concurrent handshakes / a listener: wire lab, not this module");
    ev.floor("resolver", "shared_name_2+_loaded", 0.30);
    ev.floor("resolver", "effective_remove", 0.25);
    ev.floor("resolver", "effective_replace", 0.15);
    ev.floor("resolver", "probe_exact_over_wildcard", 0.20);
    ev.floor("resolver", "probe_longest_lived_among_unequal", 0.20);
    ev.floor("resolver", "removal_falls_back_to_other_cert", 0.15);
    ev.floor("resolver", "shared_name_equal_expiry", 0.03);
    ev.floor("resolver", "replace_idempotent_loaded", 0.03);
    ev.floor("resolver", "replace_failing", 0.03);
    ev.floor("resolver", "replace_old_unparsable", 0.03);
    ev.floor("resolver", "override_names", 0.30);
    ev.floor("resolver", "probe_served_via_name_not_spelled_in_dns_form", 0.15);
    ev.floor("resolver", "override_expiry", 0.30);
    let cases = args.cases(200_000, 3_000_000);
    engine::run_pbt(&mut ev, args, "resolver", cases, strategy, check);

    // ---- wire lab
    let sub = super::c17_lab::SUB;
    ev.rule(sub, super::c17_lab::rule());
    ev.assume("handshake: the default certificate is what the listener presents while no certificate is loaded (observed once per lab; it must be sozu's built-in fallback certificate, CN lolcatho.st, or the lab certificate — the worker does not consult the listener configuration's certificate / key fields); it covers none of the lab's hostnames");
    ev.assume("handshake: the names a certificate covers are the names it is loaded for (names override if given, else SAN / CN), as in the resolver sub-check; the SNI <-> authority binding is judged against those names of the presented certificate");
    ev.assume("handshake: a handshake without SNI has no server name to cover: refusing it (what sozu does) or presenting the default certificate are both admitted, a loaded certificate is not");
    ev.assume("handshake: on a connection that was presented the default certificate, a request for the connection's own server name is served (nothing crosses a certificate boundary); sozu refuses every other authority there, which is admitted");
    ev.assume("handshake: how the router treats a Host spelled with upper case, a port or a trailing dot is C05's subject; for such spellings only 'not refused as misdirected when covered / refused when not covered' and 'if a backend is reached it is the frontend's' are asserted");
    ev.floor(sub, "strict_on", 0.3);
    ev.floor(sub, "strict_off", 0.3);
    ev.floor(sub, "http_421_seen", 0.25);
    ev.floor(sub, "http_421_wildcard_suffix_without_label_boundary", 0.05);
    ev.floor(sub, "http_other_name_covered_by_certificate_served", 0.08);
    ev.floor(sub, "replace_window_old_and_new_seen", 0.4);
    ev.floor(sub, "http_200", 0.6);
    ev.floor(sub, "probe_exact", 0.5);
    ev.floor(sub, "probe_wildcard", 0.3);
    ev.floor(sub, "probe_uncovered_default", 0.5);
    ev.floor(sub, "probe_case_variant", 0.3);
    ev.floor(sub, "probe_name_covered_by_2+_loaded", 0.3);
    ev.floor(sub, "cmd_add_ok", 0.6);
    ev.floor(sub, "cmd_remove_ok", 0.3);
    ev.floor(sub, "cmd_replace_ok", 0.3);
    ev.floor(sub, "effective_remove", 0.15);
    ev.floor(sub, "effective_replace", 0.1);
    ev.floor(sub, "failure_then_same_probes", 0.1);
    ev.floor(sub, "replace_window", 0.5);
    engine::shard::run_sharded(&mut ev, args, sub, 16, std::time::Duration::from_secs(args.tier.pick(300, 2400)));
    ev.finish()
}
