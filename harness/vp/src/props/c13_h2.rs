//! C13 sub-check `h2paths` — header fidelity and proxy metadata across the three protocol conversions
//! (DESIGN §4 C13): (A) HTTP/1.1 client -> h2c backend, (B) HTTP/2 client -> HTTP/1.1 backend,
//! (C) HTTP/2 client -> h2c backend, through a live worker (`lab::h2lab`, plus a second pair of
//! listeners with other header settings added here). The judgement of a forwarded request / response
//! is the h1h1 oracle of `c13.rs` (`check_request`, `check_response`) applied to both sides brought
//! into one shape (`RawMsg`: `:authority` is the Host field, `:method :path` the request line); this
//! file adds what only exists in HTTP/2: pseudo-header well-formedness, lower-case names, no
//! connection-specific field, trailers as a trailing HEADERS frame, refusals.

use std::{
    cell::RefCell,
    collections::{BTreeMap, BTreeSet},
    io::Write,
    net::{SocketAddr, TcpStream},
    time::{Duration, Instant},
};

use proptest::prelude::*;
use serde::{Deserialize, Serialize};
use sozu_command_lib::{
    config::ListenerBuilder,
    proto::command::{ActivateListener, AddCertificate, CertificateAndKey, ListenerType, PathRule, RequestHttpFrontend, RulePosition, request::RequestType},
};

use super::c13::{self, Ctx, Hdr, Peer};
use crate::{
    engine::{self, Args, CaseReport, CheckResult, Evidence, Failure, Stats, pick_idx},
    gens::certs,
    lab::{
        self, LabConfig,
        h1::{self, BodyFraming},
        h2::{self, Frame, H2Conn, H2Event, RecvStream, Settings},
        h2lab::{H2Action, H2Lab, H2Shared},
        hdrlab::{self, CORR_CUSTOM, CORR_DEFAULT, Fields, ListenerCfg, RawConn, RawMsg, RawOut, STICKY_CUSTOM, STICKY_DEFAULT, lossy, show_fields},
        httplab::BackendAction,
        script::{ReadScript, WStep, WriteScript},
    },
};

pub const SUB: &str = "h2paths";
pub const QUICK: u64 = 1600;
pub const THOROUGH: u64 = 120_000;

pub const PATHS: [&str; 3] = ["h1->h2c", "h2->h1", "h2->h2c"];

/// listener settings: [0] the listeners of `H2Lab` (defaults), [1] the second pair added by `PathLab`
pub const CFGS: [ListenerCfg; 2] = [
    ListenerCfg { elide: false, send: false, corr: CORR_DEFAULT, sticky: STICKY_DEFAULT, expect_proxy: false },
    ListenerCfg { elide: true, send: true, corr: CORR_CUSTOM, sticky: STICKY_CUSTOM, expect_proxy: false },
];

// ------------------------------------------------------------------ case

#[derive(Clone, Debug, Serialize, Deserialize)]
pub struct Resp {
    pub status: u16,
    pub headers: Vec<Hdr>,
    pub body_len: u16,
    /// HTTP/1.1 backend: Content-Length (else chunked); h2c backend: a content-length field (else none)
    pub declare_length: bool,
    /// h2c backend only: a trailing HEADERS frame
    pub trailers: Vec<Hdr>,
    /// HTTP/1.1 backend: write the response in two pieces, split at this offset, 10 ms apart
    #[serde(default)]
    pub split: Option<u16>,
}

/// one field a compliant peer of that protocol would not send (rare): the request may be refused
#[derive(Clone, Debug, Serialize, Deserialize)]
pub struct Forbidden {
    pub kind: String,
    pub name: String,
    pub value: String,
    pub pos: u32,
}

#[derive(Clone, Debug, Serialize, Deserialize)]
pub struct Req {
    pub method: String,
    pub target: String,
    /// names as an HTTP/1.1 client writes them; an HTTP/2 client sends them lower-cased
    pub headers: Vec<Hdr>,
    pub body_len: u16,
    /// HTTP/1.1 client: Content-Length (else chunked); HTTP/2 client: a content-length field (else none)
    pub declare_length: bool,
    pub trailers: Vec<Hdr>,
    pub forbidden: Option<Forbidden>,
    /// HTTP/1.1 client: write the request in two pieces, split at this offset, 10 ms apart
    #[serde(default)]
    pub split: Option<u16>,
    pub resp: Resp,
}

#[derive(Clone, Debug, Serialize, Deserialize)]
pub struct Case {
    /// 0: HTTP/1.1 client -> h2c backend, 1: HTTP/2 client -> HTTP/1.1 backend, 2: HTTP/2 client -> h2c backend
    pub path: u8,
    /// the second pair of listeners (elide + send X-Real-IP, X-Edge-Trace, LABSTICK)
    pub alt_listener: bool,
    /// HTTP/2 client: open all streams before reading any response
    pub concurrent: bool,
    /// HTTP/2 client: one cookie field per crumb (RFC 9113 8.2.3) instead of the joined form
    pub split_cookies: bool,
    pub reqs: Vec<Req>,
    /// regression files only: play a known finding that generated cases exclude by construction (`KNOWN`)
    #[serde(default)]
    pub strict: bool,
    /// shapes removed by the exclusions when the case was generated
    #[serde(default)]
    pub excluded: u32,
}

/// Known findings, excluded by construction unless `strict` (signature suffix, what is excluded):
/// * `h1-keepalive-second-request-fails`: the second request on an HTTP/1.1 keep-alive connection toward an h2c
///   backend is answered 502 after it reached the backend (mux/h1.rs:718-733 does not clear
///   `back_received_end_of_stream`): on path A every request gets its own connection;
/// * `h2-trailers-after-content-length-reach-h1-backend`: trailers of an HTTP/2 request that declared
///   content-length are written after the body toward an HTTP/1.1 backend, which reads them as the start of the
///   next request: on path B a request with trailers declares no length;
/// * `response-trailer-elided`: response trailers named x-real-ip, x-forwarded-for, forwarded, x-request-id are
///   removed (pkawa.rs:1409, meant for requests): h2c response trailers do not use these names.
/// * `correlation-header-via-h2-trailer`: an HTTP/2 request trailer named like the listener's correlation header
///   reaches the backend (pkawa.rs:1409 elides four names, the HTTP/1.1 path in mux/h1.rs elides this one too): an
///   HTTP/2 client's trailers do not use that name;
/// * `response-content-length-0-then-trailers-stalls`: an h2c response `content-length: 0`, HEADERS without
///   END_STREAM, then trailers never completes toward the client: such a response declares no length.
/// * `h2-trailers-refused-when-buffer-full`: HTTP/2 request trailers that arrive while head + body fill the stream's
///   buffer (16393 bytes in the lab) do not fit into it and the stream is reset with PROTOCOL_ERROR
///   (pkawa.rs:1418-1421 reports the failed storage write as invalid trailers): an HTTP/2 request with trailers keeps
///   head + body + trailers within `H2_TRAILER_BUDGET`.
/// * `h1-trailers-lost-toward-h2c-when-split-across-reads`: trailer fields of a chunked HTTP/1.1 request that sozu
///   has read completely while the end of the trailer section is still outstanding (the read ended inside the trailer
///   section: head + chunked body near the buffer size) are HPACK-encoded into the converter's scratch buffer and
///   thrown away by `H2BlockConverter::finalize` (converter.rs:678-685); the h2c backend receives the later fields
///   only: an HTTP/1.1 request with trailers keeps within the same budget and is written in one piece (or split
///   inside its head).
pub const KNOWN: [&str; 7] = [
    "h1-keepalive-second-request-fails",
    "h2-trailers-after-content-length-reach-h1-backend",
    "response-trailer-elided",
    "correlation-header-via-h2-trailer",
    "response-content-length-0-then-trailers-stalls",
    "h2-trailers-refused-when-buffer-full",
    "h1-trailers-lost-toward-h2c-when-split-across-reads",
];
const H2_TRAILER_BUDGET: usize = 12_000;

fn size_of(l: &[Hdr]) -> usize {
    l.iter().map(|(n, v)| n.len() + v.len() + 4).sum()
}
const ELIDED_TRAILER_NAMES: &[&str] = &["x-real-ip", "x-forwarded-for", "forwarded", "x-request-id"];

impl Case {
    pub fn path(&self) -> usize {
        self.path as usize % 3
    }
    pub fn client_h2(&self) -> bool {
        self.path() != 0
    }
    pub fn backend_h2(&self) -> bool {
        self.path() != 1
    }
    pub fn cfg(&self) -> &'static ListenerCfg {
        &CFGS[self.alt_listener as usize]
    }
}

fn has_body(method: &str) -> bool {
    matches!(method, "POST" | "PUT")
}

// ------------------------------------------------------------------ generator

const E2E: &[&str] = &["X-A", "X-B", "X-A", "Accept", "User-Agent", "Authorization", "Cache-Control", "X-9-Custom_Name", "x_low-2", "X-Hop1"];
const HOP: &[&str] = &["Connection", "Connection", "Connection", "Keep-Alive", "TE", "TE", "Upgrade", "Proxy-Connection", "X-Hop1", "X-Hop2"];
const TRAILER_NAMES: &[&str] = &["X-T1", "X-T2", "X-Checksum", "Grpc-Status", "X-T1", "X-9-Custom_Name"];
const METHODS: &[&str] = &["GET", "GET", "POST", "POST", "PUT", "DELETE", "OPTIONS"];
const TARGETS: &[&str] = &["/", "/c13/a", "/c13/a/b?x=1&y=2", "/%7Euser/a%20b?q=%2F", "/c13?x-forwarded-for=1.2.3.4&connection=close", "/a//b/../c?", "/;p=1?q=a+b&q=c", "/very/long/path/segment/0123456789/0123456789/0123456789/0123456789/0123456789?k=v"];
const STATUSES: &[u16] = &[200, 200, 200, 201, 204, 304, 404, 500];
const CONNECTION_SPECIFIC: &[&str] = &["connection", "keep-alive", "proxy-connection", "transfer-encoding", "upgrade"];

/// the value kinds the design names, on an end-to-end name
fn special_field() -> BoxedStrategy<(String, String, u32)> {
    let value = prop_oneof![
        3 => ("[a-z]{1,6}", "[a-z0-9]{1,6}").prop_map(|(a, b)| format!("{a}\t{b}")),
        1 => ("[a-z]{1,6}", "[a-z]{1,6}").prop_map(|(a, b)| format!("{a} \t {b}\t\tz")),
        2 => ("[a-z0-9]{1,6}", "[a-z0-9]{0,6}", "[a-z0-9]{1,6}").prop_map(|(a, b, c)| format!("{a}, {b},{c}")),
        2 => ("[a-z]{1,6}", "[a-z]{0,4}").prop_map(|(a, b)| format!("\"{a}, q\"; x=\"{b}\"")),
        2 => ("[a-zA-Z0-9/+=._-]{1,9}", 150usize..1500).prop_map(|(s, n)| s.repeat(n / s.len() + 1)[..n].to_string()),
        2 => "[a-z]{1,5}( [!-~]{1,7}){1,4}",
        1 => Just(String::new()),
    ];
    (any::<u32>(), value, prop_oneof![3 => Just(0u32), 1 => any::<u32>()]).prop_map(|(n, v, mask)| (E2E[pick_idx(n, E2E.len())].to_string(), v, mask)).boxed()
}

fn request_header() -> BoxedStrategy<(String, String, u32)> {
    prop_oneof![4 => c13::name_value(E2E), 3 => special_field(), 4 => c13::name_value(c13::MANAGED), 3 => c13::cookie_header(), 3 => c13::name_value(HOP)].boxed()
}

fn trailer_field() -> BoxedStrategy<(String, String, u32)> {
    prop_oneof![3 => c13::name_value(TRAILER_NAMES), 1 => special_field().prop_map(|(_, v, m)| ("X-T2".to_string(), v, m)), 3 => c13::name_value(c13::MANAGED)].boxed()
}

fn forbidden() -> impl Strategy<Value = (u32, u32, u32)> {
    (any::<u32>(), any::<u32>(), any::<u32>())
}

fn ascii_trimmed(v: &str) -> String {
    let s: String = v.chars().map(|c| if (c as u32) < 0x7f && (c as u32 >= 0x20 || c == '\t') { c } else { '~' }).collect();
    s.trim_matches(|c| c == ' ' || c == '\t').to_string()
}

type RawList = Vec<(String, String, u32)>;
type RawReq = (u32, u32, RawList, u16, bool, RawList, Option<(u32, u32, u32)>, (u32, RawList, u16, bool, RawList), (Option<u16>, Option<u16>));

fn raw_req() -> impl Strategy<Value = RawReq> {
    (
        any::<u32>(),
        any::<u32>(),
        c13::header_list(request_header, 11),
        prop_oneof![3 => Just(0u16), 4 => 1u16..1500, 1 => 1500u16..20_000],
        any::<bool>(),
        prop_oneof![3 => Just(vec![]), 2 => prop::collection::vec(trailer_field(), 1..4)],
        prop_oneof![24 => Just(None), 1 => forbidden().prop_map(Some)],
        (any::<u32>(), c13::header_list(c13::response_header, 7), prop_oneof![2 => Just(0u16), 4 => 1u16..1500, 1 => 1500u16..20_000], any::<bool>(), prop_oneof![3 => Just(vec![]), 1 => prop::collection::vec(trailer_field(), 1..3)]),
        (proptest::option::weighted(0.25, 1u16..700), proptest::option::weighted(0.25, 1u16..700)),
    )
}

fn make_forbidden(client_h2: bool, (k, v, pos): (u32, u32, u32)) -> Forbidden {
    // (kind, name, value)
    let h2: &[(&str, &str, &str)] = &[
        ("connection-specific", "connection", "keep-alive"),
        ("connection-specific", "connection", "x-a"),
        ("connection-specific", "keep-alive", "timeout=5"),
        ("connection-specific", "proxy-connection", "keep-alive"),
        ("connection-specific", "transfer-encoding", "chunked"),
        ("connection-specific", "upgrade", "websocket"),
        ("te-not-trailers", "te", "gzip"),
        ("te-not-trailers", "te", "trailers, deflate"),
        ("uppercase-name", "X-Upper", "1"),
        ("ctl-in-value", "x-ctl", "a\u{1}b"),
        ("ctl-in-value", "x-ctl", "a\u{7f}b"),
        ("ctl-in-value", "x-ctl", "a\u{0}b"),
        ("crlf-in-value", "x-ctl", "a\r\nx-injected: 1"),
        ("crlf-in-value", "x-ctl", "a\nx-injected: 1"),
    ];
    let h1: &[(&str, &str, &str)] = &[("ctl-in-value", "X-Ctl", "a\u{1}b"), ("ctl-in-value", "X-Ctl", "a\u{7f}b"), ("ctl-in-value", "x-ctl", "\u{8}")];
    let pool = if client_h2 { h2 } else { h1 };
    let (kind, name, value) = pool[pick_idx(k, pool.len())];
    let _ = v;
    Forbidden { kind: kind.to_string(), name: name.to_string(), value: value.to_string(), pos }
}

fn build_case(p: u32, alt_listener: bool, concurrent: bool, split_cookies: bool, raws: Vec<RawReq>) -> Case {
    let path = pick_idx(p, 3) as u8;
    let client_h2 = path != 0;
    let backend_h2 = path != 1;
    let cfg = &CFGS[alt_listener as usize];
    let mut any_forbidden = false;
    let mut excluded = 0u32;
    let reqs: Vec<Req> = raws
        .into_iter()
        .map(|(m, t, headers, body_len, declare_length, trailers, forb, (st, rh, rlen, rdeclare, rtrailers), (split, rsplit))| {
            let method = METHODS[pick_idx(m, METHODS.len())].to_string();
            let target = TARGETS[pick_idx(t, TARGETS.len())].to_string();
            let body = has_body(&method);
            let mut headers = c13::resolve(headers, cfg, 0, true);
            if client_h2 {
                // what an HTTP/2 client may send (RFC 9113 8.2): no connection-specific field, TE only as
                // "trailers", no leading / trailing whitespace, and - the HTTP/1.1 backend's recorder being
                // text based - no obs-text
                headers.retain(|(n, v)| {
                    let n = n.to_ascii_lowercase();
                    !(CONNECTION_SPECIFIC.contains(&n.as_str()) || (n == "te" && !v.eq_ignore_ascii_case("trailers")))
                });
                for (_, v) in headers.iter_mut() {
                    *v = ascii_trimmed(v);
                }
            }
            let mut total = 0;
            headers.retain(|(n, v)| {
                total += n.len() + v.len() + 4;
                total < 9000
            });
            let mut trailers: Vec<Hdr> = if body { c13::resolve(trailers, cfg, 0, true).into_iter().map(|(n, v)| (n, ascii_trimmed(&v))).filter(|(_, v)| v.len() < 600).collect() } else { vec![] };
            // (repaired, d22f8dc) an HTTP/2 request trailer named like the correlation header is generated freely
            // known findings (KNOWN[5], KNOWN[6])
            let mut body_len = body_len;
            if body && !trailers.is_empty() && size_of(&headers) + size_of(&trailers) + body_len as usize + 200 > H2_TRAILER_BUDGET {
                body_len = H2_TRAILER_BUDGET.saturating_sub(size_of(&headers) + size_of(&trailers) + 200) as u16;
                excluded += 1;
            }
            // an HTTP/1.1 message carries trailers only with the chunked coding
            let declare_length = if !client_h2 && !trailers.is_empty() { false } else { declare_length };
            // known finding (KNOWN[1]): content-length + trailers toward an HTTP/1.1 backend
            // (repaired, 9da7cbe) content-length + trailers toward an HTTP/1.1 backend is generated freely: the
            // trailers cannot be delivered there and must simply not appear
            let declare_length = declare_length;
            let status = STATUSES[pick_idx(st, STATUSES.len())];
            let bodiless = matches!(status, 204 | 304);
            let mut rh: Vec<Hdr> = c13::resolve(rh, cfg, 0, false).into_iter().map(|(n, v)| (n, ascii_trimmed(&v))).collect();
            if backend_h2 {
                // what an HTTP/2 server may send
                rh.retain(|(n, _)| !CONNECTION_SPECIFIC.contains(&n.to_ascii_lowercase().as_str()) && !n.eq_ignore_ascii_case("te"));
            }
            let mut rtotal = 0;
            rh.retain(|(n, v)| {
                rtotal += n.len() + v.len() + 4;
                rtotal < 9000
            });
            let mut rtrailers: Vec<Hdr> = if path == 2 && !bodiless { c13::resolve(rtrailers, cfg, 0, false).into_iter().map(|(n, v)| (n, ascii_trimmed(&v))).filter(|(_, v)| v.len() < 600).collect() } else { vec![] };
            // (repaired, 558e9c7) response trailers may carry any name
            // known finding (KNOWN[4])
            let rdeclare = if backend_h2 && rdeclare && !rtrailers.is_empty() && (rlen == 0 || bodiless) {
                excluded += 1;
                false
            } else {
                rdeclare
            };
            let forbidden = forb.map(|f| make_forbidden(client_h2, f));
            let trailers_empty = trailers.is_empty();
            any_forbidden |= forbidden.is_some();
            Req {
                method,
                target,
                headers,
                body_len: if body { body_len } else { 0 },
                declare_length,
                trailers,
                forbidden,
                // known finding (KNOWN[6]): with trailers, a write boundary only inside the head
                split: match split {
                    Some(n) if !client_h2 && !trailers_empty && n >= 60 => {
                        excluded += 1;
                        None
                    }
                    s if !client_h2 => s,
                    _ => None,
                },
                resp: Resp { status, headers: rh, body_len: if bodiless { 0 } else { rlen }, declare_length: rdeclare, trailers: rtrailers, split: if backend_h2 { None } else { rsplit } },
            }
        })
        .collect();
    // (repaired, 9dcd52e) path A keeps its connection alive across requests
    // a refused stream may take the connection with it: such scenarios go one request at a time
    Case { path, alt_listener, concurrent: client_h2 && concurrent && !any_forbidden && reqs.len() > 1, split_cookies: client_h2 && split_cookies, reqs, strict: false, excluded }
}

pub fn strategy() -> impl Strategy<Value = Case> {
    (any::<u32>(), prop::bool::weighted(0.4), any::<bool>(), any::<bool>(), prop::collection::vec(raw_req(), 1..4)).prop_map(|(p, alt, conc, split, raws)| build_case(p, alt, conc, split, raws))
}

// ------------------------------------------------------------------ the lab

pub struct PathLab {
    pub lab: H2Lab,
    pub http: [SocketAddr; 2],
    pub https: [SocketAddr; 2],
    /// request numbers (`x-lab-req`) are unique over the life of the lab: a late record of an earlier scenario
    /// cannot be mistaken for one of this scenario
    seq: usize,
}

impl PathLab {
    pub fn new() -> PathLab {
        let mut lab = H2Lab::new("c13h2", LabConfig::default(), |_| {});
        let cfg = &CFGS[1];
        let http = lab::free_addr();
        lab.worker.add_http_listener(http, |l| {
            l.sticky_name = cfg.sticky.to_string();
            l.elide_x_real_ip = Some(cfg.elide);
            l.send_x_real_ip = Some(cfg.send);
            l.sozu_id_header = Some(cfg.corr.to_string());
        });
        let https = lab::free_addr();
        {
            let w = &mut lab.worker;
            let mut b = ListenerBuilder::new_https(https.into());
            b.with_front_timeout(Some(w.lab.front_timeout)).with_back_timeout(Some(w.lab.back_timeout)).with_connect_timeout(Some(w.lab.connect_timeout)).with_request_timeout(Some(w.lab.request_timeout));
            let mut l = b.to_tls(None).expect("https listener config");
            l.certificate = Some(certs::LAB_CERT.to_string());
            l.key = Some(certs::LAB_KEY.to_string());
            l.alpn_protocols = vec!["h2".into(), "http/1.1".into()];
            l.sticky_name = cfg.sticky.to_string();
            l.elide_x_real_ip = Some(cfg.elide);
            l.send_x_real_ip = Some(cfg.send);
            l.sozu_id_header = Some(cfg.corr.to_string());
            w.must(RequestType::AddHttpsListener(l));
            w.must(RequestType::AddCertificate(AddCertificate {
                address: https.into(),
                certificate: CertificateAndKey { certificate: certs::LAB_CERT.to_string(), certificate_chain: vec![], key: certs::LAB_KEY.to_string(), versions: vec![], names: vec![] },
                expired_at: None,
            }));
            w.must(RequestType::ActivateListener(ActivateListener { address: https.into(), proxy: ListenerType::Https.into(), from_scm: false }));
            for (cluster, host) in [("c0", "c0.lab"), ("c1", "c1.lab")] {
                w.add_http_frontend(cluster, http, host, "/");
                w.must(RequestType::AddHttpsFrontend(RequestHttpFrontend {
                    cluster_id: Some(cluster.to_string()),
                    address: https.into(),
                    hostname: host.to_string(),
                    path: PathRule::prefix("/".to_string()),
                    position: RulePosition::Tree.into(),
                    ..Default::default()
                }));
            }
        }
        let (h0, s0) = (lab.http_addr, lab.https_addr);
        PathLab { lab, http: [h0, http], https: [s0, https], seq: 0 }
    }
}

type Tls = rustls::StreamOwned<rustls::ClientConnection, TcpStream>;

/// TLS + ALPN h2 connection to one of the HTTPS listeners, SETTINGS exchanged (as `H2Lab::h2_client`, any listener)
fn h2_connect(addr: SocketAddr, sni: &str) -> Result<(H2Conn<Tls>, SocketAddr), String> {
    let (tls, _info) = h2::tls_connect(addr, sni, &["h2"]).map_err(|e| format!("TLS connect: {e}"))?;
    if tls.conn.alpn_protocol() != Some(b"h2") {
        return Err(format!("ALPN negotiated {:?}, wanted h2", tls.conn.alpn_protocol().map(String::from_utf8_lossy)));
    }
    let local = tls.sock.local_addr().map_err(|e| e.to_string())?;
    let mut c = H2Conn::new(tls, false, Settings::default());
    c.start().map_err(|e| format!("send preface: {e}"))?;
    let deadline = Instant::now() + Duration::from_secs(5);
    loop {
        match c.next_frame(deadline) {
            H2Event::Frame(f) => {
                if f.typ == h2::SETTINGS && f.flags & h2::F_ACK == 0 {
                    break;
                }
            }
            H2Event::Timeout => {
                if Instant::now() >= deadline {
                    return Err("sozu sent no SETTINGS".into());
                }
            }
            other => return Err(format!("connection ended during the SETTINGS exchange: {other:?}")),
        }
    }
    // generous windows: flow control is C14's subject
    c.auto_window_update = true;
    c.replenish(0);
    Ok((c, local))
}

// ------------------------------------------------------------------ both sides in one shape

fn is_pseudo(n: &[u8]) -> bool {
    n.first() == Some(&b':')
}

fn pseudo<'a>(list: &'a [(Vec<u8>, Vec<u8>)], name: &str) -> Vec<&'a [u8]> {
    list.iter().filter(|(n, _)| n == name.as_bytes()).map(|(_, v)| v.as_slice()).collect()
}

fn regular(list: &[(Vec<u8>, Vec<u8>)]) -> Fields {
    list.iter().filter(|(n, _)| !is_pseudo(n)).cloned().collect()
}

/// an HTTP/2 request (as a peer's HPACK decoder produced it) in HTTP/1.1 shape: `:authority` is the Host field
fn h2_request_as_raw(st: &RecvStream) -> RawMsg {
    let first = |n: &str| pseudo(&st.raw_headers, n).first().map(|v| v.to_vec()).unwrap_or_default();
    let mut start = first(":method");
    start.push(b' ');
    start.extend(first(":path"));
    start.extend_from_slice(b" HTTP/1.1");
    let mut headers: Fields = pseudo(&st.raw_headers, ":authority").into_iter().map(|v| (b"host".to_vec(), v.to_vec())).collect();
    headers.extend(regular(&st.raw_headers));
    RawMsg { start, headers, body: st.body.clone(), trailers: regular(&st.raw_trailers), clean: st.end_stream && st.reset.is_none(), chunked: false }
}

fn h2_response_as_raw(st: &RecvStream) -> RawMsg {
    let status = pseudo(&st.raw_headers, ":status").first().map(|v| lossy(v)).unwrap_or_default();
    RawMsg { start: format!("HTTP/1.1 {status} x").into_bytes(), headers: regular(&st.raw_headers), body: st.body.clone(), trailers: regular(&st.raw_trailers), clean: st.end_stream, chunked: false }
}

fn h1_message_as_raw(m: &h1::H1Message) -> RawMsg {
    let f = |l: &[(String, String)]| -> Fields { l.iter().map(|(n, v)| (n.as_bytes().to_vec(), v.as_bytes().to_vec())).collect() };
    RawMsg { start: m.start_line.as_bytes().to_vec(), headers: f(&m.headers), body: m.body.clone(), trailers: f(&m.trailers), clean: m.end == h1::End::Clean, chunked: m.framing == h1::Framing::Chunked }
}

/// what only HTTP/2 has, on a header list sozu produced: pseudo-header fields first and once each, lower-case
/// names, nothing connection-specific (RFC 9113 8.2, 8.2.2, 8.3)
fn h2_list_wellformed(list: &[(Vec<u8>, Vec<u8>)], trailers: &[(Vec<u8>, Vec<u8>)], request: Option<(&str, &str, &str)>) -> Result<(), (String, String)> {
    let wanted: &[&str] = if request.is_some() { &[":method", ":scheme", ":authority", ":path"] } else { &[":status"] };
    let mut seen_regular = false;
    for (n, _) in list {
        if is_pseudo(n) {
            if seen_regular {
                return Err(("pseudo-header".into(), format!("pseudo-header field {:?} after a regular field", lossy(n))));
            }
            if !wanted.iter().any(|w| w.as_bytes() == n.as_slice()) {
                return Err(("pseudo-header".into(), format!("unexpected pseudo-header field {:?}", lossy(n))));
            }
        } else {
            seen_regular = true;
        }
    }
    for w in wanted {
        let v = pseudo(list, w);
        if v.len() != 1 || v[0].is_empty() {
            return Err(("pseudo-header".into(), format!("{w} appears {} times (values {:?}), exactly one non-empty is required", v.len(), v.iter().map(|x| lossy(x)).collect::<Vec<_>>())));
        }
    }
    if let Some((method, path, authority)) = request {
        for (w, want) in [(":method", method), (":path", path), (":authority", authority)] {
            if pseudo(list, w)[0] != want.as_bytes() {
                return Err((format!("pseudo-header{w}"), format!("{w} is {:?}, the client's request says {want:?}", lossy(pseudo(list, w)[0]))));
            }
        }
        let scheme = pseudo(list, ":scheme")[0];
        if scheme != b"http" && scheme != b"https" {
            return Err(("pseudo-header:scheme".into(), format!(":scheme is {:?}", lossy(scheme))));
        }
    }
    for (what, l) in [("header", list), ("trailer", trailers)] {
        for (n, v) in l {
            if what == "trailer" && is_pseudo(n) {
                return Err(("pseudo-header".into(), format!("pseudo-header field {:?} in the trailer section", lossy(n))));
            }
            if n.iter().any(|b| b.is_ascii_uppercase()) {
                return Err(("uppercase-name".into(), format!("{what} field name {:?} is not lower-case", lossy(n))));
            }
            let name = c13::lc(n);
            if CONNECTION_SPECIFIC.contains(&name.as_str()) || (name == "te" && !(request.is_some() && v.eq_ignore_ascii_case(b"trailers"))) {
                return Err(("connection-specific-field".into(), format!("connection-specific {what} field {:?}: {:?} crossed into HTTP/2", lossy(n), engine::truncate(&lossy(v), 80))));
            }
        }
    }
    Ok(())
}

fn resig(f: Failure, path: &str) -> Failure {
    let short = f.signature.strip_prefix("C13/").unwrap_or(&f.signature).to_string();
    Failure::new(format!("C13/{SUB}:{short}:{path}"), format!("[{path}] {}", f.message))
}

fn sig(what: &str, path: &str) -> String {
    format!("C13/{SUB}:{what}:{path}")
}

// ------------------------------------------------------------------ clients

enum Got {
    /// a complete response: message, the HTTP/2 stream it came on
    Response(RawMsg, Option<RecvStream>),
    Reset(u32),
    Closed(String),
    Timeout(String),
}

fn describe_got(g: &Got) -> String {
    match g {
        Got::Response(m, _) => format!("response {:?} {}", lossy(&m.start), show_fields(&m.headers)),
        Got::Reset(code) => format!("RST_STREAM with code {code}"),
        Got::Closed(why) => format!("connection closed: {why}"),
        Got::Timeout(why) => format!("no answer within 6 s ({why})"),
    }
}

struct Exchange {
    /// the request as judged (HTTP/1.1 shape, without the forbidden field)
    sent: RawMsg,
    peer: usize,
    got: Got,
}

/// the client's field list of request `r`: (fields without the forbidden one, fields as sent)
fn request_fields(case: &Case, r: &Req, host: &str, n: usize) -> (Fields, Fields) {
    let h2c = case.client_h2();
    let name = |s: &str| if h2c { s.to_ascii_lowercase() } else { s.to_string() };
    let mut list: Fields = vec![(c13::bytes(&name("Host")), host.as_bytes().to_vec()), (c13::bytes(&name("X-Lab-Req")), n.to_string().into_bytes())];
    for (k, v) in &r.headers {
        if h2c && case.split_cookies && k.eq_ignore_ascii_case("cookie") {
            for crumb in v.split(';').map(|c| c.trim_matches(|c| c == ' ' || c == '\t')).filter(|c| !c.is_empty()) {
                list.push((b"cookie".to_vec(), c13::bytes(crumb)));
            }
        } else {
            list.push((c13::bytes(&name(k)), c13::bytes(v)));
        }
    }
    if has_body(&r.method) {
        if !h2c && !r.declare_length {
            list.push((b"Transfer-Encoding".to_vec(), b"chunked".to_vec()));
        } else if r.declare_length {
            list.push((c13::bytes(&name("Content-Length")), r.body_len.to_string().into_bytes()));
        }
    }
    let judged = list.clone();
    if let Some(f) = &r.forbidden {
        // after Host and the request number
        let at = 2 + pick_idx(f.pos, list.len() - 1);
        list.insert(at, (c13::bytes(&f.name), c13::bytes(&f.value)));
    }
    (judged, list)
}

fn trailer_fields(case: &Case, r: &Req) -> Fields {
    r.trailers.iter().map(|(n, v)| (c13::bytes(&if case.client_h2() { n.to_ascii_lowercase() } else { n.clone() }), c13::bytes(v))).collect()
}

fn request_body(i: usize, r: &Req) -> Vec<u8> {
    h1::content(0xB0D0 + i as u64, r.body_len as usize)
}

fn sent_msg(case: &Case, i: usize, r: &Req, judged: Fields) -> RawMsg {
    let with_body = has_body(&r.method);
    RawMsg { start: format!("{} {} HTTP/1.1", r.method, r.target).into_bytes(), headers: judged, body: if with_body { request_body(i, r) } else { vec![] }, trailers: if with_body { trailer_fields(case, r) } else { vec![] }, clean: true, chunked: false }
}

fn run_h1_client(pl: &PathLab, case: &Case, host: &str, base: usize, peers: &mut Vec<Peer>) -> Result<Vec<Exchange>, Failure> {
    let path = PATHS[case.path()];
    let addr = pl.http[case.alt_listener as usize];
    let mut conn: Option<(TcpStream, RawConn, usize)> = None;
    let mut out = vec![];
    for (i, r) in case.reqs.iter().enumerate() {
        if conn.is_none() {
            let s = h1::connect(addr, Duration::from_secs(2)).map_err(|e| Failure::new(sig("connect-refused", path), format!("connect to the HTTP listener {addr} failed: {e}")))?;
            let local = s.local_addr().expect("local_addr");
            peers.push(Peer { ip: local.ip(), port: local.port(), public: vec![addr] });
            let w = s.try_clone().expect("clone");
            conn = Some((w, RawConn::new(s), peers.len() - 1));
        }
        let (w, rc, peer) = conn.as_mut().unwrap();
        let (judged, wire_fields) = request_fields(case, r, host, base + i);
        let with_body = has_body(&r.method);
        let body = request_body(i, r);
        let wire = hdrlab::build_msg(&format!("{} {} HTTP/1.1", r.method, r.target), &wire_fields, if with_body { Some(&body) } else { None }, with_body && !r.declare_length, &trailer_fields(case, r));
        let sent = sent_msg(case, i, r, judged);
        let wrote = match r.split {
            Some(n) if (n as usize) < wire.len() => w.write_all(&wire[..n as usize]).and_then(|_| w.flush()).and_then(|_| {
                std::thread::sleep(Duration::from_millis(10));
                w.write_all(&wire[n as usize..])
            }),
            _ => w.write_all(&wire),
        }
        .and_then(|_| w.flush());
        let got = match rc.read_msg(true, Instant::now() + Duration::from_secs(6)) {
            RawOut::Msg(m) => Got::Response(m, None),
            RawOut::Timeout => Got::Timeout(format!("wrote: {wrote:?}")),
            other => Got::Closed(format!("{} (wrote: {wrote:?})", hdrlab::describe(&other))),
        };
        let close = match &got {
            Got::Response(m, _) => !m.clean || m.status() == Some(400) || c13::has_token(&sent.values("connection"), b"close") || c13::has_token(&m.values("connection"), b"close") || m.values("x-lab-resp").is_empty(),
            _ => true,
        };
        out.push(Exchange { sent, peer: *peer, got });
        if close {
            conn = None;
        }
    }
    Ok(out)
}

struct H2Client {
    c: H2Conn<Tls>,
    next_id: u32,
    peer: usize,
}

fn finished(c: &H2Conn<Tls>, id: u32) -> bool {
    c.streams.get(&id).map(|s| (s.end_stream && s.headers_done) || s.reset.is_some()).unwrap_or(false)
}

fn pump(c: &mut H2Conn<Tls>, ids: &[u32], deadline: Instant) {
    loop {
        if ids.iter().all(|id| finished(c, *id)) {
            return;
        }
        match c.next_frame(Instant::now() + Duration::from_millis(20)) {
            H2Event::Frame(_) => {}
            H2Event::Timeout => {
                if Instant::now() >= deadline {
                    return;
                }
            }
            H2Event::Eof | H2Event::Reset => return,
        }
    }
}

fn collect(c: &H2Conn<Tls>, id: u32) -> Got {
    match c.streams.get(&id) {
        Some(st) if st.end_stream && st.headers_done => Got::Response(h2_response_as_raw(st), Some(st.clone())),
        Some(st) if st.reset.is_some() => Got::Reset(st.reset.unwrap()),
        st => {
            let state = format!("stream {id}: headers {}, {} body bytes, GOAWAY {:?}", st.map(|s| s.headers_done).unwrap_or(false), st.map(|s| s.body.len()).unwrap_or(0), c.goaway);
            if c.eof || c.goaway.is_some() { Got::Closed(state) } else { Got::Timeout(state) }
        }
    }
}

fn run_h2_client(pl: &PathLab, case: &Case, host: &str, base: usize, peers: &mut Vec<Peer>) -> Result<Vec<Exchange>, Failure> {
    let path = PATHS[case.path()];
    let addr = pl.https[case.alt_listener as usize];
    let mut cl: Option<H2Client> = None;
    let mut out: Vec<Exchange> = vec![];
    let mut pending: Vec<(usize, u32)> = vec![];
    for (i, r) in case.reqs.iter().enumerate() {
        let dead = cl.as_ref().map(|h| h.c.eof || h.c.goaway.is_some()).unwrap_or(true);
        if dead {
            let (c, local) = h2_connect(addr, host).map_err(|e| Failure::new(sig("h2-connect", path), format!("HTTP/2 connection to the HTTPS listener {addr} failed: {e}")))?;
            peers.push(Peer { ip: local.ip(), port: local.port(), public: vec![addr] });
            cl = Some(H2Client { c, next_id: 1, peer: peers.len() - 1 });
        }
        let h = cl.as_mut().unwrap();
        let id = h.next_id;
        h.next_id += 2;
        let (judged, wire_fields) = request_fields(case, r, host, base + i);
        // the Host field of the common shape is :authority here
        let mut list: Vec<(String, String)> = vec![(":method".into(), r.method.clone()), (":scheme".into(), "https".into()), (":authority".into(), host.to_string()), (":path".into(), r.target.clone())];
        list.extend(wire_fields.iter().skip(1).map(|(n, v)| (n.iter().map(|b| *b as char).collect::<String>(), v.iter().map(|b| *b as char).collect::<String>())));
        let with_body = has_body(&r.method);
        let body = request_body(i, r);
        let trailers: Vec<(String, String)> = if with_body { r.trailers.iter().map(|(n, v)| (n.to_ascii_lowercase(), v.clone())).collect() } else { vec![] };
        let end_on_headers = !with_body || (body.is_empty() && trailers.is_empty());
        let sent = sent_msg(case, i, r, judged);
        let mut wrote = h.c.send_headers(id, &list, end_on_headers, None).map_err(|e| e.to_string());
        if wrote.is_ok() && !end_on_headers {
            // a refusal may arrive while the body is being sent: not an error of this step
            let r1 = h.c.send_body(id, &body, &[], None, trailers.is_empty(), Instant::now() + Duration::from_secs(6));
            if r1.is_ok() && !trailers.is_empty() {
                wrote = h.c.send_headers(id, &trailers, true, None).map_err(|e| e.to_string());
            }
        }
        let _ = wrote;
        out.push(Exchange { sent, peer: h.peer, got: Got::Timeout("not collected".into()) });
        pending.push((i, id));
        if !case.concurrent || i + 1 == case.reqs.len() {
            let ids: Vec<u32> = pending.iter().map(|p| p.1).collect();
            pump(&mut h.c, &ids, Instant::now() + Duration::from_secs(6));
            let mut refused = false;
            for (j, id) in pending.drain(..) {
                out[j].got = collect(&h.c, id);
                refused |= !matches!(&out[j].got, Got::Response(m, _) if !m.values("x-lab-resp").is_empty());
            }
            if refused {
                // what this client still had in flight on the refused stream may cost the connection: the next request gets a new one
                let _ = h.c.send(&Frame::goaway(0, h2::NO_ERROR));
                cl = None;
            }
        }
    }
    if let Some(mut h) = cl {
        if let Some(v) = h.c.violations.iter().find(|v| v.what.contains("HPACK")) {
            return Err(Failure::new(sig("undecodable-header-block", path), format!("toward the HTTP/2 client: {}", v.what)));
        }
        let _ = h.c.send(&Frame::goaway(0, h2::NO_ERROR));
    }
    Ok(out)
}

// ------------------------------------------------------------------ scenario

fn value_kinds(rep: &mut CaseReport, v: &str) -> bool {
    let inner = v.trim_matches(|c| c == ' ' || c == '\t');
    let (htab, comma, quote, long) = (inner.contains('\t'), inner.contains(','), inner.contains('"'), v.len() >= 150);
    rep.class_if(htab, "value_with_htab");
    rep.class_if(comma, "value_with_comma");
    rep.class_if(quote, "value_with_quote");
    rep.class_if(long, "value_150+_bytes");
    rep.class_if(v.is_empty(), "value_empty");
    rep.class_if(inner.contains(' '), "value_with_inner_space");
    rep.class_if(v.chars().any(|c| c as u32 >= 0x80), "value_with_obs_text");
    htab || comma || quote || long
}

pub fn scenario(pl: &mut PathLab, case: &Case) -> CheckResult {
    let path = PATHS[case.path()];
    match scenario_inner(pl, case) {
        Ok(mut rep) => {
            rep.excluded_known += case.excluded as u64;
            Ok(rep)
        }
        // the committed strict reproducers get the signature of the finding they play
        Err(f) if case.strict => {
            let is = |names: &[&str]| names.iter().any(|n| f.signature == sig(n, path));
            let known = if case.path() == 0 && case.reqs.len() > 1 && is(&["refused-but-forwarded", "no-response", "request-rejected", "connection-closed"]) {
                Some(KNOWN[0])
            } else if case.path() == 1 && case.reqs.iter().any(|r| r.declare_length && !r.trailers.is_empty()) && is(&["unexpected-request-at-backend", "request-unreadable-at-backend"]) {
                Some(KNOWN[1])
            } else if case.reqs.iter().any(|r| r.resp.trailers.iter().any(|(n, _)| ELIDED_TRAILER_NAMES.contains(&n.to_ascii_lowercase().as_str()))) && is(&["response-trailer-changed"]) {
                Some(KNOWN[2])
            } else if case.client_h2() && case.reqs.iter().any(|r| r.trailers.iter().any(|(n, _)| n.eq_ignore_ascii_case(case.cfg().corr))) && is(&["proxy-metadata-via-trailer"]) {
                Some(KNOWN[3])
            } else if case.path() == 2 && case.reqs.iter().any(|r| r.resp.declare_length && r.resp.body_len == 0 && !r.resp.trailers.is_empty()) && is(&["refused-but-forwarded", "no-response"]) {
                Some(KNOWN[4])
            } else if case.client_h2() && case.reqs.iter().any(|r| !r.trailers.is_empty() && size_of(&r.headers) + size_of(&r.trailers) + r.body_len as usize + 200 > H2_TRAILER_BUDGET) && is(&["stream-reset"]) {
                Some(KNOWN[5])
            } else if case.path() == 0 && case.reqs.iter().any(|r| !r.trailers.is_empty() && (r.split.is_some() || size_of(&r.headers) + size_of(&r.trailers) + r.body_len as usize + 200 > H2_TRAILER_BUDGET)) && is(&["trailer-changed"]) {
                Some(KNOWN[6])
            } else {
                None
            };
            Err(match known {
                Some(k) => Failure::new(sig(k, path), format!("{} ({})", f.message, f.signature)),
                None => f,
            })
        }
        Err(f) => Err(f),
    }
}

fn scenario_inner(pl: &mut PathLab, case: &Case) -> CheckResult {
    let mut rep = CaseReport::default();
    if !pl.lab.worker.alive() {
        return Err(Failure::new(sig("worker-died", PATHS[case.path()]), format!("the worker thread is gone: {:?}", pl.lab.worker.join())));
    }
    let path = PATHS[case.path()];
    let cfg = case.cfg();
    let corr_lc = cfg.corr.to_ascii_lowercase();
    let host = if case.backend_h2() { "c1.lab" } else { "c0.lab" };
    let base = pl.seq;
    pl.seq += 8;

    // ---- what the backends will answer
    let mut h1_actions = BTreeMap::new();
    let mut h2s = H2Shared::default();
    let mut plans: Vec<RawMsg> = vec![];
    for (i, r) in case.reqs.iter().enumerate() {
        let n = base + i;
        let seed = 0xC13A + i as u64;
        let body = h1::content(seed, r.resp.body_len as usize);
        let mut fields: Vec<Hdr> = vec![("X-Lab-Resp".to_string(), n.to_string())];
        fields.extend(r.resp.headers.iter().cloned());
        if case.backend_h2() {
            let mut hl: Vec<Hdr> = fields.iter().map(|(k, v)| (k.to_ascii_lowercase(), v.clone())).collect();
            if r.resp.declare_length && !matches!(r.resp.status, 204 | 304) {
                hl.push(("content-length".into(), body.len().to_string()));
            }
            let trailers: Vec<Hdr> = r.resp.trailers.iter().map(|(k, v)| (k.to_ascii_lowercase(), v.clone())).collect();
            h2s.actions.insert(n, H2Action { status: r.resp.status, headers: hl, body: body.clone(), frame_sizes: vec![], pad: None, trailers, reset: None });
        } else {
            h1_actions.insert(
                n,
                BackendAction::Respond {
                    status: r.resp.status,
                    headers: fields.clone(),
                    body_seed: seed,
                    body_len: r.resp.body_len as usize,
                    framing: if r.resp.declare_length || r.resp.body_len == 0 { BodyFraming::ContentLength } else { BodyFraming::Chunked(vec![701, 64]) },
                    write: match r.resp.split {
                        Some(n) => WriteScript { steps: vec![WStep::Write(n as usize), WStep::PauseMs(10)], sndbuf: None },
                        None => WriteScript::default(),
                    },
                    close_after: false,
                    cut_at: None,
                    reset: false,
                },
            );
        }
        plans.push(RawMsg { start: format!("HTTP/1.1 {} x", r.resp.status).into_bytes(), headers: c13::fields(&fields), body, trailers: c13::fields(&r.resp.trailers), clean: true, chunked: false });
    }
    pl.lab.reset_plan(h1_actions, ReadScript::default(), h2s);

    // ---- the conversation
    let mut peers: Vec<Peer> = vec![];
    let exchanges = if case.client_h2() { run_h2_client(pl, case, host, base, &mut peers)? } else { run_h1_client(pl, case, host, base, &mut peers)? };

    // ---- what reached the backends (a record exists before the response is written; refused requests get a moment more)
    if exchanges.iter().any(|e| !matches!(&e.got, Got::Response(m, _) if !m.values("x-lab-resp").is_empty())) {
        std::thread::sleep(Duration::from_millis(60));
    }
    let (h2rec, h2viol) = {
        let g = pl.lab.h2_shared.lock().unwrap();
        (g.recorded.clone(), g.violations.clone())
    };
    let (h1rec, h1raw) = {
        let g = pl.lab.h1_shared.lock().unwrap();
        (g.recorded.clone(), g.raw.clone())
    };
    let raw_tail = |backend: usize, conn: usize| -> String {
        let b = h1raw.get(&(backend, conn)).cloned().unwrap_or_default();
        lossy(&b[b.len().saturating_sub(500)..])
    };
    if let Some(v) = h2viol.iter().find(|v| v.contains("HPACK")) {
        fail!(sig("undecodable-header-block", path), "toward the h2c backend: {v}");
    }
    let wanted: BTreeSet<usize> = (0..case.reqs.len()).map(|i| base + i).collect();
    for r in &h1rec {
        match (&r.msg, r.lab_req) {
            (None, _) => fail!(sig("request-unreadable-at-backend", path), "the HTTP/1.1 backend received bytes that are not one well-formed request: {:?}; the last bytes on that backend connection: {:?}", r.invalid, raw_tail(r.backend, r.conn)),
            (Some(m), n) if !n.map(|n| wanted.contains(&n)).unwrap_or(false) => fail!(sig("unexpected-request-at-backend", path), "the HTTP/1.1 backend received a message that no client of this scenario sent as a request: start line {:?}, fields {:?}; the last bytes on that backend connection: {:?}", m.start_line, m.headers, raw_tail(r.backend, r.conn)),
            _ => {}
        }
    }
    for r in &h2rec {
        if !r.lab_req.map(|n| wanted.contains(&n)).unwrap_or(false) {
            fail!(sig("unexpected-request-at-backend", path), "the h2c backend received a request that no client of this scenario sent: {:?}", r.req.headers);
        }
    }

    let mut forwarded = 0u64;
    let mut refused = 0u64;
    let mut interesting = false;
    for (i, (r, ex)) in case.reqs.iter().zip(exchanges.iter()).enumerate() {
        let n = base + i;
        let peer = &peers[ex.peer];
        let at_h2c: Vec<&RecvStream> = h2rec.iter().filter(|x| x.lab_req == Some(n)).map(|x| &x.req).collect();
        let at_h1: Vec<&h1::H1Message> = h1rec.iter().filter(|x| x.lab_req == Some(n)).filter_map(|x| x.msg.as_ref()).collect();
        let reached = at_h2c.len() + at_h1.len();
        let obs_text = r.headers.iter().any(|(_, v)| v.chars().any(|c| c as u32 >= 0x80));
        let describe_req = || format!("request {i} {:?} {} trailers {}{}", lossy(&ex.sent.start), show_fields(&ex.sent.headers), show_fields(&ex.sent.trailers), r.forbidden.as_ref().map(|f| format!(" + forbidden field {:?}: {:?}", f.name, f.value)).unwrap_or_default());
        let from_backend = matches!(&ex.got, Got::Response(m, _) if m.values("x-lab-resp").first().map(|v| *v == n.to_string().as_bytes()).unwrap_or(false));
        if !from_backend {
            if reached != 0 {
                fail!(sig("refused-but-forwarded", path), "{} was not answered by the backend ({}) although {reached} request(s) of it reached a backend", describe_req(), describe_got(&ex.got));
            }
            let refusal = match &ex.got {
                Got::Response(m, _) => m.status() == Some(400),
                Got::Reset(_) | Got::Closed(_) => case.client_h2(),
                Got::Timeout(_) => false,
            };
            // a value that is forbidden in the client's protocol, or obs-text, which kawa's HTTP/1.1 parser refuses
            if refusal && (r.forbidden.is_some() || (obs_text && !case.client_h2())) {
                refused += 1;
                rep.class(format!("refused:{}", r.forbidden.as_ref().map(|f| f.kind.as_str()).unwrap_or("obs-text")));
                continue;
            }
            let what = match &ex.got {
                Got::Response(..) => "request-rejected",
                Got::Reset(_) => "stream-reset",
                Got::Closed(_) => "connection-closed",
                Got::Timeout(_) => "no-response",
            };
            fail!(sig(what, path), "{} was not forwarded: {}", describe_req(), describe_got(&ex.got));
        }
        let Got::Response(resp, resp_stream) = &ex.got else { unreachable!() };
        if reached != 1 || (case.backend_h2() && at_h2c.len() != 1) {
            fail!(sig("request-count-at-backend", path), "{} reached the h2c backend {} times and the HTTP/1.1 backend {} times", describe_req(), at_h2c.len(), at_h1.len());
        }
        forwarded += 1;
        let got_req = if case.backend_h2() { h2_request_as_raw(at_h2c[0]) } else { h1_message_as_raw(at_h1[0]) };
        // ---- a forbidden field must not have crossed, whatever sozu did with the rest
        let mut got_req = got_req;
        if let Some(f) = &r.forbidden {
            let name = f.name.to_ascii_lowercase();
            let bad_byte = |v: &[u8]| v.iter().any(|b| matches!(*b, 0x00..=0x08 | 0x0A..=0x1F | 0x7F));
            // connection-specific names at an HTTP/1.1 backend are that hop's own business; toward HTTP/2 they are judged below
            let crossed = got_req.headers.iter().chain(got_req.trailers.iter()).any(|(k, v)| c13::lc(k) == "x-injected" || bad_byte(v));
            if crossed {
                fail!(sig(&format!("forbidden-value-forwarded:{}", f.kind), path), "{}: a control byte or an injected field reached the backend: {:?} {} trailers {}", describe_req(), lossy(&got_req.start), show_fields(&got_req.headers), show_fields(&got_req.trailers));
            }
            rep.class(format!("forbidden_field_sent_request_forwarded:{}", f.kind));
            // the rest of the request is judged without it (toward HTTP/2 the raw list is judged below, with it)
            got_req.headers.retain(|(k, _)| c13::lc(k) != name);
        }
        // ---- HTTP/2 toward the backend
        if case.backend_h2() {
            let st = at_h2c[0];
            if let Err((what, msg)) = h2_list_wellformed(&st.raw_headers, &st.raw_trailers, Some((&r.method, &r.target, host))) {
                fail!(sig(&what, path), "{}: what the h2c backend decoded is not a well-formed HTTP/2 request: {msg}\n  decoded {} trailers {}", describe_req(), show_fields(&st.raw_headers), show_fields(&st.raw_trailers));
            }
        }
        // ---- the h1h1 oracle on both sides in one shape
        let mut sent = ex.sent.clone();
        if case.path() == 1 && r.declare_length && !sent.trailers.is_empty() && got_req.trailers.is_empty() {
            // an HTTP/1.1 message framed by Content-Length has no trailer section: the length the client declared is kept, its trailers cannot follow
            rep.class("h2_trailers_after_declared_length_not_deliverable_to_h1");
            sent.trailers.clear();
        }
        if case.backend_h2() {
            // TE crosses into HTTP/2 only as "trailers" (judged above): the h1h1 rule "hop-by-hop fields arrive intact or not at all" does not fit it
            let te_sent: Vec<&[u8]> = sent.values("te");
            if !got_req.values("te").is_empty() && !c13::has_token(&te_sent, b"trailers") {
                fail!(sig("te-invented", path), "{}: the h2c backend received te: trailers, the client sent TE {:?}", describe_req(), te_sent.iter().map(|v| lossy(v)).collect::<Vec<_>>());
            }
            sent.headers.retain(|(k, _)| !k.eq_ignore_ascii_case(b"te"));
            got_req.headers.retain(|(k, _)| !k.eq_ignore_ascii_case(b"te"));
        }
        let cx = Ctx { cfg, peer, cluster: 0, i, sticky_seen: false, proto: if case.client_h2() { "https" } else { "http" } };
        c13::check_request(&cx, &sent, &got_req).map_err(|f| resig(f, path))?;
        let backend_corr = got_req.values(&corr_lc).first().map(|v| v.to_vec()).unwrap_or_default();
        c13::check_response(&cx, &sent, &plans[i], resp, &backend_corr).map_err(|f| resig(f, path))?;
        // ---- HTTP/2 toward the client
        if let Some(st) = resp_stream {
            if let Err((what, msg)) = h2_list_wellformed(&st.raw_headers, &st.raw_trailers, None) {
                fail!(sig(&format!("response:{what}"), path), "response {i}: what the HTTP/2 client decoded is not a well-formed HTTP/2 response: {msg}\n  backend sent {:?} {}\n  decoded {} trailers {}", lossy(&plans[i].start), show_fields(&plans[i].headers), show_fields(&st.raw_headers), show_fields(&st.raw_trailers));
            }
            // response trailers (h2c backend): every field, in order per name
            let (want, have) = (c13::group(&plans[i].trailers), c13::group(&resp.trailers));
            let names: BTreeSet<&String> = want.keys().chain(have.keys()).collect();
            for name in names {
                if c13::get(&want, name) != c13::get(&have, name) {
                    fail!(sig("response-trailer-changed", path), "response {i}: trailer field {name}: the h2c backend sent {}, the HTTP/2 client received {}\n  backend trailers {}\n  client trailers {}", c13::show(c13::get(&want, name)), c13::show(c13::get(&have, name)), show_fields(&plans[i].trailers), show_fields(&resp.trailers));
                }
            }
        }
    }

    // ---- measurement
    let mut any_dup = false;
    let mut any_cookie = false;
    let mut any_trailer = false;
    for r in &case.reqs {
        let names: Vec<String> = r.headers.iter().map(|(n, _)| n.to_ascii_lowercase()).collect();
        let has = |n: &str| names.iter().any(|x| x == n);
        any_dup |= names.iter().filter(|n| *n != "cookie").collect::<BTreeSet<_>>().len() != names.iter().filter(|n| *n != "cookie").count();
        for (_, v) in r.headers.iter().chain(r.trailers.iter()) {
            interesting |= value_kinds(&mut rep, v);
        }
        let cookie_lines: Vec<&String> = r.headers.iter().filter(|(n, _)| n.eq_ignore_ascii_case("cookie")).map(|(_, v)| v).collect();
        let cookie_fields = if case.split_cookies { cookie_lines.iter().map(|v| v.split(';').filter(|c| !c.trim().is_empty()).count()).sum() } else { cookie_lines.len() };
        any_cookie |= !cookie_lines.is_empty();
        rep.class_if(cookie_fields >= 2, "cookies_2+_fields");
        rep.class_if(cookie_lines.iter().any(|v| v.split(';').any(|c| c.trim().starts_with(&format!("{}=", cfg.sticky)))), "sticky_crumb_sent");
        any_trailer |= !r.trailers.is_empty();
        rep.class_if(r.trailers.iter().any(|(n, _)| c13::trailer_protected(&n.to_ascii_lowercase(), cfg)), "trailer_with_protected_name");
        rep.class_if(r.trailers.iter().any(|(n, _)| !c13::trailer_protected(&n.to_ascii_lowercase(), cfg)), "trailer_with_ordinary_name");
        for m in ["x-forwarded-for", "forwarded", "x-real-ip", "x-forwarded-proto", "x-forwarded-port", "x-request-id"] {
            rep.class_if(has(m), &format!("client_{m}"));
        }
        rep.class_if(has(&corr_lc), "client_correlation_header");
        rep.class_if(has("connection"), "h1_client_connection_header");
        rep.class_if(has("keep-alive") || has("proxy-connection") || has("upgrade") || names.iter().zip(r.headers.iter()).any(|(n, (_, v))| n == "te" && !v.eq_ignore_ascii_case("trailers")), "h1_client_other_connection_specific_field");
        rep.class_if(has("te"), "te_field");
        rep.class_if(has_body(&r.method) && !case.client_h2() && !r.declare_length, "h1_client_chunked_body");
        rep.class_if(has_body(&r.method) && case.client_h2() && r.declare_length, "h2_client_declares_content_length");
        rep.class_if(r.body_len > 0, "request_body");
        rep.class_if(r.body_len >= 1500, "request_body_1500+");
        rep.class(format!("method_{}", r.method));
        rep.class_if(r.target.contains('?'), "target_with_query");
        rep.class_if(r.forbidden.is_some(), "forbidden_field_sent");
        rep.class_if(r.split.is_some(), "h1_request_written_in_two_pieces");
        rep.class_if(r.resp.split.is_some(), "h1_response_written_in_two_pieces");
        rep.class(format!("response_{}", r.resp.status));
        let rn: Vec<String> = r.resp.headers.iter().map(|(n, _)| n.to_ascii_lowercase()).collect();
        rep.class_if(rn.iter().collect::<BTreeSet<_>>().len() != rn.len(), "response_duplicate_names");
        rep.class_if(rn.iter().filter(|n| *n == "set-cookie").count() >= 2, "response_set_cookie_2+");
        rep.class_if(rn.iter().any(|n| CONNECTION_SPECIFIC.contains(&n.as_str())), "response_connection_specific_from_h1_backend");
        rep.class_if(rn.iter().any(|n| *n == corr_lc), "response_correlation_name_from_backend");
        rep.class_if(r.resp.headers.iter().any(|(_, v)| v.contains('\t') || v.contains(',') || v.len() >= 150), "response_value_htab_comma_or_long");
        rep.class_if(!r.resp.trailers.is_empty(), "response_trailers");
        rep.class_if(r.resp.body_len > 0, "response_body");
    }
    rep.class(path);
    rep.class_if(case.alt_listener, "listener_elide_send_custom_names");
    rep.class_if(case.concurrent, "h2_streams_concurrent");
    rep.class_if(case.client_h2() && case.reqs.len() > 1 && !case.concurrent, "h2_streams_sequential");
    rep.class_if(!case.client_h2() && case.reqs.len() > 1, if case.strict { "h1_keep_alive" } else { "h1_connection_per_request" });
    rep.class_if(case.split_cookies && any_cookie, "h2_cookie_one_field_per_crumb");
    rep.class_if(any_dup, "duplicate_name");
    rep.class_if(any_cookie, "cookies");
    rep.class_if(any_trailer, "trailers");
    rep.class_if(refused > 0, "refused");
    rep.class_if(case.strict, "strict");
    let uniq: BTreeSet<String> = rep.classes.drain(..).collect();
    rep.classes = uniq.into_iter().collect();
    rep.nontrivial = forwarded > 0 && (interesting || any_dup || any_cookie || any_trailer);
    rep.inner_evaluations = forwarded;
    Ok(rep)
}

// ------------------------------------------------------------------ runner

const RULE: &str = "one scenario = 1..3 requests (HTTP/2: streams of one connection, one after the other or all opened before any response is read; HTTP/1.1: one connection per request, keep-alive only in the strict reproducer of a known finding) over one of three conversions through a live worker: (A) HTTP/1.1 client on a plain listener -> h2c backend, (B) HTTP/2 (TLS, ALPN h2) client -> HTTP/1.1 backend, (C) HTTP/2 client -> h2c backend; two listener pairs (defaults; elide+send X-Real-IP, sozu_id_header X-Edge-Trace, sticky_name LABSTICK). Request: GET/POST/PUT/DELETE/OPTIONS, origin-form targets with query strings, 0..10 fields + up to 2 duplicates from end-to-end names (X-A, X-B, Accept, User-Agent, Authorization, Cache-Control, names with digits and -_), proxy-managed names (X-Forwarded-For/-Proto/-Port/-Host, Forwarded, X-Real-IP, X-Request-Id, Sozu-Id, X-Edge-Trace), Cookie lines of 1..4 crumbs incl. the sticky name (HTTP/2: joined, or one field per crumb) and - HTTP/1.1 client only - Connection (close, keep-alive, upgrade, named fields), Keep-Alive, TE, Upgrade, Proxy-Connection, Transfer-Encoding through chunked bodies; values typical for the name, empty, tokens, printable ASCII with inner spaces, inner HTAB, comma lists, quoted strings, 150..1800 bytes, obs-text (path A only); random case of names on path A, lower case on HTTP/2; bodies 0..20 kB (Content-Length or chunked; DATA with or without content-length) with 0..3 trailer fields (ordinary and proxy-managed names); the HTTP/1.1 request and the HTTP/1.1 backend's response are optionally written in two pieces 10 ms apart; in 4 % of requests one field the client's protocol forbids (HTTP/2: connection-specific field, TE other than trailers, upper-case name, CTL / DEL / NUL / CR LF in a value; HTTP/1.1: CTL / DEL in a value). Response plan: 200/201/204/304/404/500, 0..8 fields incl. duplicates, several Set-Cookie, the correlation name, HTAB / comma / long values, Connection / Keep-Alive from the HTTP/1.1 backend, bodies 0..20 kB, from the h2c backend toward the HTTP/2 client 0..2 trailer fields. Oracle: both sides are brought into one shape (:authority = Host, :method :path = request line, names case-insensitive, values byte-exact after OWS trimming, taken from each peer's own HPACK decoder / strict HTTP/1.1 reader) and judged by the h1h1 oracle: method, target, body equal; per end-to-end name the same value sequence; cookie crumbs in order minus the sticky crumb (joined or split); X-Forwarded-For / Forwarded = the client's elements + the real peer (proto = the listener's scheme), X-Real-IP per elide/send, X-Forwarded-Proto/-Port the client's or the listener's, exactly one X-Request-Id and one correlation header; trailer fields with protected names never arrive, ordinary ones arrive intact (except after an HTTP/2 content-length toward an HTTP/1.1 backend, where no trailer section exists); response status, body and per-name sequences equal plus exactly one correlation header with the id the backend saw. HTTP/2 side conditions on what the h2c backend / the HTTP/2 client decoded: the four request pseudo-header fields (:status for responses) once each, first, non-empty, equal to the client's method / target / Host; lower-case names; no Connection, Keep-Alive, Proxy-Connection, Transfer-Encoding, Upgrade, TE other than trailers; no pseudo-header in trailers; response trailers of the h2c backend arrive intact. Each request reaches exactly one backend once, nothing else reaches a backend (no smuggled request, no unreadable bytes). A request carrying a forbidden field (or obs-text on path A) may be refused (400, RST_STREAM, GOAWAY) and must then not reach any backend; if it is forwarded the forbidden field, an injected field or a control byte must not be in what the backend received; every other request must be forwarded. A failure is re-run twice on a fresh worker and reported only when it reproduces. Non-trivial: at least one request was forwarded and the scenario has a value with HTAB / comma / quote / 150+ bytes, a duplicate name, cookies or trailers; distinct by case hash.";

pub fn describe(ev: &mut Evidence) {
    ev.rule(SUB, RULE);
    ev.assume("h2paths: direct IPv4 loopback peers only (no PROXY protocol), non-sticky clusters, no per-frontend header edits, no HSTS: those settings are exercised over HTTP/1.1 by h1h1; flow-control windows are kept generous (C14's subject)");
    ev.assume("h2paths: an HTTP/2 client sends what RFC 9113 8.2 allows (lower-case names, no connection-specific field, no leading / trailing whitespace, ASCII values) except for the one deliberately forbidden field; TE: trailers may cross into HTTP/2 (RFC 9113 8.2.2); the :scheme sozu writes toward an h2c backend is only required to be http or https; obs-text is generated on path A only because the HTTP/1.1 mock backend of this lab records text");
    ev.assume("h2paths: an HTTP/2 request that declares content-length and ends with trailers cannot deliver them to an HTTP/1.1 backend (Content-Length framing has no trailer section): their absence is admitted there (strict reproducers only, see below), their protected names are still judged");
    ev.assume("h2paths: seven known shapes are excluded by construction and counted in excluded_known (see KNOWN in props/c13_h2.rs), the committed strict reproducers regressions/C13/h2paths-known-*.json play them: a second request on an HTTP/1.1 keep-alive connection toward an h2c backend (502); HTTP/2 request trailers after a declared content-length toward an HTTP/1.1 backend (written after the body, read by the backend as a new request); h2c response trailers named x-real-ip / x-forwarded-for / forwarded / x-request-id (removed); an HTTP/2 request trailer named like the correlation header (forwarded); an h2c response content-length: 0 + trailers (never completes); HTTP/2 request trailers arriving while head + body fill the stream buffer (PROTOCOL_ERROR); HTTP/1.1 request trailers whose section is split across two reads toward an h2c backend (the fields read first are lost) - requests with trailers therefore keep head + body + trailers below 12 kB");
    for p in PATHS {
        ev.floor(SUB, p, 0.25);
    }
    for (class, frac) in [("value_with_htab", 0.2), ("duplicate_name", 0.3), ("trailers", 0.2), ("cookies_2+_fields", 0.15), ("trailer_with_protected_name", 0.06), ("h1_client_connection_header", 0.08), ("response_trailers", 0.03), ("h2_streams_concurrent", 0.1)] {
        ev.floor(SUB, class, frac);
    }
}

pub fn child(args: &Args, total: u64) -> Stats {
    lab::init_ports(args.shard.map(|s| s.0).unwrap_or(0));
    let labcell: RefCell<Option<PathLab>> = RefCell::new(None);
    let flaky = std::cell::Cell::new(0u64);
    let run_on = |fresh: bool, case: &Case| -> CheckResult {
        let mut pl = match (fresh, labcell.borrow_mut().take()) {
            (false, Some(l)) => l,
            (_, old) => {
                drop(old);
                PathLab::new()
            }
        };
        let r = scenario(&mut pl, case);
        *labcell.borrow_mut() = if r.is_ok() { Some(pl) } else { None };
        r
    };
    let check = |case: &Case| -> CheckResult {
        let first = run_on(false, case);
        let Err(f) = first else { return first };
        for _ in 0..2 {
            if let Err(f2) = run_on(true, case) {
                return Err(if f2.signature == f.signature { f2 } else { f });
            }
        }
        flaky.set(flaky.get() + 1);
        engine::note_flaky("C13", &f, &serde_json::to_string(case).unwrap_or_default());
        let mut rep = CaseReport::default();
        rep.class("flaky_unconfirmed");
        Ok(rep)
    };
    let mut st = engine::run_lab_shard(args, "C13", SUB, total, strategy(), check, 40);
    st.flaky_unconfirmed += flaky.get();
    st
}
