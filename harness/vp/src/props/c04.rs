//! C04 — routing depends only on the configured frontends, by documented precedence.
//!
//! Stateful PBT on `sozu_lib::router::Router` against a reference model of the
//! documented precedence, plus metamorphic relations M1 (tree insertion order),
//! M2 (add;remove is identity — via the model) and M3 (a non-matching frontend
//! never changes a probe's route). See DESIGN.md §4 C04.

use std::collections::BTreeSet;

use proptest::prelude::*;
use serde::{Deserialize, Serialize};
use sozu_command_lib::{
    proto::command::{PathRule, PathRuleKind, RedirectPolicy, RulePosition},
    response::HttpFrontend,
};
use sozu_lib::{protocol::http::parser::Method, router::Router};

use crate::engine::{self, Args, CaseReport, CheckResult, Evidence, Failure};

// ------------------------------------------------------------------ alphabets

const TREE_HOSTS: &[&str] = &[
    "a.x.com",
    "b.x.com",
    "ab.x.com",
    "a.b.x.com",
    "z.b.x.com",
    "x.com",
    "a.x.net",
    "A.X.com",
    "*.x.com",
    "*.b.x.com",
    "*.com",
    "/[ab]+/.x.com",
    "a./[bc]/.x.com",
    "/(a|z)/.b.x.com",
    "/[a-z]+/.x.net",
];
const EXTRA_PREPOST_HOSTS: &[&str] = &["*"];

const PROBE_HOSTS: &[&str] = &[
    "a.x.com",
    "b.x.com",
    "ab.x.com",
    "c.x.com",
    "a.b.x.com",
    "z.b.x.com",
    "q.b.x.com",
    "a.c.x.com",
    "x.com",
    "a.x.net",
    "com",
    "b.a.x.com",
    "zz.x.net",
];
const PROBE_PATHS: &[&str] = &[
    "/", "/a", "/a/", "/a/b", "/a/c", "/ab", "/abc", "/b", "/a/b/c",
];
const PROBE_METHODS: &[&str] = &["GET", "POST", "PUT"];

const PREFIX_PATHS: &[&str] = &["", "/", "/a", "/a/", "/a/b", "/ab", "/b"];
const EQUALS_PATHS: &[&str] = &["/a", "/a/b", "/", "/ab"];
const REGEX_PATHS: &[&str] = &["/a.*", "/a/[bc]", "^/ab?$", "/[ab]+", "^/a/b$"];

// ------------------------------------------------------------------ case

#[derive(Clone, Debug, Serialize, Deserialize, PartialEq, Eq)]
pub struct Front {
    /// 0 = PRE, 1 = TREE, 2 = POST
    pub pos: u8,
    pub host: String,
    /// 0 = PREFIX, 1 = REGEX, 2 = EQUALS
    pub kind: u8,
    pub path: String,
    pub method: Option<String>,
    /// 0 = forward to cluster c<idx>, 1 = deny (no cluster), 2 = permanent redirect policy on cluster c<idx>
    pub target: u8,
}

#[derive(Clone, Debug, Serialize, Deserialize)]
pub enum Op {
    Add(usize),
    Remove(usize),
}

#[derive(Clone, Debug, Serialize, Deserialize)]
pub struct Case {
    pub pool: Vec<Front>,
    pub ops: Vec<Op>,
    pub perm: u64,
    /// reproducer mode: do not exclude the known-finding shapes, fail with their signature
    #[serde(default)]
    pub strict: bool,
}

/// raw front: host choice is resolved later against the case's focus hosts
fn front_strategy() -> impl Strategy<Value = (u8, u32, bool, u8, u32, Option<String>, u8)> {
    (
        prop_oneof![1 => Just(0u8), 6 => Just(1u8), 1 => Just(2u8)],
        any::<u32>(),
        prop::bool::weighted(0.7),
        prop_oneof![3 => Just(0u8), 2 => Just(1u8), 2 => Just(2u8)],
        any::<u32>(),
        prop_oneof![3 => Just(None), 1 => Just(Some("GET".to_string())), 1 => Just(Some("POST".to_string()))],
        prop_oneof![6 => Just(0u8), 1 => Just(1u8), 1 => Just(2u8)],
    )
}

pub fn strategy() -> impl Strategy<Value = Case> {
    (
        prop::collection::vec(any::<u32>(), 1..4),
        prop::collection::vec(front_strategy(), 2..11),
        prop::collection::vec((0u8..10, any::<u32>()), 2..19),
        any::<u64>(),
    )
        .prop_map(|(focus, raw_pool, raw, perm)| {
            let focus: Vec<usize> = focus
                .into_iter()
                .map(|x| engine::pick_idx(x, TREE_HOSTS.len()))
                .collect();
            let pool: Vec<Front> = raw_pool
                .into_iter()
                .map(|(pos, h, use_focus, kind, p, method, target)| {
                    let host = if use_focus {
                        TREE_HOSTS[focus[engine::pick_idx(h, focus.len())]].to_string()
                    } else if pos == 1 {
                        TREE_HOSTS[engine::pick_idx(h, TREE_HOSTS.len())].to_string()
                    } else {
                        let n = TREE_HOSTS.len() + EXTRA_PREPOST_HOSTS.len();
                        let i = engine::pick_idx(h, n);
                        if i < TREE_HOSTS.len() {
                            TREE_HOSTS[i].to_string()
                        } else {
                            EXTRA_PREPOST_HOSTS[i - TREE_HOSTS.len()].to_string()
                        }
                    };
                    let paths = match kind {
                        0 => PREFIX_PATHS,
                        1 => REGEX_PATHS,
                        _ => EQUALS_PATHS,
                    };
                    Front {
                        pos,
                        host,
                        kind,
                        path: paths[engine::pick_idx(p, paths.len())].to_string(),
                        method,
                        target,
                    }
                })
                .collect();
            let mut ops = vec![];
            let mut added: Vec<usize> = vec![];
            for (k, x) in raw {
                let i = engine::pick_idx(x, pool.len());
                if k < 6 || added.is_empty() {
                    ops.push(Op::Add(i));
                    added.push(i);
                } else if k < 9 {
                    // remove something that was added before (may already be gone)
                    let j = added[engine::pick_idx(x, added.len())];
                    ops.push(Op::Remove(j));
                } else {
                    ops.push(Op::Remove(i)); // possibly unknown
                }
            }
            Case { pool, ops, perm, strict: false }
        })
}

// ------------------------------------------------------------------ model

#[derive(Clone, Debug, PartialEq, Eq)]
enum Label {
    Lit(String),
    Re(String),
}

#[derive(Clone, Debug, PartialEq, Eq)]
enum HostPat {
    Any,
    Exact(String),
    /// `*.rest` stored as rest ("x.com")
    Wildcard(String),
    Regex(Vec<Label>),
}

fn parse_host(h: &str) -> HostPat {
    let h = h.to_ascii_lowercase();
    if h == "*" {
        return HostPat::Any;
    }
    if h.contains('/') {
        let b: Vec<char> = h.chars().collect();
        let mut labels = vec![];
        let mut i = 0;
        while i < b.len() {
            if b[i] == '/' {
                let mut j = i + 1;
                while j < b.len() && b[j] != '/' {
                    j += 1;
                }
                labels.push(Label::Re(b[i + 1..j].iter().collect()));
                i = j + 1;
            } else {
                let mut j = i;
                while j < b.len() && b[j] != '.' {
                    j += 1;
                }
                labels.push(Label::Lit(b[i..j].iter().collect()));
                i = j;
            }
            if i < b.len() && b[i] == '.' {
                i += 1;
            }
        }
        return HostPat::Regex(labels);
    }
    if let Some(rest) = h.strip_prefix("*.") {
        return HostPat::Wildcard(rest.to_string());
    }
    HostPat::Exact(h)
}

fn host_matches(p: &HostPat, host: &str) -> bool {
    match p {
        HostPat::Any => true,
        HostPat::Exact(s) => s == host,
        HostPat::Wildcard(rest) => match host.strip_suffix(rest.as_str()) {
            Some(pre) => {
                pre.len() >= 2 && pre.ends_with('.') && !pre[..pre.len() - 1].contains('.')
            }
            None => false,
        },
        HostPat::Regex(labels) => {
            let hl: Vec<&str> = host.split('.').collect();
            if hl.len() != labels.len() {
                return false;
            }
            labels.iter().zip(hl).all(|(l, h)| match l {
                Label::Lit(s) => s == h,
                Label::Re(r) => regex::Regex::new(&format!("^(?:{r})$"))
                    .map(|re| re.is_match(h))
                    .unwrap_or(false),
            })
        }
    }
}

/// path rank: (kind rank, prefix length); None = no match
fn path_rank(f: &Front, path: &str) -> Option<(u8, usize)> {
    match f.kind {
        0 => path.starts_with(&f.path).then_some((1, f.path.len())),
        1 => regex::Regex::new(&f.path)
            .ok()
            .and_then(|re| re.is_match(path).then_some((2, 0))),
        _ => (path == f.path).then_some((3, 0)),
    }
}

/// 2 = method-specific match, 1 = method-agnostic, None = no match
fn method_rank(f: &Front, method: &str) -> Option<u8> {
    match &f.method {
        None => Some(1),
        Some(m) => (m == method).then_some(2),
    }
}

fn full_match(f: &Front, host: &str, path: &str, method: &str) -> bool {
    host_matches(&parse_host(&f.host), host)
        && path_rank(f, path).is_some()
        && method_rank(f, method).is_some()
}

/// identity used by the router for dedup/removal
fn identity(f: &Front) -> (u8, String, u8, String, Option<String>) {
    (
        f.pos,
        f.host.to_ascii_lowercase(),
        f.kind,
        f.path.clone(),
        f.method.clone(),
    )
}

#[derive(Clone, Debug, PartialEq, Eq, PartialOrd, Ord, Serialize)]
enum Answer {
    NotFound,
    Deny,
    Cluster(String, bool),
}

fn answer_of(idx: usize, f: &Front) -> Answer {
    match f.target {
        1 => Answer::Deny,
        2 => Answer::Cluster(format!("c{idx}"), true),
        _ => Answer::Cluster(format!("c{idx}"), false),
    }
}

#[derive(Default, Clone)]
struct Model {
    /// pool indices in insertion order
    pre: Vec<usize>,
    tree: Vec<usize>,
    post: Vec<usize>,
}

struct Admissible {
    set: BTreeSet<Answer>,
    /// the admissible set is not a singleton only because ≥ 2 REGEX rules compete (documented as undefined)
    regex_competition: bool,
    /// the answer comes (or may come) from a regex-host leaf
    from_regex_host: bool,
    /// class of host leaf used: 0 pre, 1 exact, 2 wildcard, 3 regex, 4 post, 5 none
    leaf_class: u8,
    multi_match: bool,
}

impl Model {
    fn contains(&self, pool: &[Front], f: &Front) -> Option<usize> {
        let id = identity(f);
        let list = match f.pos {
            0 => &self.pre,
            1 => &self.tree,
            _ => &self.post,
        };
        list.iter().copied().find(|&i| identity(&pool[i]) == id)
    }

    fn best_in_leaf(
        pool: &[Front],
        leaf: &[usize],
        path: &str,
        method: &str,
    ) -> (Vec<usize>, bool, usize) {
        let cands: Vec<(usize, (u8, usize), u8)> = leaf
            .iter()
            .filter_map(|&i| {
                let pr = path_rank(&pool[i], path)?;
                let mr = method_rank(&pool[i], method)?;
                Some((i, pr, mr))
            })
            .collect();
        let mut maximal = vec![];
        for &(i, pr, mr) in &cands {
            let dominated = cands.iter().any(|&(j, pr2, mr2)| {
                j != i && pr2 >= pr && mr2 >= mr && (pr2 > pr || mr2 > mr)
            });
            if !dominated {
                maximal.push(i);
            }
        }
        let regex_comp = maximal.iter().filter(|&&i| pool[i].kind == 1).count() >= 2;
        (maximal, regex_comp, cands.len())
    }

    fn admissible(&self, pool: &[Front], host: &str, path: &str, method: &str) -> Admissible {
        let mut out = Admissible {
            set: BTreeSet::new(),
            regex_competition: false,
            from_regex_host: false,
            leaf_class: 5,
            multi_match: false,
        };
        for &i in &self.pre {
            if full_match(&pool[i], host, path, method) {
                out.set.insert(answer_of(i, &pool[i]));
                out.leaf_class = 0;
                return out;
            }
        }
        // host leaves by precedence class
        let mut exact = vec![];
        let mut wild = vec![];
        let mut regex_leaves: Vec<(String, Vec<usize>)> = vec![];
        for &i in &self.tree {
            let hp = parse_host(&pool[i].host);
            if !host_matches(&hp, host) {
                continue;
            }
            match hp {
                HostPat::Exact(_) => exact.push(i),
                HostPat::Wildcard(_) => wild.push(i),
                HostPat::Regex(_) => {
                    let key = pool[i].host.to_ascii_lowercase();
                    match regex_leaves.iter_mut().find(|(k, _)| *k == key) {
                        Some((_, v)) => v.push(i),
                        None => regex_leaves.push((key, vec![i])),
                    }
                }
                HostPat::Any => {}
            }
        }
        let post_answer = || -> Answer {
            for &i in &self.post {
                if full_match(&pool[i], host, path, method) {
                    return answer_of(i, &pool[i]);
                }
            }
            Answer::NotFound
        };
        // classes in precedence order; the first non-empty class is "the" host leaf. If it has no
        // matching rule, both fall-through readings are admitted (lower-precedence leaves, and post).
        let classes: Vec<(u8, Vec<Vec<usize>>)> = vec![
            (1, if exact.is_empty() { vec![] } else { vec![exact] }),
            (2, if wild.is_empty() { vec![] } else { vec![wild] }),
            (3, regex_leaves.into_iter().map(|(_, v)| v).collect()),
        ];
        let mut decided = false;
        for (cls, leaves) in classes {
            if leaves.is_empty() {
                continue;
            }
            let mut any = false;
            for leaf in &leaves {
                let (best, rc, n) = Self::best_in_leaf(pool, leaf, path, method);
                if n >= 2 {
                    out.multi_match = true;
                }
                if !best.is_empty() {
                    any = true;
                    out.regex_competition |= rc;
                    for i in best {
                        out.set.insert(answer_of(i, &pool[i]));
                    }
                }
            }
            if cls == 3 {
                out.from_regex_host = any;
                if leaves.len() >= 2 {
                    // several regex hosts match: documented as undefined; a leaf without a
                    // matching rule may have been picked, then post applies
                    out.regex_competition = true;
                    out.set.insert(post_answer());
                }
            }
            if out.leaf_class == 5 {
                out.leaf_class = cls;
            }
            if any {
                decided = true;
                break;
            } else {
                // leaf of this class exists but no rule matches: post is admissible, and so is
                // whatever a lower-precedence leaf yields (continue the loop)
                out.set.insert(post_answer());
            }
        }
        if !decided && out.set.is_empty() {
            let a = post_answer();
            out.leaf_class = if a == Answer::NotFound { 5 } else { 4 };
            out.set.insert(a);
        }
        out
    }
}

/// Model of the trie's *walk* (not of the documented precedence): literal child first, then the
/// wildcard on the left-most label, then regex segments in insertion order — and no backtracking.
/// Used only to recognise the known-finding shape "a literal neighbour label hides a regex host"
/// (DESIGN §7 #3): returns the lower-cased host key of the leaf the walk ends in.
fn greedy_leaves(pool: &[Front], tree: &[usize], host: &str) -> Vec<Option<String>> {
    // patterns as right-to-left label lists
    let mut pats: Vec<(String, Vec<Label>)> = vec![];
    for &i in tree {
        let key = pool[i].host.to_ascii_lowercase();
        if pats.iter().any(|(k, _)| *k == key) {
            continue;
        }
        let mut labels: Vec<Label> = match parse_host(&key) {
            HostPat::Exact(s) => s.split('.').map(|l| Label::Lit(l.to_string())).collect(),
            HostPat::Wildcard(rest) => std::iter::once(Label::Lit("*".into()))
                .chain(rest.split('.').map(|l| Label::Lit(l.to_string())))
                .collect(),
            HostPat::Regex(l) => l,
            HostPat::Any => continue,
        };
        labels.reverse();
        pats.push((key, labels));
    }
    let mut probe: Vec<&str> = host.split('.').collect();
    probe.reverse();
    let mut out = vec![];
    fn walk(
        pats: &[(String, Vec<Label>)],
        probe: &[&str],
        d: usize,
        live: Vec<usize>,
        out: &mut Vec<Option<String>>,
    ) {
        if d == probe.len() {
            out.push(
                live.iter()
                    .copied()
                    .find(|&p| pats[p].1.len() == probe.len())
                    .map(|p| pats[p].0.clone()),
            );
            return;
        }
        let lab = probe[d];
        let leftmost = d + 1 == probe.len();
        // literal child: same label, and the pattern's label is its left-most one iff the probe's is
        let lit: Vec<usize> = live
            .iter()
            .copied()
            .filter(|&p| {
                let l = &pats[p].1;
                l.len() > d
                    && l[d] == Label::Lit(lab.to_string())
                    && lab != "*"
                    && ((l.len() == d + 1) == leftmost)
            })
            .collect();
        if !lit.is_empty() {
            return walk(pats, probe, d + 1, lit, out);
        }
        if leftmost {
            if let Some(&p) = live.iter().find(|&&p| {
                let l = &pats[p].1;
                l.len() == d + 1 && l[d] == Label::Lit("*".into())
            }) {
                out.push(Some(pats[p].0.clone()));
                return;
            }
        }
        // regex segments at this node: the first inserted that matches wins, without backtracking;
        // insertion order of segments is not tracked by this model, so every matching one is tried
        let mut regexes: Vec<String> = vec![];
        for &p in &live {
            let l = &pats[p].1;
            if l.len() > d {
                if let Label::Re(r) = &l[d] {
                    let m = regex::Regex::new(&format!("^(?:{r})$"))
                        .map(|re| re.is_match(lab))
                        .unwrap_or(false);
                    if m && !regexes.contains(r) {
                        regexes.push(r.clone());
                    }
                }
            }
        }
        if regexes.is_empty() {
            out.push(None);
            return;
        }
        for r in regexes {
            let sub: Vec<usize> = live
                .iter()
                .copied()
                .filter(|&p| {
                    let l = &pats[p].1;
                    l.len() > d && l[d] == Label::Re(r.clone())
                })
                .collect();
            walk(pats, probe, d + 1, sub, out);
        }
    }
    walk(&pats, &probe, 0, (0..pats.len()).collect(), &mut out);
    out
}

impl Model {
    /// answers the trie *walk* can explain for a probe (best rules of the greedy leaf, else post)
    fn greedy_answers(&self, pool: &[Front], host: &str, path: &str, method: &str) -> BTreeSet<Answer> {
        let mut out = BTreeSet::new();
        for &i in &self.pre {
            if full_match(&pool[i], host, path, method) {
                out.insert(answer_of(i, &pool[i]));
                return out;
            }
        }
        let mut fallthrough = false;
        for leaf_key in greedy_leaves(pool, &self.tree, host) {
            let Some(key) = leaf_key else {
                fallthrough = true;
                continue;
            };
            let leaf: Vec<usize> = self
                .tree
                .iter()
                .copied()
                .filter(|&i| pool[i].host.to_ascii_lowercase() == key)
                .collect();
            let (best, _, _) = Self::best_in_leaf(pool, &leaf, path, method);
            if best.is_empty() {
                fallthrough = true;
            }
            for i in best {
                out.insert(answer_of(i, &pool[i]));
            }
        }
        if out.is_empty() || fallthrough {
            for &i in &self.post {
                if full_match(&pool[i], host, path, method) {
                    out.insert(answer_of(i, &pool[i]));
                    return out;
                }
            }
            out.insert(Answer::NotFound);
        }
        out
    }
}

// ------------------------------------------------------------------ system under test

fn to_frontend(idx: usize, f: &Front) -> HttpFrontend {
    HttpFrontend {
        cluster_id: if f.target == 1 {
            None
        } else {
            Some(format!("c{idx}"))
        },
        address: "127.0.0.1:8080".parse().unwrap(),
        hostname: f.host.clone(),
        path: PathRule {
            kind: match f.kind {
                0 => PathRuleKind::Prefix,
                1 => PathRuleKind::Regex,
                _ => PathRuleKind::Equals,
            } as i32,
            value: f.path.clone(),
        },
        method: f.method.clone(),
        position: match f.pos {
            0 => RulePosition::Pre,
            1 => RulePosition::Tree,
            _ => RulePosition::Post,
        },
        tags: None,
        redirect: if f.target == 2 {
            Some(RedirectPolicy::Permanent as i32)
        } else {
            None
        },
        redirect_scheme: None,
        redirect_template: None,
        rewrite_host: None,
        rewrite_path: None,
        rewrite_port: None,
        required_auth: None,
        headers: vec![],
        hsts: None,
    }
}

fn observe(router: &Router, host: &str, path: &str, method: &str) -> Answer {
    match router.lookup(host, path, &Method::new(method.as_bytes())) {
        Err(_) => Answer::NotFound,
        Ok(r) => match r.cluster_id {
            None => Answer::Deny,
            Some(c) => {
                if r.redirect == RedirectPolicy::Unauthorized {
                    Answer::Deny
                } else {
                    Answer::Cluster(c, r.redirect == RedirectPolicy::Permanent)
                }
            }
        },
    }
}

fn all_probes() -> Vec<(&'static str, &'static str, &'static str)> {
    let mut v = vec![];
    for h in PROBE_HOSTS {
        for p in PROBE_PATHS {
            for m in PROBE_METHODS {
                v.push((*h, *p, *m));
            }
        }
    }
    v
}

fn snapshot(router: &Router) -> Vec<Answer> {
    all_probes()
        .into_iter()
        .map(|(h, p, m)| observe(router, h, p, m))
        .collect()
}

pub fn check(case: &Case) -> CheckResult {
    let pool = &case.pool;
    let probes = all_probes();
    let mut rep = CaseReport::default();
    let mut router = Router::new();
    let mut model = Model::default();
    let mut prev = snapshot(&router);
    let mut prev_known = vec![false; probes.len()];
    let mut successful_remove = false;
    let mut shared_leaf = false;
    let mut multi_match_probe = false;

    for (step, op) in case.ops.iter().enumerate() {
        let (f, is_add, idx) = match op {
            Op::Add(i) => (&pool[*i], true, *i),
            Op::Remove(i) => (&pool[*i], false, *i),
        };
        let fe = to_frontend(idx, f);
        let present = model.contains(pool, f);
        let res = if is_add {
            router.add_http_front(&fe)
        } else {
            router.remove_http_front(&fe)
        };
        // verdict must agree with the model's notion of identity
        let changed = if is_add {
            match (present, &res) {
                (None, Ok(())) => {
                    match f.pos {
                        0 => model.pre.push(idx),
                        1 => {
                            if model.tree.iter().any(|&j| {
                                pool[j].host.to_ascii_lowercase() == f.host.to_ascii_lowercase()
                            }) {
                                shared_leaf = true;
                            }
                            model.tree.push(idx)
                        }
                        _ => model.post.push(idx),
                    }
                    true
                }
                (Some(_), Err(_)) => false,
                (None, Err(e)) => fail!(
                    "C04/add-rejected",
                    "step {step}: adding a new frontend {f:?} was rejected: {e}"
                ),
                (Some(j), Ok(())) => fail!(
                    "C04/duplicate-accepted",
                    "step {step}: frontend {f:?} has the identity of already present pool[{j}] but was accepted again"
                ),
            }
        } else {
            match (present, &res) {
                (Some(j), Ok(())) => {
                    match f.pos {
                        0 => model.pre.retain(|&x| x != j),
                        1 => model.tree.retain(|&x| x != j),
                        _ => model.post.retain(|&x| x != j),
                    }
                    successful_remove = true;
                    true
                }
                (None, _) => false, // removing an unknown frontend: Ok or Err, nothing may change
                (Some(_), Err(e)) => fail!(
                    "C04/remove-rejected",
                    "step {step}: removing present frontend {f:?} failed: {e}"
                ),
            }
        };

        let now = snapshot(&router);
        for (k, (h, p, m)) in probes.iter().enumerate() {
            let adm = model.admissible(pool, h, p, m);
            rep.inner_evaluations += 1;
            multi_match_probe |= adm.multi_match;
            let mut known_shape = false;
            if !adm.set.contains(&now[k]) {
                // known finding: the trie walk does not backtrack, so a literal neighbour label hides
                // a regex host that covers the probe
                let greedy = model.greedy_answers(pool, h, p, m);
                if greedy.contains(&now[k]) {
                    if case.strict {
                        fail!(
                            "C04/trie-no-backtrack",
                            "step {step} ({op:?} {f:?}): probe {m} {h}{p} answered {:?}; documented precedence admits {:?} (a regex host covers it) but a literal neighbour label stops the trie walk; tree={:?}",
                            now[k],
                            adm.set,
                            model.tree.iter().map(|&i| &pool[i].host).collect::<Vec<_>>()
                        );
                    }
                    rep.excluded_known += 1;
                    known_shape = true;
                }
            }
            if !known_shape && !adm.set.contains(&now[k]) {
                fail!(
                    "C04/outside-admissible",
                    "step {step} ({op:?} {f:?}): probe {m} {h}{p} answered {:?}, admissible by documented precedence: {:?}; configured pre={:?} tree={:?} post={:?}",
                    now[k],
                    adm.set,
                    model.pre.iter().map(|&i| &pool[i]).collect::<Vec<_>>(),
                    model.tree.iter().map(|&i| &pool[i]).collect::<Vec<_>>(),
                    model.post.iter().map(|&i| &pool[i]).collect::<Vec<_>>()
                );
            }
            // M3: an operation on a frontend that does not match the probe (or that changed nothing)
            // leaves the probe's answer unchanged
            if (!changed || !full_match(f, h, p, m)) && now[k] != prev[k] {
                let host_hit = host_matches(&parse_host(&f.host), h);
                if changed && f.pos == 1 && (host_hit || known_shape || prev_known[k]) && !case.strict {
                    // known findings: (a) a host leaf takes the request before its path rules are
                    // looked at, so a frontend matching only the host hides lower-precedence hosts;
                    // (b) the no-backtrack shape above
                    rep.excluded_known += 1;
                    prev_known[k] = known_shape;
                    continue;
                }
                if known_shape || prev_known[k] {
                    fail!(
                        "C04/trie-no-backtrack",
                        "step {step} ({op:?} {f:?}): non-matching frontend changed probe {m} {h}{p} from {:?} to {:?} (literal neighbour label hides a regex host)",
                        prev[k],
                        now[k]
                    );
                }
                let sig = if changed && f.pos == 1 && host_hit {
                    "C04/m3-host-leaf-shadow"
                } else if changed && f.pos == 1 {
                    "C04/m3-trie-neighbour"
                } else {
                    "C04/m3-unrelated-op-changed-route"
                };
                fail!(
                    sig,
                    "step {step} ({op:?} {f:?}, changed={changed}): frontend does not match probe {m} {h}{p} but its answer went {:?} -> {:?}",
                    prev[k],
                    now[k]
                );
            }
            prev_known[k] = known_shape;
        }
        prev = now;
    }

    // M1: same configuration rebuilt with the tree frontends inserted in another order
    let mut other = Router::new();
    let mut tree = model.tree.clone();
    let mut s = case.perm;
    for i in (1..tree.len()).rev() {
        let j = (engine::splitmix64(&mut s) % (i as u64 + 1)) as usize;
        tree.swap(i, j);
    }
    for &i in model.pre.iter().chain(tree.iter()).chain(model.post.iter()) {
        if let Err(e) = other.add_http_front(&to_frontend(i, &pool[i])) {
            fail!(
                "C04/m1-rebuild-rejected",
                "rebuilding the surviving configuration rejected {:?}: {e}",
                pool[i]
            );
        }
    }
    let snap2 = snapshot(&other);
    for (k, (h, p, m)) in probes.iter().enumerate() {
        let adm = model.admissible(pool, h, p, m);
        let greedy = model.greedy_answers(pool, h, p, m);
        if !greedy.is_subset(&adm.set) && !case.strict {
            // no-backtrack shape: which regex segment was inserted first decides; excluded
            if !adm.set.contains(&snap2[k]) || snap2[k] != prev[k] {
                if !greedy.contains(&snap2[k]) && !adm.set.contains(&snap2[k]) {
                    fail!(
                        "C04/outside-admissible",
                        "rebuilt router: probe {m} {h}{p} answered {:?}, admissible {:?}, trie-walk-explainable {:?}",
                        snap2[k],
                        adm.set,
                        greedy
                    );
                }
                rep.excluded_known += 1;
            }
            continue;
        }
        if !adm.set.contains(&snap2[k]) {
            fail!(
                "C04/outside-admissible",
                "rebuilt router (tree order {:?}): probe {m} {h}{p} answered {:?}, admissible {:?}",
                tree.iter().map(|&i| &pool[i]).collect::<Vec<_>>(),
                snap2[k],
                adm.set
            );
        }
        if !adm.regex_competition && snap2[k] != prev[k] {
            fail!(
                "C04/m1-insertion-order",
                "probe {m} {h}{p}: history order answers {:?}, tree order {:?} answers {:?}",
                prev[k],
                tree.iter().map(|&i| &pool[i]).collect::<Vec<_>>(),
                snap2[k]
            );
        }
    }

    rep.nontrivial = (successful_remove || shared_leaf) && multi_match_probe;
    rep.class_if(successful_remove, "has_successful_remove");
    rep.class_if(shared_leaf, "shared_host_leaf");
    rep.class_if(multi_match_probe, "probe_with_2+_matching_rules");
    rep.class_if(pool.iter().any(|f| f.kind == 2), "has_equals_path");
    rep.class_if(pool.iter().any(|f| f.host.contains('/')), "has_regex_host");
    rep.class_if(pool.iter().any(|f| f.pos != 1), "has_pre_or_post");
    Ok(rep)
}

pub fn run(args: &Args) -> i32 {
    let mut ev = Evidence::new(args, "exploration");
    ev.rule(
        "router",
        "history = 0..14 Add/Remove ops over a pool of 1..8 frontends drawn from overlapping host/path/method alphabets, applied to sozu_lib::router::Router; after every op all 351 probes (13 hosts x 9 paths x 3 methods) are looked up and compared with the admissible set of a reference model of the documented precedence, plus M1 (tree order permutation) and M3 (non-matching op leaves the route unchanged). Non-trivial: a successful Remove or two frontends sharing a host leaf, and a probe matched by >= 2 rules; distinct by case hash.",
    );
    ev.assume("regex host/path alphabets never match '.' so label-wise and whole-host regex semantics coincide");
    ev.assume("when the highest-precedence host leaf has no matching path rule, both falling through to lower-precedence leaves and to POST rules are admitted");
    ev.floor("router", "has_successful_remove", 0.10);
    ev.floor("router", "probe_with_2+_matching_rules", 0.20);
    let cases = args.cases(6_000, 150_000);
    engine::run_pbt(&mut ev, args, "router", cases, strategy, check);
    let _ = Failure::new("", "");
    ev.finish()
}
