//! C08 — workers answer each command exactly once and converge on the master's view (DESIGN §4 C08).
//!
//! Wire lab, command plane. One scenario = one fresh worker thread (`LabWorker`): a generated
//! sequence of worker requests is written on its command channel in bursts (optionally with HTTP
//! traffic between the write and the read of a burst); every answer is recorded. Oracles:
//! (1) exactly one final answer per id, no foreign id; (2) the worker's queryable view equals a
//! `ConfigState` fed the commands the worker answered Ok; (3) listening sockets and one routed
//! probe request match that model; (4) SoftStop / HardStop end the worker thread.
//!
//! Known deviations (each has a strict reproducer under /verif/regressions/C08/ and is excluded by
//! construction when `strict` is false, so that the search goes on):
//!  K1 `C08/worker-panicked:lib/src/server.rs:2121`  RemoveListener with base_sessions_count == 0
//!  K2 `C08/softstop-never-finishes:listener-removed` RemoveListener leaves the listen slab entry behind
//!  K3 `C08/unanswered-before-hardstop:<verb>`        answers queued in the same read batch as HardStop are lost
//!  K4 `C08/view-differs-after-failure:<verb>`        a Failure answer leaves the worker's ConfigState changed
//!  K5 `C08/route-differs-from-view:listener-readded` frontends survive in the view, not in a re-added listener
//!  K6 `C08/worker-panicked:lib/src/metrics/mod.rs:638` renewing a SetMetricDetail lease at a lower level trips a debug assertion
//!  K7 `C08/route-differs-from-view:listener-reactivated` a listener activated again after DeactivateListener never accepts
//!  K8 `C08/worker-panicked:lib/src/protocol/mux/h2.rs:1026` Add*Listener accepts a zero H2 flood threshold, the first session asserts
//!
//! `vp C08 --shard 0/1 --emit-known` re-runs the strict reproducers (`known_cases`) and rewrites the regression files.

use std::{
    collections::{BTreeMap, BTreeSet},
    io::Write,
    net::{SocketAddr, TcpListener, TcpStream, UdpSocket},
    sync::Mutex,
    time::{Duration, Instant},
};

use proptest::prelude::*;
use serde::{Deserialize, Serialize};
use sozu_command_lib::{
    proto::command::{
        ActivateListener, AddBackend, Cluster, HardStop, ListenerType, LoadBalancingParams, PathRule, PathRuleKind, QueryCertificatesFilters,
        QueryClusterByDomain, QueryClustersHashes, QueryMaxConnectionsPerIp, QueryMetricsOptions, Request, RequestHttpFrontend,
        ResponseStatus, ReturnListenSockets, SetMetricDetail, SocketAddress, SoftStop, Status, WorkerResponse,
        request::RequestType, response_content::ContentType,
    },
    scm_socket::Listeners,
    state::ConfigState,
};

use crate::{
    engine::{self, Args, CaseReport, CheckResult, Evidence, Failure, Stats, pick_idx},
    gens::{certs, cmd},
    lab::{
        self, LabConfig, LabError, LabWorker,
        h1::{self, Acceptor, H1Conn, Kind, ReadOutcome},
    },
};

use RequestType as T;

// ------------------------------------------------------------------------------------------------
// case

/// K1 (RemoveListener underflow), K3 (answers lost before HardStop), K6 (lease assertion) and K8 (zero flood knob) are repaired in sozu:
/// generated sequences no longer steer around them (K4, K5 still are known findings; K2 and K7: see K2_REPAIRED, K7_REPAIRED).
const STEER_REPAIRED: bool = false;
/// K2 (RemoveListener left the listen slab entry behind, SoftStop never finished) is repaired in sozu:
/// SoftStop is no longer replaced after a RemoveListener and a hang is reported whatever preceded it.
const K2_REPAIRED: bool = true;
/// K7 (a listener activated again after DeactivateListener never accepted) is repaired by the same change
/// (the listen slab entry now lives from Add*Listener to RemoveListener): re-activated listeners get
/// traffic and routed probes like any other.
const K7_REPAIRED: bool = true;

#[derive(Clone, Debug, Serialize, Deserialize)]
pub struct Case {
    /// the command sequence; addresses are the placeholders of `gens::cmd` (mapped onto real
    /// loopback ports at run time: listener address i -> reserved port i, backend address i -> mock i)
    pub reqs: Vec<Request>,
    /// burst sizes, used cyclically: that many commands are written back-to-back, then answers are read
    pub bursts: Vec<u8>,
    /// bit i set: listener address i is occupied by the harness, activating a listener there must fail
    pub blocked: u8,
    /// Some(k): HTTP/1.1 traffic between the write and the read of every k-th burst
    pub traffic: Option<u8>,
    pub traffic_host: u32,
    /// final verb: SoftStop (true) or HardStop
    pub soft: bool,
    /// that many trailing commands of `reqs` are written in the same burst as the stop verb
    pub tail: u8,
    /// false: sequences are steered around the known deviations K1..K8 (counted as excluded_known)
    #[serde(default)]
    pub strict: bool,
}

const PROBE_HOSTS: &[&str] = &["a.x.com", "b.x.com", "x.com", "zz.x.com", "unknown.org"];

fn rq(t: RequestType) -> Request {
    t.into()
}

fn set_metric_detail() -> impl Strategy<Value = SetMetricDetail> {
    (
        prop_oneof![3 => Just("top:1".to_string()), 3 => Just("top:2".to_string()), 1 => Just("x".repeat(300)), 1 => Just(String::new())],
        prop_oneof![1 => Just(None), 4 => (0i32..4).prop_map(Some), 1 => Just(Some(9i32))],
        prop_oneof![2 => Just(None), 1 => Just(Some(0u32)), 2 => Just(Some(60u32)), 1 => Just(Some(300u32)), 1 => Just(Some(301u32))],
        prop_oneof![3 => Just(None), 1 => Just(Some(false)), 2 => Just(Some(true))],
        prop_oneof![2 => Just(None), 1 => Just(Some(1i32)), 1 => Just(Some(2i32))],
        prop_oneof![2 => Just(None), 1 => Just(Some("01ARZ3NDEKTSV4RRFFQ69G5FAV".to_string())), 1 => Just(Some("0xff".to_string())), 1 => Just(Some("nonsense".to_string()))],
    )
        .prop_map(|(client_id, detail, ttl_seconds, clear, peer_pid, peer_session_ulid)| SetMetricDetail {
            client_id,
            detail,
            ttl_seconds,
            clear,
            reason: None,
            peer_pid,
            peer_session_ulid,
        })
}

/// the verbs a worker can be sent besides the configuration verbs of `gens::cmd`
fn extra() -> impl Strategy<Value = Request> {
    prop_oneof![
        2 => prop_oneof![Just(0u64), Just(0u64), Just(1), Just(2), Just(1000), Just(u64::MAX)].prop_map(|n| rq(T::SetMaxConnectionsPerIp(n))),
        2 => Just(rq(T::QueryMaxConnectionsPerIp(QueryMaxConnectionsPerIp {}))),
        3 => set_metric_detail().prop_map(|s| rq(T::SetMetricDetail(s))),
        2 => prop_oneof![Just(0i32), Just(1), Just(2), Just(7)].prop_map(|n| rq(T::ConfigureMetrics(n))),
        2 => prop_oneof![Just("error"), Just("warn"), Just("off"), Just("sozu_lib=warn,error"), Just("sozu=verbose,,=x"), Just("")].prop_map(|s| rq(T::Logging(s.to_string()))),
        2 => Just(rq(T::Status(Status {}))),
        3 => any::<u32>().prop_map(|c| {
            let pool = ["c0", "c1", "c2", "c3", "zz", ""];
            rq(T::QueryClusterById(pool[pick_idx(c, pool.len())].to_string()))
        }),
        2 => (any::<u32>(), prop_oneof![Just(None), Just(Some("/api".to_string())), Just(Some("".to_string()))]).prop_map(|(h, path)| {
            let pool = ["a.x.com", "b.x.com", "x.com", "*.x.com", "nowhere.org", ""];
            rq(T::QueryClustersByDomain(QueryClusterByDomain { hostname: pool[pick_idx(h, pool.len())].to_string(), path }))
        }),
        2 => Just(rq(T::QueryClustersHashes(QueryClustersHashes {}))),
        3 => (prop_oneof![2 => Just(None), 1 => Just(Some("a.x.com".to_string())), 1 => Just(Some("nowhere.org".to_string()))],
              prop_oneof![2 => Just(None), 2 => (0usize..certs::BANK.len()).prop_map(|i| Some(certs::BANK[i].fingerprint.to_string())), 1 => Just(Some("zz".to_string())), 1 => Just(Some("00".repeat(32)))])
            .prop_map(|(domain, fingerprint)| rq(T::QueryCertificatesFromWorkers(QueryCertificatesFilters { domain, fingerprint }))),
        2 => (any::<bool>(), any::<bool>(), any::<bool>(), prop_oneof![Just(vec![]), Just(vec!["c0".to_string()]), Just(vec!["zz".to_string()])], prop_oneof![Just(vec![]), Just(vec!["b0".to_string()])], prop_oneof![Just(vec![]), Just(vec!["http.requests".to_string()])])
            .prop_map(|(list, no_clusters, workers, cluster_ids, backend_ids, metric_names)| rq(T::QueryMetrics(QueryMetricsOptions { list, cluster_ids, backend_ids, metric_names, no_clusters, workers }))),
        1 => Just(rq(T::ReturnListenSockets(ReturnListenSockets {}))),
    ]
}

#[derive(Clone, Debug)]
struct Scaffold {
    listener: u32,
    cluster: u32,
    host: u32,
    backend: bool,
    at: [u32; 5],
}

fn listener_type_of(t: &RequestType) -> Option<(SocketAddress, ListenerType)> {
    match t {
        T::AddHttpListener(l) => Some((l.address, ListenerType::Http)),
        T::AddHttpsListener(l) => Some((l.address, ListenerType::Https)),
        T::AddTcpListener(l) => Some((l.address, ListenerType::Tcp)),
        T::AddUdpListener(l) => Some((l.address, ListenerType::Udp)),
        _ => None,
    }
}

/// Point listener-directed commands at a listener some earlier command of the sequence added.
fn retarget(reqs: &mut [Request], knobs: &[(u32, u8)]) {
    for i in 0..reqs.len() {
        let (x, coin) = knobs[i];
        if coin >= 170 {
            continue;
        }
        let earlier: Vec<(SocketAddress, ListenerType)> = reqs[..i].iter().filter_map(|r| r.request_type.as_ref().and_then(listener_type_of)).collect();
        let of = |k: ListenerType| -> Option<SocketAddress> {
            let c: Vec<_> = earlier.iter().filter(|(_, t)| *t == k).collect();
            if c.is_empty() { None } else { Some(c[pick_idx(x, c.len())].0) }
        };
        let any = || -> Option<(SocketAddress, ListenerType)> { if earlier.is_empty() { None } else { Some(earlier[pick_idx(x, earlier.len())]) } };
        let Some(t) = reqs[i].request_type.as_mut() else { continue };
        match t {
            T::ActivateListener(a) => {
                if let Some((addr, k)) = any() {
                    a.address = addr;
                    a.proxy = k as i32;
                }
            }
            T::DeactivateListener(a) => {
                if let Some((addr, k)) = any() {
                    a.address = addr;
                    a.proxy = k as i32;
                }
            }
            T::RemoveListener(a) => {
                if let Some((addr, k)) = any() {
                    a.address = addr;
                    a.proxy = k as i32;
                }
            }
            T::UpdateHttpListener(p) => {
                if let Some(a) = of(ListenerType::Http) {
                    p.address = a;
                }
            }
            T::UpdateHttpsListener(p) => {
                if let Some(a) = of(ListenerType::Https) {
                    p.address = a;
                }
            }
            T::UpdateTcpListener(p) => {
                if let Some(a) = of(ListenerType::Tcp) {
                    p.address = a;
                }
            }
            T::UpdateUdpListener(p) => {
                if let Some(a) = of(ListenerType::Udp) {
                    p.address = a;
                }
            }
            T::AddHttpFrontend(f) | T::RemoveHttpFrontend(f) => {
                if let Some(a) = of(ListenerType::Http) {
                    f.address = a;
                }
            }
            T::AddHttpsFrontend(f) | T::RemoveHttpsFrontend(f) => {
                if let Some(a) = of(ListenerType::Https) {
                    f.address = a;
                }
            }
            T::AddTcpFrontend(f) | T::RemoveTcpFrontend(f) => {
                if let Some(a) = of(ListenerType::Tcp) {
                    f.address = a;
                }
            }
            T::AddUdpFrontend(f) | T::RemoveUdpFrontend(f) => {
                if let Some(a) = of(ListenerType::Udp) {
                    f.address = a;
                }
            }
            T::AddCertificate(c) => {
                if let Some(a) = of(ListenerType::Https) {
                    c.address = a;
                }
            }
            T::RemoveCertificate(c) => {
                if let Some(a) = of(ListenerType::Https) {
                    c.address = a;
                }
            }
            T::ReplaceCertificate(c) => {
                if let Some(a) = of(ListenerType::Https) {
                    c.address = a;
                }
            }
            _ => {}
        }
    }
}

fn scaffold_requests(s: &Scaffold) -> Vec<Request> {
    let addr = cmd::sa(cmd::LISTENER_ADDRS[pick_idx(s.listener, cmd::LISTENER_ADDRS.len())]);
    let cluster = cmd::CLUSTERS[pick_idx(s.cluster, cmd::CLUSTERS.len())].to_string();
    let host = ["a.x.com", "b.x.com", "x.com"][pick_idx(s.host, 3)].to_string();
    let listener = sozu_command_lib::config::ListenerBuilder::new_http(addr).to_http(None).expect("http listener");
    vec![
        rq(T::AddHttpListener(listener)),
        rq(T::ActivateListener(ActivateListener { address: addr, proxy: ListenerType::Http as i32, from_scm: false })),
        rq(T::AddCluster(Cluster { cluster_id: cluster.clone(), ..Default::default() })),
        rq(T::AddBackend(AddBackend {
            cluster_id: cluster.clone(),
            backend_id: if s.backend { "b1".into() } else { "b0".into() },
            address: cmd::sa(cmd::BACKEND_ADDRS[if s.backend { 1 } else { 0 }]),
            sticky_id: None,
            load_balancing_parameters: Some(LoadBalancingParams { weight: 100 }),
            backup: None,
        })),
        rq(T::AddHttpFrontend(RequestHttpFrontend { cluster_id: Some(cluster), address: addr, hostname: host, path: PathRule::prefix("/".to_string()), position: 2, ..Default::default() })),
    ]
}

pub fn strategy() -> impl Strategy<Value = Case> {
    (
        prop::collection::vec((prop_oneof![7 => cmd::request(), 2 => extra()], any::<u32>(), any::<u8>()), 5..=60),
        prop_oneof![1 => Just(None::<Scaffold>), 1 => (any::<u32>(), any::<u32>(), any::<u32>(), any::<bool>(), any::<[u32; 5]>()).prop_map(|(listener, cluster, host, backend, at)| Some(Scaffold { listener, cluster, host, backend, at }))],
        prop::collection::vec(prop_oneof![2 => Just(1u8), 3 => 2u8..6, 3 => 6u8..16, 1 => Just(60u8)], 1..5),
        prop::collection::vec(prop::bool::weighted(0.22), 6),
        prop_oneof![1 => Just(None::<u8>), 1 => (1u8..4).prop_map(Some)],
        any::<u32>(),
        any::<bool>(),
        prop_oneof![3 => Just(0u8), 1 => 1u8..4],
    )
        .prop_map(|(raw, scaffold, bursts, blocked, traffic, traffic_host, soft, tail)| {
            let mut reqs: Vec<Request> = vec![];
            let mut knobs: Vec<(u32, u8)> = vec![];
            for (r, x, c) in raw {
                reqs.push(r);
                knobs.push((x, c));
            }
            if let Some(s) = &scaffold {
                // insert the five scaffold commands in order at generated positions
                let mut pos: Vec<usize> = s.at.iter().map(|x| pick_idx(*x, reqs.len() + 1)).collect();
                pos.sort();
                for (k, r) in scaffold_requests(s).into_iter().enumerate() {
                    let p = (pos[k] + k).min(reqs.len());
                    reqs.insert(p, r);
                    knobs.insert(p, (0, 255));
                }
                reqs.truncate(60);
                knobs.truncate(60);
            }
            retarget(&mut reqs, &knobs);
            let blocked = blocked.iter().enumerate().fold(0u8, |m, (i, b)| if *b { m | (1 << i) } else { m });
            Case { reqs, bursts, blocked, traffic, traffic_host, soft, tail, strict: false }
        })
}

pub fn verb(r: &Request) -> &'static str {
    match cmd::verb(r) {
        "other" => match &r.request_type {
            Some(T::SetMaxConnectionsPerIp(_)) => "SetMaxConnectionsPerIp",
            Some(T::QueryMaxConnectionsPerIp(_)) => "QueryMaxConnectionsPerIp",
            Some(T::SetMetricDetail(_)) => "SetMetricDetail",
            Some(T::ConfigureMetrics(_)) => "ConfigureMetrics",
            Some(T::Logging(_)) => "Logging",
            Some(T::Status(_)) => "Status",
            Some(T::QueryClusterById(_)) => "QueryClusterById",
            Some(T::QueryClustersByDomain(_)) => "QueryClustersByDomain",
            Some(T::QueryClustersHashes(_)) => "QueryClustersHashes",
            Some(T::QueryCertificatesFromWorkers(_)) => "QueryCertificatesFromWorkers",
            Some(T::QueryMetrics(_)) => "QueryMetrics",
            Some(T::ReturnListenSockets(_)) => "ReturnListenSockets",
            Some(T::SoftStop(_)) => "SoftStop",
            Some(T::HardStop(_)) => "HardStop",
            _ => "other",
        },
        v => v,
    }
}

// ------------------------------------------------------------------------------------------------
// environment of one scenario: real ports behind the placeholder addresses, mock backends

// Listener ports come from a range of this check's own (2000..10960, 560 per shard), disjoint from the
// ranges of `lab::init_ports` that every other lab process draws from: this check probes ports it expects
// to be CLOSED, and two sozu workers (both SO_REUSEPORT) could even share a port silently.
static PORT_BASE: std::sync::atomic::AtomicU16 = std::sync::atomic::AtomicU16::new(2000);
static PORT_CURSOR: std::sync::atomic::AtomicU16 = std::sync::atomic::AtomicU16::new(0);
const PORTS_PER_SHARD: u16 = 560;

fn init_own_ports(shard: usize) {
    use std::sync::atomic::Ordering;
    PORT_BASE.store(2000 + (shard as u16 % 16) * PORTS_PER_SHARD, Ordering::SeqCst);
    PORT_CURSOR.store(((std::process::id() % 50) * 10) as u16, Ordering::SeqCst);
}

/// (address, listener holding it): drop the listener to free the port
fn own_bound_listener() -> (SocketAddr, TcpListener) {
    use std::sync::atomic::Ordering;
    for _ in 0..PORTS_PER_SHARD as usize * 2 {
        let off = PORT_CURSOR.fetch_add(1, Ordering::SeqCst) % PORTS_PER_SHARD;
        let addr = SocketAddr::from(([127, 0, 0, 1], PORT_BASE.load(Ordering::SeqCst) + off));
        if let Ok(l) = TcpListener::bind(addr) {
            return (addr, l);
        }
    }
    panic!("harness: no free port in this shard's own range");
}

/// Is there a LISTEN socket on `addr` that belongs to this process (the worker is a thread of it)?
/// None: /proc could not be read.
fn listens_in_this_process(addr: &SocketAddr) -> Option<bool> {
    let SocketAddr::V4(v4) = addr else { return None };
    let want = format!("{:08X}:{:04X}", u32::from_le_bytes(v4.ip().octets()), v4.port());
    let table = std::fs::read_to_string("/proc/net/tcp").ok()?;
    let inodes: Vec<String> = table
        .lines()
        .skip(1)
        .filter_map(|l| {
            let f: Vec<&str> = l.split_whitespace().collect();
            if f.len() > 9 && f[1] == want && f[3] == "0A" { Some(format!("socket:[{}]", f[9])) } else { None }
        })
        .collect();
    if inodes.is_empty() {
        return Some(false);
    }
    let fds = std::fs::read_dir("/proc/self/fd").ok()?;
    for fd in fds.flatten() {
        if let Ok(t) = std::fs::read_link(fd.path()) {
            if inodes.iter().any(|i| t.to_string_lossy() == *i) {
                return Some(true);
            }
        }
    }
    Some(false)
}

struct Env {
    listen: Vec<SocketAddr>,
    blockers: Vec<(TcpListener, Option<UdpSocket>)>,
    backends: Vec<SocketAddr>,
    _mocks: Vec<Acceptor>,
}

fn serve_mock(idx: usize, stream: TcpStream) {
    let mut w = match stream.try_clone() {
        Ok(w) => w,
        Err(_) => return,
    };
    let mut c = H1Conn::new(stream);
    loop {
        match c.next_message(Kind::Request, Instant::now() + Duration::from_secs(6)) {
            ReadOutcome::Message(m) if m.end == h1::End::Clean => {
                let head = h1::build_head("HTTP/1.1 200 OK", &[("Content-Length".into(), "2".into()), ("x-lab-backend".into(), idx.to_string())]);
                if w.write_all(&head).and_then(|_| w.write_all(b"ok")).is_err() {
                    return;
                }
            }
            _ => return,
        }
    }
}

impl Env {
    fn new(blocked: u8) -> Env {
        let mut listen = vec![];
        let mut blockers = vec![];
        for i in 0..cmd::LISTENER_ADDRS.len() {
            if blocked & (1 << i) != 0 {
                let (addr, l) = own_bound_listener();
                let u = UdpSocket::bind(addr).ok();
                listen.push(addr);
                blockers.push((l, u));
            } else {
                let (addr, l) = own_bound_listener();
                drop(l);
                listen.push(addr);
            }
        }
        let mut backends = vec![];
        let mut mocks = vec![];
        for i in 0..cmd::BACKEND_ADDRS.len() {
            if i < 2 {
                let (addr, l) = lab::bound_listener();
                mocks.push(Acceptor::spawn(l, move |_conn, stream| serve_mock(i, stream)));
                backends.push(addr);
            } else {
                backends.push(lab::free_addr());
            }
        }
        Env { listen, blockers, backends, _mocks: mocks }
    }

    fn is_blocked_idx(&self, i: usize, blocked: u8) -> bool {
        blocked & (1 << i) != 0
    }

    fn listener(&self, a: &mut SocketAddress) {
        if let Some(i) = cmd::LISTENER_ADDRS.iter().position(|s| cmd::sa(s) == *a) {
            *a = self.listen[i].into();
        }
    }

    fn backend(&self, a: &mut SocketAddress) {
        if let Some(i) = cmd::BACKEND_ADDRS.iter().position(|s| cmd::sa(s) == *a) {
            *a = self.backends[i].into();
        }
    }

    /// the request as sent: placeholder addresses replaced, listeners created inactive (as every
    /// real caller builds them: activation is the separate ActivateListener step)
    ///
    /// `clamp_knobs` (K8): zero H2 flood thresholds of an Add*Listener become 1; returns whether it did so.
    fn remap(&self, r: &Request, clamp_knobs: bool) -> (Request, bool) {
        let mut out = r.clone();
        let mut clamped = false;
        let mut clamp = |k: &mut Option<u32>| {
            if clamp_knobs && *k == Some(0) {
                *k = Some(1);
                clamped = true;
            }
        };
        match out.request_type.as_mut() {
            Some(T::AddHttpListener(l)) => {
                self.listener(&mut l.address);
                l.active = false;
                clamp(&mut l.h2_max_rst_stream_per_window);
                clamp(&mut l.h2_max_ping_per_window);
                clamp(&mut l.h2_max_settings_per_window);
                clamp(&mut l.h2_max_continuation_frames);
                clamp(&mut l.h2_max_glitch_count);
            }
            Some(T::AddHttpsListener(l)) => {
                self.listener(&mut l.address);
                l.active = false;
                clamp(&mut l.h2_max_rst_stream_per_window);
                clamp(&mut l.h2_max_ping_per_window);
                clamp(&mut l.h2_max_settings_per_window);
                clamp(&mut l.h2_max_continuation_frames);
                clamp(&mut l.h2_max_glitch_count);
            }
            Some(T::AddTcpListener(l)) => {
                self.listener(&mut l.address);
                l.active = false;
            }
            Some(T::AddUdpListener(l)) => {
                self.listener(&mut l.address);
                l.active = false;
            }
            Some(T::RemoveListener(l)) => self.listener(&mut l.address),
            Some(T::ActivateListener(l)) => self.listener(&mut l.address),
            Some(T::DeactivateListener(l)) => self.listener(&mut l.address),
            Some(T::AddHttpFrontend(f)) | Some(T::RemoveHttpFrontend(f)) | Some(T::AddHttpsFrontend(f)) | Some(T::RemoveHttpsFrontend(f)) => self.listener(&mut f.address),
            Some(T::AddTcpFrontend(f)) | Some(T::RemoveTcpFrontend(f)) => self.listener(&mut f.address),
            Some(T::AddUdpFrontend(f)) | Some(T::RemoveUdpFrontend(f)) => self.listener(&mut f.address),
            Some(T::AddCertificate(c)) => self.listener(&mut c.address),
            Some(T::RemoveCertificate(c)) => self.listener(&mut c.address),
            Some(T::ReplaceCertificate(c)) => self.listener(&mut c.address),
            Some(T::UpdateHttpListener(p)) => self.listener(&mut p.address),
            Some(T::UpdateHttpsListener(p)) => self.listener(&mut p.address),
            Some(T::UpdateTcpListener(p)) => self.listener(&mut p.address),
            Some(T::UpdateUdpListener(p)) => self.listener(&mut p.address),
            Some(T::AddBackend(b)) => self.backend(&mut b.address),
            Some(T::RemoveBackend(b)) => self.backend(&mut b.address),
            _ => {}
        }
        (out, clamped)
    }
}

// ------------------------------------------------------------------------------------------------
// worker panics: the location is recorded by a process-wide hook (the engine's record is thread-local
// to the panicking thread, which is the worker's)

static WORKER_PANIC: Mutex<Option<(String, String)>> = Mutex::new(None);

fn install_worker_panic_hook() {
    engine::install_panic_hook();
    static ONCE: std::sync::Once = std::sync::Once::new();
    ONCE.call_once(|| {
        let prev = std::panic::take_hook();
        std::panic::set_hook(Box::new(move |info| {
            let on_worker = std::thread::current().name().map(|n| n.starts_with("sozu-")).unwrap_or(false);
            if on_worker {
                let loc = info.location().map(|l| format!("{}:{}", l.file(), l.line())).unwrap_or_else(|| "?".into());
                let msg = if let Some(s) = info.payload().downcast_ref::<&str>() {
                    s.to_string()
                } else if let Some(s) = info.payload().downcast_ref::<String>() {
                    s.clone()
                } else {
                    "<non-string panic>".into()
                };
                *WORKER_PANIC.lock().unwrap_or_else(|e| e.into_inner()) = Some((loc, msg));
            }
            prev(info);
        }));
    });
}

fn take_worker_panic() -> Option<(String, String)> {
    WORKER_PANIC.lock().unwrap_or_else(|e| e.into_inner()).take()
}

fn short_loc(loc: &str) -> String {
    loc.rsplit_once("/repo/").map(|(_, b)| b.to_string()).unwrap_or_else(|| loc.to_string())
}

// ------------------------------------------------------------------------------------------------
// the run: what was sent, what came back

struct Sent {
    id: String,
    verb: &'static str,
    req: Request,
    terminal: Vec<WorkerResponse>,
    processing: u32,
}

impl Sent {
    fn status(&self) -> Option<i32> {
        self.terminal.first().map(|r| r.status)
    }
    fn ok(&self) -> bool {
        self.status() == Some(ResponseStatus::Ok as i32)
    }
    fn failed(&self) -> bool {
        self.status() == Some(ResponseStatus::Failure as i32)
    }
}

enum Pump {
    /// every awaited id has a final answer
    Done,
    /// nothing arrived for the idle limit
    Idle,
    /// the worker thread is gone
    Died,
}

struct Run {
    worker: LabWorker,
    sent: Vec<Sent>,
    index: BTreeMap<String, usize>,
    foreign: Vec<WorkerResponse>,
    events: u64,
}

const IDLE: Duration = Duration::from_secs(4);

impl Run {
    fn send(&mut self, req: &Request) -> Result<usize, Failure> {
        self.send_opt(req, true)
    }

    /// `flush` false: the request only goes to the channel's write buffer; the next flushing send puts
    /// the whole burst on the socket with one write, so that the worker reads it in one batch
    fn send_opt(&mut self, req: &Request, flush: bool) -> Result<usize, Failure> {
        let n = self.sent.len();
        let id = format!("C08-{n}");
        let res = if flush {
            self.worker.send_with_id(&id, req.clone()).map_err(|e| format!("{e:?}"))
        } else {
            self.worker
                .channel
                .write_delimited_message(&sozu_command_lib::proto::command::WorkerRequest { id: id.clone(), content: req.clone() })
                .map_err(|e| e.to_string())
        };
        res.map_err(|e| Failure::new("C08/harness-channel-write", format!("cannot write request {n} ({}): {e}", verb(req))))?;
        self.index.insert(id.clone(), n);
        self.sent.push(Sent { id, verb: verb(req), req: req.clone(), terminal: vec![], processing: 0 });
        Ok(n)
    }

    fn absorb(&mut self, r: WorkerResponse) {
        if matches!(r.content.as_ref().and_then(|c| c.content_type.as_ref()), Some(ContentType::Event(_))) {
            self.events += 1;
            return;
        }
        match self.index.get(&r.id) {
            None => self.foreign.push(r),
            Some(&i) => {
                if r.status == ResponseStatus::Processing as i32 {
                    self.sent[i].processing += 1;
                } else {
                    self.sent[i].terminal.push(r);
                }
            }
        }
    }

    /// read answers until every id of `wanted` has a final answer, nothing came for IDLE, or the worker died
    fn pump(&mut self, wanted: &[usize]) -> Pump {
        let mut last = Instant::now();
        loop {
            if wanted.iter().all(|&i| !self.sent[i].terminal.is_empty()) {
                return Pump::Done;
            }
            let t0 = Instant::now();
            match self.worker.read_response(Duration::from_millis(200)) {
                Ok(r) => {
                    self.absorb(r);
                    last = Instant::now();
                }
                Err(LabError::WorkerDied(_)) => return Pump::Died,
                Err(_) => {
                    if t0.elapsed() < Duration::from_millis(50) {
                        std::thread::sleep(Duration::from_millis(20));
                    }
                    if !self.worker.alive() {
                        return Pump::Died;
                    }
                    if last.elapsed() > IDLE {
                        return Pump::Idle;
                    }
                }
            }
        }
    }

    /// read until nothing arrives for `window`
    fn quiesce(&mut self, window: Duration) {
        loop {
            match self.worker.read_response(window) {
                Ok(r) => self.absorb(r),
                Err(_) => return,
            }
        }
    }

    fn died(&mut self, when: &str) -> Failure {
        // give the thread a moment to finish unwinding
        let end = Instant::now() + Duration::from_secs(2);
        while self.worker.alive() && Instant::now() < end {
            std::thread::sleep(Duration::from_millis(10));
        }
        match self.worker.join() {
            Err(_) => {
                let (loc, msg) = take_worker_panic().unwrap_or(("?".into(), "?".into()));
                Failure::new(format!("C08/worker-panicked:{}", short_loc(&loc)), format!("the worker thread panicked {when} at {loc}: {msg}"))
            }
            Ok(true) => Failure::new("C08/worker-exited-early", format!("the worker thread returned {when} without a stop command")),
            Ok(false) => Failure::new("C08/harness-worker-state", format!("the worker looked dead {when} but is running")),
        }
    }

    /// oracle (1) over the ids `from..to`
    fn judge(&self, from: usize, to: usize, context: &str) -> Result<(), Failure> {
        if let Some(f) = self.foreign.first() {
            fail!("C08/answer-with-unknown-id", "{context}: a response carries id {:?} (status {}, message {:?}) which was never sent", f.id, f.status, engine::truncate(&f.message, 200));
        }
        for s in &self.sent[from..to] {
            if s.terminal.is_empty() {
                fail!(format!("C08/unanswered:{}", s.verb), "{context}: request {} ({}) got no final answer ({} processing notices): {}", s.id, s.verb, s.processing, engine::truncate(&format!("{:?}", s.req), 500));
            }
            if s.terminal.len() > 1 {
                fail!(
                    format!("C08/answered-twice:{}", s.verb),
                    "{context}: request {} ({}) got {} final answers: {:?}; request {}",
                    s.id,
                    s.verb,
                    s.terminal.len(),
                    s.terminal.iter().map(|r| (r.status, engine::truncate(&r.message, 120))).collect::<Vec<_>>(),
                    engine::truncate(&format!("{:?}", s.req), 500)
                );
            }
        }
        Ok(())
    }
}

// ------------------------------------------------------------------------------------------------
// models

#[derive(Default)]
struct Books {
    /// Failure answers whose dispatch changed what the worker's ConfigState shows (K4): (index, verb)
    failed_but_applied: Vec<(usize, &'static str)>,
    /// Ok answers the ConfigState rejects (the main process would never have sent them)
    ok_but_rejected: Vec<(usize, &'static str)>,
    /// listener addresses touched by such a command: the proxies' state there is not what the model says
    polluted: BTreeSet<SocketAddr>,
    /// listener slab bookkeeping of the worker (K1, K2)
    adds_ok: i64,
    removes_seen: i64,
    slab_removed: i64,
    in_slab: BTreeMap<(i32, SocketAddr), bool>,
    /// (proxy, address) -> index of the command that created the listener now in the model
    created_at: BTreeMap<(i32, SocketAddr), usize>,
    /// http frontend key -> index of the AddHttpFrontend that was answered Ok
    front_added_at: BTreeMap<String, usize>,
    /// listeners activated again after a DeactivateListener took their entry out of the slab (K7)
    reactivated: BTreeSet<(i32, SocketAddr)>,
    /// addresses handed back with ReturnListenSockets
    returned: BTreeSet<SocketAddr>,
    /// clusters that ever saw a RemoveBackend, or an AddBackend to an address nobody serves
    unserved: BTreeSet<String>,
    max_conn_per_ip: u64,
}

fn request_cluster(r: &Request) -> Option<String> {
    match r.request_type.as_ref()? {
        T::AddCluster(c) => Some(c.cluster_id.clone()),
        T::RemoveCluster(c) | T::RemoveHealthCheck(c) => Some(c.clone()),
        T::AddHttpFrontend(f) | T::RemoveHttpFrontend(f) | T::AddHttpsFrontend(f) | T::RemoveHttpsFrontend(f) => f.cluster_id.clone(),
        T::AddTcpFrontend(f) | T::RemoveTcpFrontend(f) => Some(f.cluster_id.clone()),
        T::AddUdpFrontend(f) | T::RemoveUdpFrontend(f) => Some(f.cluster_id.clone()),
        T::AddBackend(b) => Some(b.cluster_id.clone()),
        T::RemoveBackend(b) => Some(b.cluster_id.clone()),
        T::SetHealthCheck(h) => Some(h.cluster_id.clone()),
        _ => None,
    }
}

fn request_listener_address(r: &Request) -> Option<SocketAddr> {
    match r.request_type.as_ref()? {
        T::AddHttpListener(l) => Some(l.address.into()),
        T::AddHttpsListener(l) => Some(l.address.into()),
        T::AddTcpListener(l) => Some(l.address.into()),
        T::AddUdpListener(l) => Some(l.address.into()),
        T::RemoveListener(l) => Some(l.address.into()),
        T::ActivateListener(l) => Some(l.address.into()),
        T::DeactivateListener(l) => Some(l.address.into()),
        T::AddHttpFrontend(f) | T::RemoveHttpFrontend(f) | T::AddHttpsFrontend(f) | T::RemoveHttpsFrontend(f) => Some(f.address.into()),
        T::AddTcpFrontend(f) | T::RemoveTcpFrontend(f) => Some(f.address.into()),
        T::AddUdpFrontend(f) | T::RemoveUdpFrontend(f) => Some(f.address.into()),
        T::AddCertificate(c) => Some(c.address.into()),
        T::RemoveCertificate(c) => Some(c.address.into()),
        T::ReplaceCertificate(c) => Some(c.address.into()),
        T::UpdateHttpListener(p) => Some(p.address.into()),
        T::UpdateHttpsListener(p) => Some(p.address.into()),
        T::UpdateTcpListener(p) => Some(p.address.into()),
        T::UpdateUdpListener(p) => Some(p.address.into()),
        _ => None,
    }
}

struct Models {
    /// applied iff the worker answered Ok: the main process's configuration under the rule of this property
    ok: ConfigState,
    /// every command dispatched, errors ignored: what the worker's own ConfigState does (server.rs notify_proxys)
    mirror: ConfigState,
    books: Books,
}

impl Models {
    fn apply(&mut self, idx: usize, s: &Sent, served: &[SocketAddr]) {
        // what the worker's own ConfigState does with the command (request_counts always move)
        let mut before = self.mirror.clone();
        let accepted = self.mirror.dispatch(&s.req).is_ok();
        before.request_counts = self.mirror.request_counts.clone();
        let mirror_changed = accepted && before != self.mirror;
        let addr = request_listener_address(&s.req);
        if s.ok() {
            if self.ok.dispatch(&s.req).is_err() {
                self.books.ok_but_rejected.push((idx, s.verb));
                // an accepted Add the model lacks: the proxies hold more there than the model says
                if let (Some(a), true) = (addr, s.verb.starts_with("Add")) {
                    self.books.polluted.insert(a);
                }
            }
        } else if s.failed() && mirror_changed {
            self.books.failed_but_applied.push((idx, s.verb));
        }
        let b = &mut self.books;
        match s.req.request_type.as_ref() {
            Some(t @ (T::AddHttpListener(_) | T::AddHttpsListener(_) | T::AddTcpListener(_) | T::AddUdpListener(_))) => {
                if s.ok() {
                    let (a, k) = listener_type_of(t).expect("listener");
                    b.adds_ok += 1;
                    b.reactivated.remove(&(k as i32, SocketAddr::from(a)));
                    b.in_slab.insert((k as i32, SocketAddr::from(a)), true);
                    b.created_at.insert((k as i32, SocketAddr::from(a)), idx);
                }
            }
            Some(T::RemoveListener(r)) => {
                // (K1 repaired) only a listener the worker's own state knew of lowers base_sessions_count
                let a = SocketAddr::from(r.address);
                let known = match ListenerType::try_from(r.proxy) {
                    Ok(ListenerType::Http) => before.http_listeners.contains_key(&a),
                    Ok(ListenerType::Https) => before.https_listeners.contains_key(&a),
                    Ok(ListenerType::Tcp) => before.tcp_listeners.contains_key(&a),
                    Ok(ListenerType::Udp) => before.udp_listeners.contains_key(&a),
                    Err(_) => false,
                };
                if known {
                    b.removes_seen += 1;
                }
                if s.ok() {
                    b.in_slab.remove(&(r.proxy, SocketAddr::from(r.address)));
                    b.reactivated.remove(&(r.proxy, SocketAddr::from(r.address)));
                }
            }
            Some(T::ActivateListener(a)) => {
                if s.ok() && b.in_slab.get(&(a.proxy, SocketAddr::from(a.address))) == Some(&false) {
                    b.reactivated.insert((a.proxy, SocketAddr::from(a.address)));
                }
            }
            Some(T::DeactivateListener(d)) => {
                if s.ok() {
                    if let Some(present) = b.in_slab.get_mut(&(d.proxy, SocketAddr::from(d.address))) {
                        if *present {
                            *present = false;
                            b.slab_removed += 1;
                        }
                    }
                }
            }
            Some(T::AddHttpFrontend(f)) => {
                if s.ok() {
                    b.front_added_at.insert(f.to_string(), idx);
                }
            }
            Some(T::RemoveHttpFrontend(f)) => {
                b.front_added_at.remove(&f.to_string());
            }
            Some(T::AddBackend(a)) => {
                if !served.contains(&a.address.into()) {
                    b.unserved.insert(a.cluster_id.clone());
                }
            }
            Some(T::RemoveBackend(r)) => {
                b.unserved.insert(r.cluster_id.clone());
            }
            Some(T::SetMaxConnectionsPerIp(n)) => {
                if s.ok() {
                    b.max_conn_per_ip = *n;
                }
            }
            _ => {}
        }
    }

    /// base_sessions_count - 3 and the number of listener entries in the slab, as server.rs keeps them
    fn softstop_would_hang(&self) -> bool {
        self.books.removes_seen > self.books.slab_removed
    }
}

fn tcp_listeners_at(m: &ConfigState, a: &SocketAddr) -> Vec<(&'static str, bool)> {
    let mut v = vec![];
    if let Some(l) = m.http_listeners.get(a) {
        v.push(("http", l.active));
    }
    if let Some(l) = m.https_listeners.get(a) {
        v.push(("https", l.active));
    }
    if let Some(l) = m.tcp_listeners.get(a) {
        v.push(("tcp", l.active));
    }
    v
}

// ------------------------------------------------------------------------------------------------
// traffic

enum Got {
    Status(u16, Option<String>),
    Other(String),
}

fn http_get(addr: SocketAddr, host: &str, path: &str, budget: Duration) -> (Option<TcpStream>, Got) {
    let stream = match h1::connect(addr, Duration::from_millis(500)) {
        Ok(s) => s,
        Err(e) => return (None, Got::Other(format!("connect failed: {e}"))),
    };
    let mut w = match stream.try_clone() {
        Ok(w) => w,
        Err(e) => return (None, Got::Other(format!("clone failed: {e}"))),
    };
    let req = h1::build_head(&format!("GET {path} HTTP/1.1"), &[("Host".into(), host.into()), ("x-lab-req".into(), "0".into())]);
    if let Err(e) = w.write_all(&req) {
        return (None, Got::Other(format!("write failed: {e}")));
    }
    let mut c = H1Conn::new(stream);
    match c.next_message(Kind::Response { head_request: false }, Instant::now() + budget) {
        ReadOutcome::Message(m) => {
            let st = m.status().unwrap_or(0);
            (Some(w), Got::Status(st, m.header("x-lab-backend").map(|s| s.to_string())))
        }
        other => (None, Got::Other(h1::describe(&other))),
    }
}

fn could_match(front_host: &str, probe_host: &str) -> bool {
    if front_host.contains('/') {
        return true;
    }
    if let Some(suffix) = front_host.strip_prefix('*') {
        return probe_host.to_ascii_lowercase().ends_with(&suffix.to_ascii_lowercase());
    }
    front_host.eq_ignore_ascii_case(probe_host)
}

fn simple_front(f: &sozu_command_lib::response::HttpFrontend) -> bool {
    f.method.is_none()
        && f.redirect.is_none()
        && f.redirect_scheme.is_none()
        && f.redirect_template.is_none()
        && f.rewrite_host.is_none()
        && f.rewrite_path.is_none()
        && f.rewrite_port.is_none()
        && f.required_auth != Some(true)
        && f.headers.is_empty()
        && f.hsts.is_none()
        && !f.hostname.contains('/')
        && !f.hostname.contains('*')
        && f.hostname.bytes().all(|b| b.is_ascii_lowercase() || b.is_ascii_digit() || b == b'.' || b == b'-')
        // a request path starts with '/': an EQUALS rule with any other value (the empty string among them)
        // matches no request, there is nothing to probe
        && !(f.path.kind == PathRuleKind::Equals as i32 && !f.path.value.starts_with('/'))
}

fn simple_cluster(c: &Cluster) -> bool {
    !c.https_redirect && c.proxy_protocol.is_none() && c.http2 != Some(true) && c.health_check.is_none() && c.max_connections_per_ip.is_none() && c.www_authenticate.is_none() && c.authorized_hashes.is_empty()
}

/// K6 bookkeeping: the highest lease level ever requested per client id
#[derive(Default)]
struct Leases {
    highest: BTreeMap<String, i32>,
}

impl Leases {
    /// would this apply renew a lease of the same client at a lower level (metrics/mod.rs:638 asserts it cannot)?
    fn lowers(&mut self, r: &Request) -> bool {
        let Some(T::SetMetricDetail(m)) = r.request_type.as_ref() else { return false };
        if m.clear.unwrap_or(false) {
            return false;
        }
        let Some(level) = m.detail.filter(|d| (0..4).contains(d)) else { return false };
        let top = self.highest.get(&m.client_id).copied();
        if top.map(|t| level < t).unwrap_or(false) {
            return true;
        }
        self.highest.insert(m.client_id.clone(), level);
        false
    }
}

// ------------------------------------------------------------------------------------------------
// scenario

const STOP_DEADLINE: Duration = Duration::from_secs(4);

pub fn scenario(case: &Case) -> CheckResult {
    let mut rep = CaseReport::default();
    let _ = take_worker_panic();
    let mut env = Env::new(case.blocked);
    let served: Vec<SocketAddr> = env.backends[..2].to_vec();
    let worker = LabWorker::start("c08", LabConfig::default(), Listeners::default(), &ConfigState::new());
    let mut run = Run { worker, sent: vec![], index: BTreeMap::new(), foreign: vec![], events: 0 };
    let mut models = Models { ok: ConfigState::new(), mirror: ConfigState::new(), books: Books::default() };
    let mut excluded = 0u64;

    let mut k8_clamped = 0u64;
    let all: Vec<Request> = case
        .reqs
        .iter()
        .map(|r| {
            let (out, clamped) = env.remap(r, !case.strict && STEER_REPAIRED);
            k8_clamped += clamped as u64;
            out
        })
        .collect();
    excluded += k8_clamped;
    let is_rls = |r: &Request| matches!(r.request_type, Some(T::ReturnListenSockets(_)));
    // ReturnListenSockets hands sockets over on the SCM stream socket, which has no message framing of
    // its own: like a main process, the harness takes the sockets before it writes anything else
    let mut tail_n = (case.tail as usize).min(all.len().saturating_sub(1));
    while tail_n > 0 && all[all.len() - tail_n..].iter().any(is_rls) {
        tail_n -= 1;
    }
    let _ = run.worker.scm_main.set_blocking(false);
    let (body, tail) = all.split_at(all.len() - tail_n);

    // ---------------------------------------------------------------- body, in bursts
    let mut clients: Vec<TcpStream> = vec![];
    let mut traffic_rounds = 0u64;
    let mut traffic_200 = 0u64;
    let mut traffic_other = 0u64;
    let mut max_burst = 0usize;
    let mut i = 0usize;
    let mut burst_no = 0usize;
    let mut k1_skipped = 0u64;
    let mut k6_skipped = 0u64;
    let mut leases = Leases::default();
    while i < body.len() {
        let size = (*case.bursts.get(burst_no % case.bursts.len().max(1)).unwrap_or(&1) as usize).max(1);
        let mut end = (i + size).min(body.len());
        if let Some(p) = body[i..end].iter().position(is_rls) {
            end = i + p + 1;
        }
        let mut wanted = vec![];
        let mut admitted: Vec<&Request> = vec![];
        let mut removes_in_burst = 0i64;
        for r in &body[i..end] {
            if matches!(r.request_type, Some(T::RemoveListener(_))) {
                // K1: base_sessions_count (3 + listeners added) is decremented by every RemoveListener
                let base = 3 + models.books.adds_ok - models.books.removes_seen - removes_in_burst;
                if base <= 0 && !case.strict && STEER_REPAIRED {
                    k1_skipped += 1;
                    continue;
                }
                removes_in_burst += 1;
            }
            // K6: renewing a metric-detail lease at a lower level trips a debug assertion
            if !case.strict && STEER_REPAIRED && leases.lowers(r) {
                k6_skipped += 1;
                continue;
            }
            admitted.push(r);
        }
        for (k, r) in admitted.iter().enumerate() {
            wanted.push(run.send_opt(r, k + 1 == admitted.len())?);
        }
        max_burst = max_burst.max(wanted.len());
        // traffic between the write and the read of this burst
        if let Some(k) = case.traffic {
            if burst_no % (k.max(1) as usize) == 0 {
                let host = PROBE_HOSTS[pick_idx(case.traffic_host.wrapping_add((burst_no as u32).wrapping_mul(0x2545_F491)), PROBE_HOSTS.len())];
                for a in env.listen.clone() {
                    let open = models.ok.http_listeners.get(&a).map(|l| l.active).unwrap_or(false);
                    if !open || models.books.returned.contains(&a) || (!case.strict && !K7_REPAIRED && models.books.reactivated.contains(&(ListenerType::Http as i32, a))) {
                        continue;
                    }
                    traffic_rounds += 1;
                    let (keep, got) = http_get(a, host, "/api", Duration::from_millis(1500));
                    match got {
                        Got::Status(200, _) => traffic_200 += 1,
                        _ => traffic_other += 1,
                    }
                    if let Some(s) = keep {
                        if clients.len() < 4 {
                            clients.push(s);
                        }
                    }
                }
            }
        }
        match run.pump(&wanted) {
            Pump::Done => {}
            Pump::Died => return Err(run.died(&format!("while commands {:?} were in flight", wanted.iter().map(|&w| run.sent[w].verb).collect::<Vec<_>>()))),
            Pump::Idle => {
                // no progress: settle with a sentinel, then judge
                let s = run.send(&rq(T::Status(Status {})))?;
                if let Pump::Died = run.pump(&[s]) {
                    return Err(run.died("after a burst went unanswered"));
                }
                run.quiesce(Duration::from_millis(150));
                run.judge(0, run.sent.len(), "a burst made no progress for 4 s")?;
                fail!("C08/harness-idle", "burst made no progress but every id is answered");
            }
        }
        for &w in &wanted {
            models.apply(w, &run.sent[w], &served);
            // ReturnListenSockets: take the sockets as the main process would, and close them
            if matches!(run.sent[w].req.request_type, Some(T::ReturnListenSockets(_))) && run.sent[w].ok() {
                let t0 = Instant::now();
                loop {
                    match run.worker.scm_main.receive_listeners() {
                        Ok(l) => {
                            for (a, _) in l.http.iter().chain(l.tls.iter()).chain(l.tcp.iter()).chain(l.udp.iter()) {
                                models.books.returned.insert(*a);
                            }
                            l.close();
                            break;
                        }
                        Err(e) if t0.elapsed() > Duration::from_secs(2) => {
                            fail!("C08/returned-sockets-not-received", "ReturnListenSockets was answered Ok but nothing readable arrived on the SCM socket within 2 s: {e:?}")
                        }
                        Err(_) => std::thread::sleep(Duration::from_millis(10)),
                    }
                }
            }
        }
        i = end;
        burst_no += 1;
    }
    excluded += k1_skipped + k6_skipped;
    drop(clients);
    if traffic_rounds > 0 {
        std::thread::sleep(Duration::from_millis(120));
    }

    // ---------------------------------------------------------------- (2) the worker's view
    let mut q = vec![];
    let pool: Vec<&str> = cmd::CLUSTERS.iter().copied().chain(["zz"]).collect();
    for c in &pool {
        q.push(run.send(&rq(T::QueryClusterById(c.to_string())))?);
    }
    let qh = run.send(&rq(T::QueryClustersHashes(QueryClustersHashes {})))?;
    q.push(qh);
    let sentinel = run.send(&rq(T::Status(Status {})))?;
    q.push(sentinel);
    match run.pump(&q) {
        Pump::Died => return Err(run.died("while answering the closing queries")),
        Pump::Idle | Pump::Done => {}
    }
    run.quiesce(Duration::from_millis(150));
    // ---------------------------------------------------------------- (1) exactly one final answer each
    run.judge(0, run.sent.len(), "after the closing Status and 150 ms of silence")?;

    let content = |s: &Sent| -> Option<ContentType> { s.terminal.first().and_then(|r| r.content.clone()).and_then(|c| c.content_type) };
    let mut differing: Vec<String> = vec![];
    let mut mirror_differs: Option<String> = None;
    for (n, c) in pool.iter().enumerate() {
        let s = &run.sent[q[n]];
        let Some(ContentType::Clusters(got)) = content(s) else {
            fail!("C08/query-answer-shape:QueryClusterById", "QueryClusterById({c}) answered status {:?} with content {:?}", s.status(), engine::truncate(&format!("{:?}", content(s)), 300));
        };
        let want: Vec<_> = models.ok.cluster_state(c).into_iter().collect();
        if got.vec != want {
            differing.push(c.to_string());
        }
        let want_m: Vec<_> = models.mirror.cluster_state(c).into_iter().collect();
        if got.vec != want_m && mirror_differs.is_none() {
            mirror_differs = Some(format!("QueryClusterById({c}): worker {:?}, every-command model {:?}", engine::truncate(&format!("{:?}", got.vec), 600), engine::truncate(&format!("{want_m:?}"), 600)));
        }
    }
    {
        let s = &run.sent[qh];
        let Some(ContentType::ClusterHashes(got)) = content(s) else {
            fail!("C08/query-answer-shape:QueryClustersHashes", "QueryClustersHashes answered status {:?} with content {:?}", s.status(), engine::truncate(&format!("{:?}", content(s)), 300));
        };
        if got.map != models.ok.hash_state() {
            differing.push("<hashes>".into());
        }
        if got.map != models.mirror.hash_state() && mirror_differs.is_none() {
            mirror_differs = Some(format!("QueryClustersHashes: worker {:?}, every-command model {:?}", got.map, models.mirror.hash_state()));
        }
    }
    if !differing.is_empty() {
        let detail = {
            let c = differing[0].clone();
            let s = pool.iter().position(|p| *p == c).map(|n| &run.sent[q[n]]);
            format!(
                "differs for {differing:?}; e.g. {c}: worker says {:?}, model (applied iff Ok) says {:?}",
                engine::truncate(&format!("{:?}", s.and_then(|s| content(s))), 700),
                engine::truncate(&format!("{:?}", models.ok.cluster_state(&c)), 700)
            )
        };
        let culprit = models
            .books
            .failed_but_applied
            .iter()
            .find(|(i, _)| request_cluster(&run.sent[*i].req).map(|c| differing.contains(&c)).unwrap_or(false))
            .or(models.books.failed_but_applied.first())
            .copied();
        if let Some((idx, v)) = culprit {
            if mirror_differs.is_none() {
                // K4
                if case.strict {
                    let s = &run.sent[idx];
                    fail!(
                        format!("C08/view-differs-after-failure:{v}"),
                        "request {} ({v}) was answered Failure ({:?}) yet the worker's view shows it applied; {detail}; {} such commands in this sequence: {:?}",
                        s.id,
                        engine::truncate(&s.terminal[0].message, 200),
                        models.books.failed_but_applied.len(),
                        models.books.failed_but_applied.iter().map(|x| x.1).collect::<Vec<_>>()
                    );
                }
                excluded += models.books.failed_but_applied.len() as u64;
                rep.class("k4_failure_left_view_changed");
            } else {
                fail!("C08/view-differs:unexplained", "{detail}; and the worker's view is not the every-command model either: {}", mirror_differs.unwrap_or_default());
            }
        } else {
            fail!("C08/view-differs:unexplained", "{detail}; no command of the sequence was answered Failure and accepted by ConfigState; mirror: {mirror_differs:?}");
        }
    }

    // ---------------------------------------------------------------- (3) behaviour matches the model
    env.blockers.clear();
    let mut open_listeners = 0u64;
    let mut probed = 0u64;
    for (n, a) in env.listen.iter().enumerate() {
        if models.books.returned.contains(a) {
            rep.class("address_skipped_returned_sockets");
            continue;
        }
        let at = tcp_listeners_at(&models.ok, a);
        let expected = at.iter().any(|(_, active)| *active);
        let got = match TcpStream::connect_timeout(a, Duration::from_millis(400)) {
            Ok(s) => {
                drop(s);
                true
            }
            Err(e) if e.kind() == std::io::ErrorKind::ConnectionRefused => false,
            Err(_) => {
                rep.class("connect_probe_inconclusive");
                continue;
            }
        };
        probed += 1;
        if models.books.polluted.contains(a) {
            // the worker accepted a command there that ConfigState rejects: the proxies hold more than the model
            rep.class("address_skipped_ok_but_state_rejected");
            continue;
        }
        if got && !expected && listens_in_this_process(a) != Some(true) {
            // somebody else's socket (another lab process on this machine): says nothing about this worker
            rep.class("foreign_listener_on_port");
            continue;
        }
        if got && !expected {
            fail!(
                format!("C08/listening-but-model-inactive:{}", at.first().map(|x| x.0).unwrap_or("none")),
                "connect to listener address #{n} ({a}) succeeded, the model (commands answered Ok) has there: {at:?} (blocked by the harness during the run: {})",
                env.is_blocked_idx(n, case.blocked)
            );
        }
        if !got && expected {
            fail!(
                format!("C08/refused-but-model-active:{}", at.iter().find(|x| x.1).map(|x| x.0).unwrap_or("none")),
                "connect to listener address #{n} ({a}) was refused, the model (commands answered Ok) has there: {at:?}"
            );
        }
        if got {
            open_listeners += 1;
        }
    }

    // one routed probe: a plain frontend of the model whose cluster has only backends the harness serves
    let mut routed = 0u64;
    let mut probe_excluded = 0u64;
    'probe: for (key, f) in models.ok.http_fronts.iter() {
        let a = f.address;
        let Some(l) = models.ok.http_listeners.get(&a) else { continue };
        if !l.active || l.expect_proxy || models.books.returned.contains(&a) || models.books.polluted.contains(&a) || models.books.max_conn_per_ip != 0 {
            continue;
        }
        // another listener type on the same port would share the accept queue (SO_REUSEPORT)
        if tcp_listeners_at(&models.ok, &a).len() != 1 {
            continue;
        }
        let Some(cid) = f.cluster_id.clone() else { continue };
        if !simple_front(f) {
            continue;
        }
        let rivals: Vec<_> = models.ok.http_fronts.values().filter(|g| g.address == a && could_match(&g.hostname, &f.hostname)).collect();
        if rivals.iter().any(|g| g.cluster_id.as_deref() != Some(cid.as_str()) || !simple_front(g)) {
            continue;
        }
        // the mirror (the worker's own ConfigState) must not know rival fronts the model lacks
        if models.mirror.http_fronts.values().any(|g| g.address == a && could_match(&g.hostname, &f.hostname) && !models.ok.http_fronts.values().any(|h| h == g)) {
            continue;
        }
        let Some(c) = models.ok.clusters.get(&cid) else { continue };
        if !simple_cluster(c) || models.books.unserved.contains(&cid) {
            continue;
        }
        let backends = models.ok.backends.get(&cid).cloned().unwrap_or_default();
        if backends.is_empty() || backends.iter().any(|b| !served.contains(&b.address) || b.load_balancing_parameters.as_ref().map(|p| p.weight == 0).unwrap_or(false)) {
            continue;
        }
        let want: BTreeSet<String> = backends.iter().filter_map(|b| served.iter().position(|s| *s == b.address)).map(|i| i.to_string()).collect();
        // K5: was the listener re-created after this frontend was added?
        let created = models.books.created_at.get(&(ListenerType::Http as i32, a)).copied().unwrap_or(0);
        let added = models.books.front_added_at.get(key).copied();
        let readded = match added {
            Some(x) => created > x,
            None => true,
        };
        // K7: was the listener deactivated and activated again?
        let reactivated = !K7_REPAIRED && models.books.reactivated.contains(&(ListenerType::Http as i32, a));
        if (readded || reactivated) && !case.strict {
            probe_excluded += 1;
            continue;
        }
        let known = if reactivated { Some("listener-reactivated") } else if readded { Some("listener-readded") } else { None };
        let path = match f.path.value.as_str() {
            "" => "/".to_string(),
            "/a.*" => "/a".to_string(),
            v => v.to_string(),
        };
        let (_, got) = http_get(a, &f.hostname, &path, Duration::from_millis(2500));
        if !matches!(got, Got::Status(200, _)) {
            std::thread::sleep(Duration::from_millis(60));
            if !run.worker.alive() {
                return Err(run.died(&format!("while serving GET {path} for Host {} on its HTTP listener {a}", f.hostname)));
            }
        }
        match got {
            Got::Status(200, Some(b)) if want.contains(&b) => {
                routed += 1;
                break 'probe;
            }
            Got::Status(st, b) => {
                fail!(
                    format!("C08/route-differs-from-view:{}", known.unwrap_or("unexplained")),
                    "GET {path} with Host {} on {a}: status {st}, backend {b:?}; the model routes frontend {key} to cluster {cid} whose backends are the mock(s) {want:?}; listener created by command #{created}, frontend added by command {added:?}",
                    f.hostname
                );
            }
            Got::Other(o) => {
                fail!(
                    format!("C08/route-differs-from-view:{}", known.unwrap_or("no-response")),
                    "GET {path} with Host {} on {a}: {o}; the model routes frontend {key} to cluster {cid} whose backends are the mock(s) {want:?}",
                    f.hostname
                );
            }
        }
    }
    excluded += probe_excluded;

    // ---------------------------------------------------------------- (4) stop
    let body_end = run.sent.len();
    let would_hang = models.softstop_would_hang();
    let mut soft = case.soft;
    if soft && would_hang && !case.strict && !K2_REPAIRED {
        // K2
        soft = false;
        excluded += 1;
        rep.class("k2_softstop_replaced");
    }
    // K1 also applies to the tail; K2: a RemoveListener in the tail makes a SoftStop hang as well
    let mut tail_reqs: Vec<&Request> = vec![];
    let mut tail_removes = 0i64;
    for r in tail {
        if matches!(r.request_type, Some(T::RemoveListener(_))) {
            if !case.strict && STEER_REPAIRED && 3 + models.books.adds_ok - models.books.removes_seen - tail_removes <= 0 {
                excluded += 1;
                rep.class("k1_remove_listener_dropped");
                continue;
            }
            tail_removes += 1;
        }
        if !case.strict && STEER_REPAIRED && leases.lowers(r) {
            excluded += 1;
            k6_skipped += 1;
            continue;
        }
        tail_reqs.push(r);
    }
    if soft && tail_removes > 0 && !case.strict && !K2_REPAIRED {
        soft = false;
        excluded += 1;
        rep.class("k2_softstop_replaced");
    }
    let apart = !tail_reqs.is_empty() && !soft && !case.strict && STEER_REPAIRED;
    let mut tail_ids = vec![];
    for (k, r) in tail_reqs.iter().enumerate() {
        // written together with the stop verb, unless K3 is being steered around
        tail_ids.push(run.send_opt(r, apart && k + 1 == tail_reqs.len())?);
    }
    if apart {
        // K3: answers still queued when a HardStop is read in the same batch are lost; let the tail finish first
        if let Pump::Died = run.pump(&tail_ids) {
            return Err(run.died("while the tail commands were in flight"));
        }
        excluded += 1;
        rep.class("k3_tail_sent_apart");
    }
    let stop = run.send(&if soft { rq(T::SoftStop(SoftStop {})) } else { rq(T::HardStop(HardStop {})) })?;
    let t0 = Instant::now();
    let mut exited = false;
    while t0.elapsed() < STOP_DEADLINE {
        match run.worker.read_response(Duration::from_millis(100)) {
            Ok(r) => run.absorb(r),
            Err(_) => {
                if !run.worker.alive() {
                    exited = true;
                    break;
                }
                std::thread::sleep(Duration::from_millis(10));
            }
        }
        if !run.worker.alive() {
            exited = true;
            break;
        }
    }
    if exited {
        // drain what is left in the channel
        for _ in 0..200 {
            match run.worker.channel.read_message_blocking_timeout(Some(Duration::from_millis(50))) {
                Ok(r) => run.absorb(r),
                Err(_) => break,
            }
        }
        if run.worker.join().is_err() {
            let (loc, msg) = take_worker_panic().unwrap_or(("?".into(), "?".into()));
            fail!(format!("C08/worker-panicked:{}", short_loc(&loc)), "the worker thread panicked during {} at {loc}: {msg}", if soft { "SoftStop" } else { "HardStop" });
        }
    } else if soft {
        let hang_known = !K2_REPAIRED && (would_hang || tail_removes > 0);
        fail!(
            format!("C08/softstop-never-finishes:{}", if hang_known { "listener-removed" } else if traffic_rounds > 0 { "after-traffic" } else { "unexplained" }),
            "SoftStop {} was answered with {} processing and {} final answers, the worker thread still runs {} s later with no client connected; RemoveListener commands received: {}, listener slab entries freed by DeactivateListener: {}, listeners added: {}",
            run.sent[stop].id,
            run.sent[stop].processing,
            run.sent[stop].terminal.len(),
            STOP_DEADLINE.as_secs(),
            models.books.removes_seen + tail_removes,
            models.books.slab_removed,
            models.books.adds_ok
        );
    } else {
        fail!("C08/hardstop-never-finishes", "HardStop {} sent, the worker thread still runs {} s later", run.sent[stop].id, STOP_DEADLINE.as_secs());
    }
    // the tail and the stop verb: exactly one final answer each
    if !soft {
        if let Some(&t) = tail_ids.iter().find(|&&t| run.sent[t].terminal.is_empty()) {
            fail!(
                format!("C08/unanswered-before-hardstop:{}", run.sent[t].verb),
                "request {} ({}) was written right before HardStop {}: the worker exited without ever answering it (tail of {} commands, {} answered)",
                run.sent[t].id,
                run.sent[t].verb,
                run.sent[stop].id,
                tail_ids.len(),
                tail_ids.iter().filter(|&&t| !run.sent[t].terminal.is_empty()).count()
            );
        }
    }
    run.judge(body_end, run.sent.len(), if soft { "after SoftStop and the worker's exit" } else { "after HardStop and the worker's exit" })?;
    if !run.sent[stop].ok() {
        fail!(format!("C08/stop-not-ok:{}", run.sent[stop].verb), "{} answered {:?}: {:?}", run.sent[stop].verb, run.sent[stop].status(), run.sent[stop].terminal.first().map(|r| r.message.clone()));
    }

    // ---------------------------------------------------------------- report
    let kinds: BTreeSet<&str> = run.sent[..body_end].iter().take(body_end.saturating_sub(pool.len() + 2)).map(|s| s.verb).chain(tail_ids.iter().map(|&t| run.sent[t].verb)).collect();
    let generated = body_end.saturating_sub(pool.len() + 2);
    let failures = run.sent[..generated].iter().filter(|s| s.failed()).count() + tail_ids.iter().filter(|&&t| run.sent[t].failed()).count();
    rep.nontrivial = failures >= 1 && kinds.len() >= 3;
    rep.excluded_known = excluded;
    rep.inner_evaluations = run.sent.len() as u64 + probed + routed;
    rep.class_if(failures >= 1, "has_failure");
    rep.class_if(kinds.len() >= 3, "kinds>=3");
    rep.class_if(kinds.len() >= 10, "kinds>=10");
    rep.class_if(max_burst >= 8, "burst>=8");
    rep.class_if(max_burst >= 30, "burst>=30");
    rep.class_if(traffic_rounds > 0, "traffic");
    rep.class_if(traffic_200 > 0, "traffic_reached_backend");
    rep.class_if(traffic_other > 0, "traffic_answered_by_sozu_or_cut");
    rep.class_if(open_listeners > 0, "listener_open_at_end");
    rep.class_if(routed > 0, "routed_probe_reached_backend");
    rep.class_if(probe_excluded > 0, "k5_k7_probe_skipped");
    rep.class_if(k1_skipped > 0, "k1_remove_listener_dropped");
    rep.class_if(k6_skipped > 0, "k6_lease_lowering_dropped");
    rep.class_if(k8_clamped > 0, "k8_zero_flood_knob_clamped");
    rep.class_if(!models.books.ok_but_rejected.is_empty(), "ok_but_configstate_rejects");
    rep.class_if(!models.books.returned.is_empty(), "sockets_returned");
    rep.class_if(run.events > 0, "events_seen");
    rep.class_if(soft, "softstop");
    rep.class_if(!soft, "hardstop");
    rep.class_if(!tail_ids.is_empty(), "tail_with_stop");
    rep.class_if(run.sent.iter().any(|s| s.processing > 0), "processing_notice_seen");
    let blocked_failed = run.sent.iter().any(|s| {
        s.failed()
            && matches!(&s.req.request_type, Some(T::ActivateListener(a)) if env.listen.iter().position(|l| SocketAddr::from(a.address) == *l).map(|n| case.blocked & (1 << n) != 0).unwrap_or(false))
    });
    rep.class_if(blocked_failed, "activation_failed_on_occupied_port");
    for k in &kinds {
        rep.class(format!("verb:{k}"));
    }
    for (_, v) in &models.books.ok_but_rejected {
        rep.class(format!("ok_but_rejected:{v}"));
    }
    Ok(rep)
}

// ------------------------------------------------------------------------------------------------

const SUB: &str = "seq";

/// strict reproducers of the known deviations: (file stem, expected signature, case)
fn known_cases() -> Vec<(&'static str, &'static str, Case)> {
    let l0 = cmd::sa(cmd::LISTENER_ADDRS[0]);
    let http_listener = || rq(T::AddHttpListener(sozu_command_lib::config::ListenerBuilder::new_http(l0).to_http(None).expect("http listener")));
    let zero_knob_listener = || {
        let mut l = sozu_command_lib::config::ListenerBuilder::new_http(l0).to_http(None).expect("http listener");
        l.h2_max_rst_stream_per_window = Some(0);
        rq(T::AddHttpListener(l))
    };
    let activate = || rq(T::ActivateListener(ActivateListener { address: l0, proxy: ListenerType::Http as i32, from_scm: false }));
    let deactivate = || rq(T::DeactivateListener(sozu_command_lib::proto::command::DeactivateListener { address: l0, proxy: ListenerType::Http as i32, to_scm: false }));
    let remove = || rq(T::RemoveListener(sozu_command_lib::proto::command::RemoveListener { address: l0, proxy: ListenerType::Http as i32 }));
    let cluster = || rq(T::AddCluster(Cluster { cluster_id: "c0".into(), ..Default::default() }));
    let backend = || {
        rq(T::AddBackend(AddBackend {
            cluster_id: "c0".into(),
            backend_id: "b0".into(),
            address: cmd::sa(cmd::BACKEND_ADDRS[0]),
            sticky_id: None,
            load_balancing_parameters: Some(LoadBalancingParams { weight: 100 }),
            backup: None,
        }))
    };
    let front = || rq(T::AddHttpFrontend(RequestHttpFrontend { cluster_id: Some("c0".into()), address: l0, hostname: "a.x.com".into(), path: PathRule::prefix("/".to_string()), position: 2, ..Default::default() }));
    let lease = |detail: i32| rq(T::SetMetricDetail(SetMetricDetail { client_id: "top:1".into(), detail: Some(detail), ttl_seconds: Some(60), clear: None, reason: None, peer_pid: None, peer_session_ulid: None }));
    let status = || rq(T::Status(Status {}));
    let case = |reqs: Vec<Request>, soft: bool, tail: u8| Case { reqs, bursts: vec![1], blocked: 0, traffic: None, traffic_host: 0, soft, tail, strict: true };
    vec![
        ("seq-fixed-K1-remove-listener-underflow", "C08/worker-panicked:lib/src/server.rs:2121", case(vec![remove(), remove(), remove(), remove(), status()], false, 0)),
        ("seq-fixed-K2-softstop-after-remove-listener", "C08/softstop-never-finishes:listener-removed", case(vec![http_listener(), remove()], true, 0)),
        ("seq-fixed-K3-answer-lost-before-hardstop", "C08/unanswered-before-hardstop:Status", case(vec![cluster(), status()], false, 1)),
        ("seq-known-K4-failed-frontend-stays-in-view", "C08/view-differs-after-failure:AddHttpFrontend", case(vec![front(), cluster()], false, 0)),
        (
            "seq-known-K5-frontends-lost-when-listener-readded",
            "C08/route-differs-from-view:listener-readded",
            case(vec![http_listener(), activate(), cluster(), backend(), front(), deactivate(), remove(), http_listener(), activate()], false, 0),
        ),
        (
            "seq-fixed-K7-reactivated-listener-never-accepts",
            "C08/route-differs-from-view:listener-reactivated",
            case(vec![http_listener(), activate(), cluster(), backend(), front(), deactivate(), activate()], false, 0),
        ),
        ("seq-fixed-K8-zero-flood-knob-accepted-on-add", "C08/worker-panicked:lib/src/protocol/mux/h2.rs:1026", {
            // the assertion sits in the H2 connection constructor: an h2c cluster, reached by the traffic phase
            let h2_cluster = rq(T::AddCluster(Cluster { cluster_id: "c0".into(), http2: Some(true), ..Default::default() }));
            let front_for = |host: &str| rq(T::AddHttpFrontend(RequestHttpFrontend { cluster_id: Some("c0".into()), address: l0, hostname: host.into(), path: PathRule::prefix("/".to_string()), position: 2, ..Default::default() }));
            let mut reqs = vec![zero_knob_listener(), activate(), h2_cluster, backend(), front_for("a.x.com"), front_for("b.x.com"), front_for("x.com")];
            reqs.extend((0..6).map(|_| status()));
            let mut c = case(reqs, false, 0);
            c.traffic = Some(1);
            c
        }),
        ("seq-fixed-K6-lease-renewed-lower-asserts", "C08/worker-panicked:lib/src/metrics/mod.rs:638", case(vec![lease(3), lease(1)], false, 0)),
    ]
}

/// `vp C08 --shard 0/1 --emit-known`: run the strict reproducers and (re)write the regression files
fn emit_known() -> i32 {
    lab::init_ports(0);
    init_own_ports(0);
    install_worker_panic_hook();
    let dir = std::path::Path::new(engine::VERIF_ROOT).join("regressions").join("C08");
    let _ = std::fs::create_dir_all(&dir);
    let mut bad = 0;
    for (stem, want, case) in known_cases() {
        let (sig, msg) = match scenario(&case) {
            Err(f) => (f.signature, f.message),
            Ok(_) => ("<held>".to_string(), String::new()),
        };
        println!("{stem}: {sig}{}", if sig == want { String::new() } else { format!("   (EXPECTED {want})") });
        println!("    {}", engine::truncate(&msg, 600));
        if sig != want {
            bad += 1;
            continue;
        }
        let body = serde_json::json!({"property": "C08", "sub": SUB, "signature": sig, "message": msg, "seed": 0, "case": case});
        let _ = std::fs::write(dir.join(format!("{stem}.json")), serde_json::to_string_pretty(&body).unwrap());
    }
    bad
}

fn child(args: &Args, total: u64) -> Stats {
    lab::init_ports(args.shard.map(|s| s.0).unwrap_or(0));
    init_own_ports(args.shard.map(|s| s.0).unwrap_or(0));
    install_worker_panic_hook();
    let flaky = std::cell::Cell::new(0u64);
    // every scenario runs on a worker of its own; a failure is confirmed twice more before it is reported
    let check = |case: &Case| -> CheckResult {
        let first = scenario(case);
        let Err(f) = first else { return first };
        for _ in 0..2 {
            if let Err(f2) = scenario(case) {
                return Err(if f2.signature == f.signature { f2 } else { f });
            }
        }
        flaky.set(flaky.get() + 1);
        let mut rep = CaseReport::default();
        rep.class("flaky_unconfirmed");
        Ok(rep)
    };
    let mut st = engine::run_lab_shard(args, "C08", SUB, total, strategy(), check, 48);
    st.flaky_unconfirmed += flaky.get();
    st
}

pub fn run(args: &Args) -> i32 {
    if args.extra.iter().any(|e| e == "--emit-known") {
        return emit_known();
    }
    if args.shard.is_some() {
        let st = child(args, args.cases(1200, 32000));
        return engine::shard::child_finish(args, &st);
    }
    let mut ev = Evidence::new(args, "exploration");
    ev.rule(
        SUB,
        "one fresh worker thread per sequence. Sequence: 5..60 worker requests = the configuration verbs of the main process's fan-out set (gens::cmd: Add/Remove/Update/Activate/Deactivate/Replace/Set over small colliding pools, valid and invalid values) mixed 7:2 with SetMaxConnectionsPerIp, QueryMaxConnectionsPerIp, SetMetricDetail, ConfigureMetrics, Logging, Status, QueryClusterById, QueryClustersByDomain, QueryClustersHashes, QueryCertificatesFromWorkers, QueryMetrics, ReturnListenSockets; listener-directed commands are pointed at an earlier-added listener 2 times in 3; half of the sequences contain a working listener/cluster/backend/frontend scaffold spread over the sequence. The six listener addresses are real loopback ports, each occupied by the harness with probability 0.22 (activation must fail); backend addresses 0,1 are mock HTTP servers, 2,3 are closed ports. Commands are written in bursts of generated sizes (1..60) before any answer is read, in 1 of 2 sequences with HTTP/1.1 requests to every active HTTP listener between the write and the read; the last 0..3 commands are written together with the final SoftStop/HardStop. Oracle: (1) after a closing Status and 150 ms of silence every id has exactly one Ok/Failure answer (Processing and Event messages are free), no foreign id; (2) QueryClusterById for every pool id and QueryClustersHashes equal a ConfigState fed the commands answered Ok; (3) connect() to each listener address succeeds iff that model has an active HTTP/HTTPS/TCP listener there, and a GET for a plain frontend of the model reaches a mock backend of its cluster; (4) SoftStop/HardStop get exactly one Ok and the worker thread ends within 6 s. A failing sequence is run twice more on new workers before it is reported. Non-trivial: >= 1 command answered Failure and >= 3 verb kinds; distinct by case hash.",
    );
    ev.assume("Add*Listener commands are sent with active=false, as ListenerBuilder and the CLI build them (activation is the separate ActivateListener step); an Add*Listener that claims active=true is not exercised");
    ev.assume("DeactivateListener.to_scm and ActivateListener.from_scm stay false; after ReturnListenSockets the harness takes and closes the sockets like a main process would and stops probing those addresses");
    ev.assume("master-only verbs (SaveState, LoadState, ListWorkers, ListFrontends, ListListeners, UpgradeMain, UpgradeWorker, SubscribeEvents, ReloadConfiguration, CountRequests, QueryCertificatesFromTheState, QueryHealthChecks) and a request without request_type are outside the domain");
    ev.assume("known deviations K4, K5 (see the module comment) are steered around when `strict` is false and counted in excluded_known, their strict reproducers are the regression files; K1, K2, K3, K6, K7 and K8 are repaired in sozu and are generated freely");
    ev.floor(SUB, "has_failure", 0.6);
    ev.floor(SUB, "kinds>=3", 0.9);
    ev.floor(SUB, "burst>=8", 0.2);
    ev.floor(SUB, "traffic", 0.06);
    ev.floor(SUB, "listener_open_at_end", 0.12);
    ev.floor(SUB, "softstop", 0.1);
    ev.floor(SUB, "routed_probe_reached_backend", 0.03);
    engine::shard::run_sharded(&mut ev, args, SUB, 16, Duration::from_secs(args.tier.pick(600, 5400)));
    ev.finish()
}
