//! C16 — resources return to baseline and admission limits are never exceeded (DESIGN §4 C16).
//!
//! Part (a), in-process: the worker's `SessionManager` (connection admission with hysteresis and
//! per-(cluster, client IP) slots) driven by generated session histories against a multiset model.
//! Part (b) (connection storms against a live worker) is the wire-lab sub-check `baseline` in `c16_lab.rs`.

use std::{
    collections::{BTreeMap, BTreeSet},
    net::IpAddr,
};

use mio::Token;
use proptest::prelude::*;
use serde::{Deserialize, Serialize};
use slab_shim::new_manager;
use sozu_lib::server::SessionManager;

use crate::engine::{self, Args, CaseReport, CheckResult, Evidence, pick_idx};

mod slab_shim {
    use std::{cell::RefCell, rc::Rc};

    use sozu_lib::server::SessionManager;

    pub fn new_manager(max_connections: usize, per_ip: u64) -> Rc<RefCell<SessionManager>> {
        // the slab of sessions is only consulted for its length (at_capacity)
        SessionManager::new(slab::Slab::new(), max_connections, per_ip, 60)
    }
}

const CLUSTERS: &[&str] = &["ca", "cb", "cc"];
const IPS: &[&str] = &["10.0.0.1", "10.0.0.2", "2001:db8::1"];

#[derive(Clone, Debug, Serialize, Deserialize)]
pub enum Op {
    /// a client connects: admitted iff check_limits()
    Accept,
    /// session `i` (index among live sessions) asks for a backend of cluster c on behalf of ip
    Request { session: u32, cluster: u8, ip: u8 },
    /// session `i` closes
    Close { session: u32 },
    /// operator changes the global per-IP limit at runtime (0 disables)
    SetGlobalLimit(u64),
    /// cluster `c` gets / loses a per-cluster override (None = inherit)
    SetOverride { cluster: u8, limit: Option<u64> },
}

#[derive(Clone, Debug, Serialize, Deserialize)]
pub struct Case {
    pub max_connections: usize,
    pub per_ip: u64,
    pub ops: Vec<Op>,
    /// reproducer mode: do not exclude the known-finding shape (slots forgotten when the global
    /// limit is set to 0 at runtime), fail with its signature
    #[serde(default)]
    pub strict: bool,
}

fn op() -> impl Strategy<Value = Op> {
    prop_oneof![
        5 => Just(Op::Accept),
        8 => (any::<u32>(), 0u8..3, 0u8..3).prop_map(|(session, cluster, ip)| Op::Request { session, cluster, ip }),
        4 => any::<u32>().prop_map(|session| Op::Close { session }),
        1 => prop_oneof![Just(0u64), Just(1u64), Just(2u64), Just(3u64)].prop_map(Op::SetGlobalLimit),
        1 => (0u8..3, proptest::option::of(prop_oneof![Just(0u64), Just(1u64), Just(2u64)])).prop_map(|(cluster, limit)| Op::SetOverride { cluster, limit }),
    ]
}

pub fn strategy() -> impl Strategy<Value = Case> {
    (prop_oneof![Just(1usize), Just(2usize), 3usize..12, Just(20usize)], 0u64..4, prop::collection::vec(op(), 1..80))
        .prop_map(|(max_connections, per_ip, ops)| Case { max_connections, per_ip, ops, strict: false })
}

pub fn check(case: &Case) -> CheckResult {
    let mut rep = CaseReport::default();
    let mgr = new_manager(case.max_connections, case.per_ip);
    let mut m = mgr.borrow_mut();
    // model
    let mut live: Vec<usize> = vec![]; // tokens of live sessions
    let mut next_token = 1usize;
    let mut attached: BTreeMap<usize, BTreeSet<(u8, u8)>> = BTreeMap::new(); // token -> (cluster, ip) slots held
    let mut forgotten: BTreeMap<usize, BTreeSet<(u8, u8)>> = BTreeMap::new();
    let mut overrides: BTreeMap<u8, u64> = BTreeMap::new();
    let mut can_accept_model = true;
    let mut refused_at_cap = false;
    let mut per_ip_refusals = 0;
    let mut limit_changes = 0;
    let mut resumed = false;

    for (step, op) in case.ops.iter().enumerate() {
        match op {
            Op::Accept => {
                let admitted = m.check_limits();
                let want = live.len() < case.max_connections;
                if admitted != want {
                    fail!(
                        "C16/admission-verdict",
                        "step {step}: {} live connections, max_connections {}: check_limits() = {admitted}",
                        live.len(),
                        case.max_connections
                    );
                }
                if admitted {
                    m.incr();
                    live.push(next_token);
                    next_token += 1;
                } else {
                    refused_at_cap = true;
                    can_accept_model = false;
                }
                if m.can_accept != can_accept_model {
                    fail!("C16/can-accept-flag", "step {step}: can_accept = {}, model says {can_accept_model}", m.can_accept);
                }
            }
            Op::Close { session } => {
                if live.is_empty() {
                    continue;
                }
                let i = pick_idx(*session, live.len());
                let tok = live.remove(i);
                // a session's close path: release its per-IP slots, then its connection slot
                m.untrack_all_cluster_ip(Token(tok));
                m.decr();
                attached.remove(&tok);
                forgotten.remove(&tok);
                // at least one free slot counts as "load dropped": the integer threshold is 0 for max_connections = 1,
                // where the literal formula would never resume (that was a defect of sozu, repaired in ad2f9a4; the
                // model had copied the formula and with it the defect)
                if !can_accept_model && live.len() < (case.max_connections * 90 / 100).max(1) {
                    can_accept_model = true;
                    resumed = true;
                }
                if m.can_accept != can_accept_model {
                    fail!(
                        "C16/accept-not-resumed",
                        "step {step}: {} live of {} max: can_accept = {}, documented hysteresis (resume below 90%) says {can_accept_model}",
                        live.len(),
                        case.max_connections,
                        m.can_accept
                    );
                }
            }
            Op::Request { session, cluster, ip } => {
                if live.is_empty() {
                    continue;
                }
                let tok = live[pick_idx(*session, live.len())];
                let cid = CLUSTERS[*cluster as usize];
                let ipaddr: IpAddr = IPS[*ip as usize].parse().unwrap();
                let ov = overrides.get(cluster).copied();
                let limit = ov.unwrap_or(m.max_connections_per_ip);
                let holders = attached.values().filter(|s| s.contains(&(*cluster, *ip))).count() as u64;
                let already = attached.get(&tok).map(|s| s.contains(&(*cluster, *ip))).unwrap_or(false);
                let refused = m.cluster_ip_at_limit(Token(tok), cid, &ipaddr, ov);
                // known finding: SetMaxConnectionsPerIp(0) wipes the slot table, so connections opened
                // before it are not counted any more once a limit is in force again
                let forgotten_holders = forgotten.values().filter(|s| s.contains(&(*cluster, *ip))).count() as u64;
                let forgotten_self = forgotten.get(&tok).map(|s| s.contains(&(*cluster, *ip))).unwrap_or(false);
                if case.strict && limit != 0 && !already && !forgotten_self && holders < limit && holders + forgotten_holders >= limit && !refused {
                    fail!(
                        "C16/per-ip-undercount-after-disable",
                        "step {step}: session {tok} is admitted to cluster {cid} from {ipaddr}: limit in force {limit}, {holders} counted holders plus {forgotten_holders} live connections whose slots were wiped by an earlier SetMaxConnectionsPerIp(0)"
                    );
                }
                if forgotten_holders > 0 && limit != 0 {
                    rep.excluded_known += 1;
                }
                // the limit holds: a connection that does not hold a slot yet is refused when the
                // slots of this (cluster, ip) are all taken; and only then
                let want_refused = limit != 0 && !already && holders >= limit;
                if refused != want_refused {
                    let sig = if refused { "C16/per-ip-false-refusal" } else { "C16/per-ip-limit-exceeded" };
                    fail!(
                        sig,
                        "step {step}: session {tok} asks for cluster {cid} from {ipaddr}: {holders} live sessions hold a slot there, limit in force {limit} (override {ov:?}), already holding: {already}; verdict refused = {refused}"
                    );
                }
                if refused {
                    per_ip_refusals += 1;
                } else {
                    m.track_cluster_ip(Token(tok), cid.to_string(), ipaddr);
                    attached.entry(tok).or_default().insert((*cluster, *ip));
                    if let Some(f) = forgotten.get_mut(&tok) {
                        f.remove(&(*cluster, *ip));
                    }
                }
            }
            Op::SetGlobalLimit(n) => {
                // what the worker does for SetMaxConnectionsPerIp (lib/src/server.rs)
                m.max_connections_per_ip = *n;
                if *n == 0 {
                    m.clear_cluster_ip_tracking();
                    // documented "clean slate": the model forgets the slots too (they are kept aside
                    // to recognise the known finding); a session re-takes its slot on its next request
                    for (tok, slots) in std::mem::take(&mut attached) {
                        forgotten.entry(tok).or_default().extend(slots);
                    }
                }
                limit_changes += 1;
            }
            Op::SetOverride { cluster, limit } => {
                match limit {
                    Some(l) => overrides.insert(*cluster, *l),
                    None => overrides.remove(cluster),
                };
                limit_changes += 1;
            }
        }
        if m.nb_connections != live.len() {
            fail!("C16/connection-count-drift", "step {step}: nb_connections = {}, {} sessions are live", m.nb_connections, live.len());
        }
        if m.nb_connections > case.max_connections {
            fail!("C16/max-connections-exceeded", "step {step}: {} connections, max {}", m.nb_connections, case.max_connections);
        }
    }
    // everything ends: back to baseline
    for tok in live.drain(..) {
        m.untrack_all_cluster_ip(Token(tok));
        m.decr();
    }
    if m.nb_connections != 0 {
        fail!("C16/baseline-connections", "all sessions closed, nb_connections = {}", m.nb_connections);
    }
    // per-(cluster, ip) slots all released: a fresh session is admitted everywhere a limit >= 1 is in force
    m.incr();
    for (ci, c) in CLUSTERS.iter().enumerate() {
        for ip in IPS {
            let ov = overrides.get(&(ci as u8)).copied();
            let limit = ov.unwrap_or(m.max_connections_per_ip);
            if limit >= 1 && m.cluster_ip_at_limit(Token(999_999), c, &ip.parse().unwrap(), ov) {
                fail!("C16/baseline-per-ip-slot", "all sessions closed but ({c}, {ip}) still counts as full (limit {limit})");
            }
        }
    }
    m.decr();

    rep.nontrivial = refused_at_cap && (per_ip_refusals > 0 || limit_changes > 0);
    rep.class_if(refused_at_cap, "refused_at_max_connections");
    rep.class_if(resumed, "accept_resumed_below_90pct");
    rep.class_if(per_ip_refusals > 0, "per_ip_refusal");
    rep.class_if(limit_changes > 0, "limit_changed_at_runtime");
    Ok(rep)
}

pub fn run(args: &Args) -> i32 {
    // child shard of the wire-lab sub-check
    if args.shard.is_some() {
        let st = match args.only.as_deref() {
            Some(super::c16_adm::SUB) => super::c16_adm::child(args, args.cases(300, 3_000)),
            _ => super::c16_lab::child(args, args.cases(120, 1_200)),
        };
        return engine::shard::child_finish(args, &st);
    }
    let mut ev = Evidence::new(args, "exploration");
    ev.rule(super::c16_lab::SUB, super::c16_lab::rule());
    ev.assume("baseline: the zombie sweep is configured out of the way (600 s): sessions have to be reclaimed by their own timeouts; 'back to baseline' is observed for front timeout + 4 s after the last harness socket was closed, and for 2 x front timeout + 3 s while idle clients still hold their sockets (observed: an idle HTTP/2 connection over TLS whose peer stays silent is torn down in three stages one front timeout apart)");
    ev.assume("baseline: Backend.active_connections / active_requests (load-balancing counters) are not exposed by QueryMetrics and are not observed; accept-queue saturation (storms above max_connections) is not generated here");
    for class in ["backend_timeout", "backend_refuses", "h2_idle_timeout", "client_abort_mid_response", "tcp_session"] {
        ev.floor(super::c16_lab::SUB, class, 0.15);
    }
    ev.rule(
        "sessions",
        "history of 1..80 ops on the worker's SessionManager (max_connections 1..20, global per-IP limit 0..3): Accept (admitted iff check_limits), Request(session, cluster, ip) through the per-(cluster, ip) gate exactly as the mux router and tcp sessions call it (cluster_ip_at_limit then track_cluster_ip), Close (untrack_all + decr), runtime SetMaxConnectionsPerIp (with the worker's clear-on-zero) and per-cluster overrides; model = live sessions and the slots each holds. Oracle: admission verdicts, connection count, can_accept hysteresis (refuse at max, resume below 90%), per-IP verdict == (slots taken >= limit in force) with no false refusals, everything back to zero after all sessions closed. Non-trivial: a refusal at max_connections and a per-IP refusal or a runtime limit change; distinct by case hash.",
    );
    ev.assume("only the SessionManager accounting is exercised here; gauges, buffers, slab entries and timers need a live worker (wire-lab part)");
    ev.floor("sessions", "refused_at_max_connections", 0.2);
    ev.floor("sessions", "per_ip_refusal", 0.1);
    engine::run_pbt(&mut ev, args, "sessions", args.cases(60_000, 1_500_000), strategy, check);
    engine::shard::run_sharded(&mut ev, args, super::c16_lab::SUB, 16, std::time::Duration::from_secs(args.tier.pick(600, 5400)));
    ev.rule(super::c16_adm::SUB, super::c16_adm::rule());
    ev.assume("admission: all clients connect over loopback (127.0.0.1, the limited cluster's clients from 127.0.0.2..4); an excess connection may be closed at once, queued by the proxy or left in the kernel's listen backlog (bin/config.toml and doc/lifetime_of_a_session.md describe both), and nothing bounds how long it waits while the worker stays full: only 'no service beyond the limit', 'served again once the load has dropped' (bounded by accept_queue_timeout + 6 s of no progress at all) and 'never stuck once served' are judged");
    ev.assume("admission: 'still open' is what a client sees (a read that finds neither bytes nor the end of the stream); the end of a served interval is moved back by 40 ms so that a close by the proxy that the client has not noticed yet cannot count against the limit");
    // measured over seeds 1, 2, 3, 7 (quick): storm_above_max 0.75, gauge_at_max_connections 0.8, refused_at_limit 0.6..0.66,
    // queued_client_served_later 0.54..0.58, per_ip_changed_mid_storm 0.6..0.72, second_wave 0.33..0.38, storm_2x+ 0.17..0.23, per_ip_limit_hit 0.29..0.33
    for (class, floor) in [("storm_above_max", 0.5), ("gauge_at_max_connections", 0.5), ("refused_at_limit", 0.3), ("queued_client_served_later", 0.3), ("per_ip_changed_mid_storm", 0.4), ("second_wave", 0.2), ("storm_2x+", 0.1), ("per_ip_limit_hit", 0.15)] {
        ev.floor(super::c16_adm::SUB, class, floor);
    }
    engine::shard::run_sharded(&mut ev, args, super::c16_adm::SUB, 16, std::time::Duration::from_secs(args.tier.pick(900, 7200)));
    ev.finish()
}
