//! C01 — proxied HTTP bodies arrive complete, unmodified and in order (DESIGN §4 C01).
//!
//! Wire lab. Built so far: HTTP/1.1 client -> HTTP/1.1 backend (keep-alive sequences, Content-Length /
//! chunked / close-delimited bodies, generated I/O scripts on all four socket ends).

use std::{
    cell::RefCell,
    collections::BTreeMap,
    io::Write,
    time::{Duration, Instant},
};

use proptest::prelude::*;
use serde::{Deserialize, Serialize};

use crate::{
    engine::{self, Args, CaseReport, CheckResult, Evidence, Failure, Stats},
    lab::{
        self, LabConfig,
        h1::{self, BodyFraming, End, Framing, H1Conn, Kind, ReadOutcome, content, first_mismatch},
        httplab::{BackendAction, HttpLab},
        script::{self, ReadScript, ScriptedReader, WriteScript},
    },
};

#[derive(Clone, Debug, Serialize, Deserialize)]
pub struct Req {
    pub req_len: usize,
    pub req_framing: BodyFraming,
    pub resp_len: usize,
    pub resp_framing: BodyFraming,
}

#[derive(Clone, Debug, Serialize, Deserialize)]
pub struct Case {
    pub seed: u64,
    pub reqs: Vec<Req>,
    pub client_write: WriteScript,
    pub client_read: ReadScript,
    pub backend_write: WriteScript,
    pub backend_read: ReadScript,
    /// reproducer of a known finding: nothing is excluded
    #[serde(default)]
    pub strict: bool,
}

const BOUNDARIES: &[usize] = &[16393, 16384, 32768, 65535, 65536, 9, 4096];

pub fn size(max: usize) -> impl Strategy<Value = usize> {
    prop_oneof![
        2 => prop_oneof![Just(0usize), Just(1), Just(2)],
        4 => (0usize..BOUNDARIES.len(), prop_oneof![Just(-9i64), Just(-2), Just(-1), Just(0), Just(1), Just(2), Just(9)]).prop_map(|(b, d)| (BOUNDARIES[b] as i64 + d).max(0) as usize),
        3 => 3usize..4096,
        2 => 4096usize..70_000,
        1 => 70_000usize..max.max(70_001),
    ]
}

fn chunk_sizes() -> impl Strategy<Value = Vec<usize>> {
    prop::collection::vec(prop_oneof![Just(1usize), Just(2), 1usize..64, 64usize..5000, Just(16384), Just(16393), 5000usize..40000], 1..6)
}

fn framing(allow_close: bool) -> BoxedStrategy<BodyFraming> {
    if allow_close {
        prop_oneof![3 => Just(BodyFraming::ContentLength), 3 => chunk_sizes().prop_map(BodyFraming::Chunked), 1 => Just(BodyFraming::CloseDelimited)].boxed()
    } else {
        prop_oneof![1 => Just(BodyFraming::ContentLength), 1 => chunk_sizes().prop_map(BodyFraming::Chunked)].boxed()
    }
}

pub fn strategy(max: usize) -> impl Strategy<Value = Case> {
    (
        any::<u64>(),
        prop::collection::vec((size(max), framing(false), size(max), framing(true)), 1..5),
        (script::write_script(250), script::read_script(350), script::write_script(250), script::read_script(350)),
        // slow drip: one body delivered in pieces 350..500 ms apart over more than the lab's front timeout (4 s)
        // while no single gap comes near any timeout: a transfer that keeps moving must not be cut
        proptest::option::weighted(0.04, (any::<bool>(), 11u16..14, 350u16..500, 200usize..3000)),
    )
        .prop_map(|(seed, mut raw, (mut cw, cr, mut bw, br), drip)| {
            if let Some((response, pieces, gap, piece)) = drip {
                raw.truncate(1);
                let total = piece * pieces as usize;
                let steps: Vec<script::WStep> = (0..pieces).flat_map(|_| [script::WStep::Write(piece), script::WStep::PauseMs(gap)]).collect();
                if response {
                    raw[0].2 = total;
                    raw[0].3 = BodyFraming::ContentLength;
                    // the head goes first, in one piece
                    let mut st = vec![script::WStep::Write(60), script::WStep::PauseMs(gap)];
                    st.extend(steps);
                    bw = WriteScript { steps: st, sndbuf: None };
                } else {
                    raw[0].0 = total;
                    raw[0].1 = BodyFraming::ContentLength;
                    let mut st = vec![script::WStep::Write(100), script::WStep::PauseMs(gap)];
                    st.extend(steps);
                    cw = WriteScript { steps: st, sndbuf: None };
                }
            }
            let n = raw.len();
            let small_c = cr.rcvbuf.map(|v| v <= 2048).unwrap_or(false);
            let small_b = br.rcvbuf.map(|v| v <= 2048).unwrap_or(false);
            let reqs = raw
                .into_iter()
                .enumerate()
                .map(|(i, (mut req_len, req_framing, mut resp_len, mut resp_framing))| {
                    // a close-delimited response ends the connection: last request only
                    if resp_framing == BodyFraming::CloseDelimited && i + 1 != n {
                        resp_framing = BodyFraming::ContentLength;
                    }
                    if small_b {
                        req_len = req_len.min(20_000);
                    }
                    if small_c {
                        resp_len = resp_len.min(20_000);
                    }
                    Req { req_len, req_framing, resp_len, resp_framing }
                })
                .collect();
            Case { seed, reqs, client_write: cw, client_read: cr, backend_write: bw, backend_read: br, strict: false }
        })
}

fn near_boundary(n: usize) -> bool {
    BOUNDARIES.iter().any(|b| (n as i64 - *b as i64).abs() <= 9)
}

/// a body of a million chunks or more (thorough tier only: megabytes in chunks of one or two bytes)
fn million_chunks(case: &Case) -> bool {
    let chunks = |len: usize, f: &BodyFraming| match f {
        BodyFraming::Chunked(sizes) if !sizes.is_empty() => len * sizes.len() / sizes.iter().sum::<usize>().max(1),
        _ => 0,
    };
    case.reqs.iter().any(|r| chunks(r.req_len, &r.req_framing) >= 1_000_000 || chunks(r.resp_len, &r.resp_framing) >= 1_000_000)
}

pub fn scenario(lab: &mut HttpLab, case: &Case) -> CheckResult {
    // Known finding (same root as C14/frame-storm-session-closed): a body of millions of tiny chunks keeps
    // both sockets ready while sozu is busy, one readiness pass reaches MAX_LOOP_ITERATIONS and sozu closes
    // the session in the middle of the transfer; it counts every such kill in `http.infinite_loop.error`.
    // Only that shape is excluded, and only when sozu's own counter says the budget ended the session.
    if !million_chunks(case) {
        return scenario_inner(lab, case);
    }
    let before = lab.worker.counter("http.infinite_loop.error").unwrap_or(0);
    match scenario_inner(lab, case) {
        Err(f) if lab.worker.alive() && lab.worker.counter("http.infinite_loop.error").unwrap_or(0) > before => {
            if case.strict {
                Err(Failure::new("C01/session-ended-by-loop-iteration-budget:body-of-a-million-chunks", format!("the session loop's iteration budget ended the session in the middle of the transfer ({}: {})", f.signature, f.message)))
            } else {
                let mut rep = CaseReport::default();
                rep.excluded_known += 1;
                rep.class("session_ended_by_loop_iteration_budget(known)");
                rep.class("lab_dirty");
                Ok(rep)
            }
        }
        other => other,
    }
}

fn scenario_inner(lab: &mut HttpLab, case: &Case) -> CheckResult {
    let mut rep = CaseReport::default();
    rep.class_if(case.client_write.total_pause_ms() > 4000 || case.backend_write.total_pause_ms() > 4000, "slow_drip_longer_than_front_timeout");
    if !lab.worker.alive() {
        return Err(Failure::new("C01/worker-died", format!("the worker thread is gone: {:?}", lab.worker.join())));
    }
    let mut actions = BTreeMap::new();
    for (i, r) in case.reqs.iter().enumerate() {
        actions.insert(
            i,
            BackendAction::Respond {
                status: 200,
                headers: vec![("x-lab-resp".into(), i.to_string())],
                body_seed: case.seed ^ (0xA000 + i as u64),
                body_len: r.resp_len,
                framing: r.resp_framing.clone(),
                write: case.backend_write.clone(),
                close_after: false,
                cut_at: None,
                reset: false,
            },
        );
    }
    lab.reset_plan(actions, case.backend_read.clone());
    let stream = match lab.client() {
        Ok(s) => s,
        Err(e) => return Err(Failure::new("C01/connect-refused", format!("connect to the HTTP listener failed: {e}"))),
    };
    script::set_bufs(&stream, case.client_write.sndbuf, case.client_read.rcvbuf);
    let mut w = stream.try_clone().expect("clone");
    let mut conn = H1Conn::new(ScriptedReader::new(stream, &case.client_read));

    for (i, r) in case.reqs.iter().enumerate() {
        let req_body = content(case.seed ^ (0xB000 + i as u64), r.req_len);
        let (extra, wire) = h1::encode_body(&req_body, &r.req_framing, &[]);
        let mut headers = vec![("Host".to_string(), "c0.lab".to_string()), ("x-lab-req".to_string(), i.to_string())];
        headers.extend(extra);
        let mut bytes = h1::build_head(&format!("POST /r{i} HTTP/1.1"), &headers);
        bytes.extend_from_slice(&wire);
        // write in a thread so that a response can be read while a large request is still going out
        let mut w2 = w.try_clone().expect("clone");
        let cw = case.client_write.clone();
        let writer = std::thread::spawn(move || script::write_scripted(&mut w2, &bytes, &cw).is_ok());
        let budget = Duration::from_secs(12 + ((r.req_len + r.resp_len) / 100_000) as u64);
        let out = conn.next_message(Kind::Response { head_request: false }, Instant::now() + budget);
        let wrote = writer.join().unwrap_or(false);
        let resp = match out {
            ReadOutcome::Message(m) => m,
            other => {
                fail!(
                    "C01/no-response",
                    "request {i} ({} body bytes, {:?}; wrote all: {wrote}): no response: {}",
                    r.req_len,
                    r.req_framing,
                    h1::describe(&other)
                );
            }
        };
        if resp.status() != Some(200) {
            fail!("C01/unexpected-status", "request {i}: status {:?} ({}), expected the backend's 200; request {} bytes {:?}", resp.status(), resp.start_line, r.req_len, r.req_framing);
        }
        let want = content(case.seed ^ (0xA000 + i as u64), r.resp_len);
        if let Some(off) = first_mismatch(&resp.body, &want) {
            fail!(
                format!("C01/response-body:{}", match r.resp_framing { BodyFraming::ContentLength => "cl", BodyFraming::Chunked(_) => "chunked", BodyFraming::CloseDelimited => "close" }),
                "request {i}: backend sent a {}-byte body ({:?}), client received {} bytes (framing {:?}, end {:?}); first difference at offset {off}; response head {:?}; client bytes from there: {:?}",
                want.len(),
                r.resp_framing,
                resp.body.len(),
                resp.framing,
                resp.end,
                resp.headers,
                engine::truncate(&String::from_utf8_lossy(&resp.body[off.min(resp.body.len())..]), 400)
            );
        }
        if resp.end != End::Clean {
            fail!("C01/response-not-ended-cleanly", "request {i}: the backend ended its {:?} response cleanly but the client saw {:?}", r.resp_framing, resp.end);
        }
        if resp.header("x-lab-resp") != Some(i.to_string().as_str()) {
            fail!("C01/response-of-another-request", "request {i} was answered with the response of request {:?}", resp.header("x-lab-resp"));
        }
        let _ = &resp.framing == &Framing::None;
    }
    drop(conn);
    let _ = w.flush();
    drop(w);
    // what the backend saw
    std::thread::sleep(Duration::from_millis(20));
    let recorded = lab.recorded();
    for (i, r) in case.reqs.iter().enumerate() {
        let mine: Vec<_> = recorded.iter().filter(|x| x.lab_req == Some(i)).collect();
        if mine.len() != 1 {
            fail!("C01/request-count-at-backend", "request {i} reached the backend {} times", mine.len());
        }
        let Some(m) = &mine[0].msg else {
            fail!("C01/request-unreadable-at-backend", "request {i} as forwarded is not a well-formed HTTP/1.1 request: {:?}", mine[0].invalid);
        };
        let want = content(case.seed ^ (0xB000 + i as u64), r.req_len);
        if let Some(off) = first_mismatch(&m.body, &want) {
            fail!(
                format!("C01/request-body:{}", match r.req_framing { BodyFraming::Chunked(_) => "chunked", _ => "cl" }),
                "request {i}: client sent a {}-byte body ({:?}), backend received {} bytes (framing {:?}, end {:?}); first difference at offset {off}",
                want.len(),
                r.req_framing,
                m.body.len(),
                m.framing,
                m.end
            );
        }
        if m.end != End::Clean {
            fail!("C01/request-not-ended-cleanly", "request {i}: forwarded request ended {:?}", m.end);
        }
        if m.method() != Some("POST") || m.target() != Some(format!("/r{i}").as_str()) {
            fail!("C01/request-line-changed", "request {i}: forwarded as {:?}", m.start_line);
        }
    }
    if recorded.iter().any(|x| x.invalid.is_some()) {
        fail!("C01/garbage-at-backend", "the backend received bytes that are not a request: {:?}", recorded.iter().filter_map(|x| x.invalid.clone()).collect::<Vec<_>>());
    }

    let stall = case.client_read.has_stall() || case.backend_read.has_stall();
    let any_body = case.reqs.iter().any(|r| r.req_len > 0 || r.resp_len > 0);
    let boundary = case.reqs.iter().any(|r| near_boundary(r.req_len) || near_boundary(r.resp_len));
    let split = !case.client_write.steps.is_empty() || !case.backend_write.steps.is_empty();
    rep.nontrivial = any_body && (boundary || stall || split);
    rep.class("h1->h1");
    rep.class_if(boundary, "size_within_9_of_a_boundary");
    rep.class_if(stall, "read_stall");
    rep.class_if(split, "scripted_writes");
    rep.class_if(case.reqs.len() >= 2, "keep_alive_2+");
    rep.class_if(case.reqs.iter().any(|r| matches!(r.req_framing, BodyFraming::Chunked(_))), "chunked_request");
    rep.class_if(case.reqs.iter().any(|r| matches!(r.resp_framing, BodyFraming::Chunked(_))), "chunked_response");
    rep.class_if(case.reqs.iter().any(|r| r.resp_framing == BodyFraming::CloseDelimited), "close_delimited_response");
    rep.class_if(case.reqs.iter().any(|r| r.req_len.max(r.resp_len) >= 65536), "64KiB+_body");
    rep.inner_evaluations = case.reqs.len() as u64;
    Ok(rep)
}

const SUB: &str = "h1h1";

fn child(args: &Args, total: u64) -> Stats {
    lab::init_ports(args.shard.map(|s| s.0).unwrap_or(0));
    let labcell: RefCell<Option<HttpLab>> = RefCell::new(None);
    let flaky = std::cell::Cell::new(0u64);
    let max = args.tier.pick(256 * 1024, 6 * 1024 * 1024);
    let run_on = |fresh: bool, case: &Case| -> CheckResult {
        let mut lab = match (fresh, labcell.borrow_mut().take()) {
            (false, Some(l)) => l,
            (_, old) => {
                drop(old);
                HttpLab::new("c01", LabConfig::default(), 1)
            }
        };
        let r = scenario(&mut lab, case);
        *labcell.borrow_mut() = if matches!(&r, Ok(rep) if !rep.classes.iter().any(|c| c == "lab_dirty")) { Some(lab) } else { None };
        r
    };
    let check = |case: &Case| -> CheckResult {
        let first = run_on(false, case);
        let Err(f) = first else { return first };
        for _ in 0..2 {
            if let Err(f2) = run_on(true, case) {
                return Err(if f2.signature == f.signature { f2 } else { f });
            }
        }
        flaky.set(flaky.get() + 1);
        let mut rep = CaseReport::default();
        rep.class("flaky_unconfirmed");
        Ok(rep)
    };
    let mut st = engine::run_lab_shard(args, "C01", SUB, total, strategy(max), check, 40);
    st.flaky_unconfirmed += flaky.get();
    st
}

const SUB_H2: &str = "h2pairs";

pub fn run(args: &Args) -> i32 {
    if args.shard.is_some() {
        let st = if args.only.as_deref() == Some(SUB_H2) {
            super::h2flow::child(args, "C01", SUB_H2, args.cases(500, 10_000), false)
        } else if args.only.as_deref() == Some(super::c01_h2c::SUB) {
            super::c01_h2c::child(args, args.cases(1_000, 15_000))
        } else {
            child(args, args.cases(1_000, 20_000))
        };
        return engine::shard::child_finish(args, &st);
    }
    let mut ev = Evidence::new(args, "exploration");
    ev.rule(
        SUB,
        "one client connection through a live worker's HTTP listener to an HTTP/1.1 mock backend: 1..4 keep-alive POST requests, request and response bodies of boundary-biased sizes (0,1,2; within 9 of 16393 / 16384 / 32768 / 65535 / 65536 / 4096 / 9; up to 256 KiB, thorough 6 MiB) of keyed content, framed with Content-Length, chunked (generated chunk sizes) or - last response - close-delimited; four generated I/O scripts (dribbles, splits, pauses, read stalls, small socket buffers). Oracle: every body byte-identical on the other side, every message ends cleanly, each request reaches the backend exactly once with its method and target. A failure is re-run on a fresh worker and only reported when it reproduces. Non-trivial: a non-empty body and (a size within 9 of a boundary, or a read stall, or scripted writes).",
    );
    ev.assume("pairs exercised: h1->h1, h2->h1, h2->h2c, h1->h2c; trailers only on the h1->h2c pair (as framing hazard; their fidelity is C13's subject)");
    ev.assume("kernel segmentation and epoll wake-up order are influenced (write sizes, NODELAY, pauses, buffer sizes), not dictated");
    ev.rule(
        SUB_H2,
        "one HTTP/2 (TLS) client connection with 1..8 concurrent POST streams through a live worker to an HTTP/1.1 (chunked or Content-Length responses) or an h2c mock backend: request and response bodies of the same boundary-biased sizes, generated DATA frame sizes (1, 9, 16384, 16385 ...) and padding on both HTTP/2 legs, default flow-control settings. Same content oracle per stream (exact bodies, END_STREAM seen, no cross-stream mix-up) plus the HTTP/2 limits ledger. Non-trivial: a non-empty body and (a boundary size or >= 2 concurrent streams).",
    );
    engine::shard::run_sharded(&mut ev, args, SUB, 16, Duration::from_secs(args.tier.pick(900, 5400)));
    engine::shard::run_sharded(&mut ev, args, SUB_H2, 16, Duration::from_secs(args.tier.pick(900, 5400)));
    super::c01_h2c::describe(&mut ev, args);
    engine::shard::run_sharded(&mut ev, args, super::c01_h2c::SUB, 16, Duration::from_secs(args.tier.pick(900, 5400)));
    ev.finish()
}
