//! C18 (c) — wire lab: a TCP listener of a live worker between a scripted client and a scripted
//! backend, in plain / send-proxy / expect-proxy / relay-proxy modes (DESIGN §4 C18 c).

use std::{
    cell::RefCell,
    io::Read,
    net::{SocketAddr, TcpStream},
    sync::{Arc, Mutex},
    time::{Duration, Instant},
};

use proptest::prelude::*;
use serde::{Deserialize, Serialize};
use sozu_command_lib::{proto::command::ProxyProtocolConfig, scm_socket::Listeners, state::ConfigState};

use crate::{
    engine::{self, Args, CaseReport, CheckResult, Failure, Stats},
    lab::{
        self, LabConfig, LabWorker,
        h1::{self, Acceptor, content, first_mismatch},
        script::{self, RStep, ReadScript, ScriptedReader, WriteScript},
    },
};

const SIG: [u8; 12] = [0x0D, 0x0A, 0x0D, 0x0A, 0x00, 0x0D, 0x0A, 0x51, 0x55, 0x49, 0x54, 0x0A];

#[derive(Clone, Debug, Serialize, Deserialize)]
pub struct Case {
    /// 0 plain, 1 send, 2 expect, 3 relay
    pub mode: u8,
    pub c2b_len: usize,
    pub b2c_len: usize,
    pub seed: u64,
    pub client_write: WriteScript,
    pub client_read: ReadScript,
    pub backend_write: WriteScript,
    pub backend_read: ReadScript,
    /// incoming header (expect / relay): IPv6?, TLV tail length, LOCAL command?
    pub hdr_v6: bool,
    pub hdr_tlv: usize,
    pub hdr_local: bool,
    /// the client writes header and payload as one byte string (script applies to the whole) or the header first
    pub hdr_separate_write: bool,
    /// 0 = well-formed; 1 bad signature; 2 bad version; 3 oversized
    pub hdr_bad: u8,
    /// how long each side waits after its last byte before half-closing (0 = at once)
    #[serde(default)]
    pub client_fin_delay_ms: u16,
    #[serde(default)]
    pub backend_fin_delay_ms: u16,
    /// reproducer mode for the known finding (a FIN from either side ends the session and drops
    /// bytes still in flight): both sides half-close right after their last byte (+ delay),
    /// independently. Otherwise the closing is acknowledged: the side chosen by `backend_closes_first`
    /// half-closes only once every byte of both directions has arrived, the other side after it
    /// saw that end-of-stream.
    #[serde(default)]
    pub strict: bool,
    #[serde(default)]
    pub backend_closes_first: bool,
    /// bulk back-pressure: 0 none; 1 the client stops reading in the middle of a multi-megabyte
    /// download; 2 the backend stops reading in the middle of a multi-megabyte upload (default
    /// socket buffers: the proxy's writes must hit WouldBlock with its own buffer full and resume
    /// on the next writable edge)
    #[serde(default)]
    pub bulk: u8,
}

fn size(max: usize) -> impl Strategy<Value = usize> {
    prop_oneof![
        2 => Just(0usize),
        2 => 1usize..64,
        3 => prop_oneof![Just(16384usize), Just(16393), Just(65535), Just(65536), Just(4096)].prop_flat_map(|b| (Just(b), -9i64..=9).prop_map(|(b, d)| (b as i64 + d).max(0) as usize)),
        3 => 64usize..70_000,
        2 => 70_000usize..max.max(70_001),
    ]
}

pub fn strategy(max_size: usize) -> impl Strategy<Value = Case> {
    let bulk = (base_strategy(max_size), 1u8..=2, 8usize..20, 0usize..65536, 1usize..40, 900u16..1800, 0usize..70_000).prop_map(|(mut c, dir, mib, odd, reads_before, stall, other)| {
        let len = mib * 1024 * 1024 + odd;
        let read = ReadScript { steps: std::iter::repeat(RStep::Read(65536)).take(reads_before).chain([RStep::StallMs(stall)]).collect(), rcvbuf: None };
        c.bulk = dir;
        c.client_write = WriteScript::default();
        c.backend_write = WriteScript::default();
        c.client_read = ReadScript::default();
        c.backend_read = ReadScript::default();
        if dir == 1 {
            c.b2c_len = len;
            c.c2b_len = other;
            c.client_read = read;
        } else {
            c.c2b_len = len;
            c.b2c_len = other;
            c.backend_read = read;
        }
        c
    });
    prop_oneof![12 => base_strategy(max_size), 1 => bulk]
}

fn base_strategy(max_size: usize) -> impl Strategy<Value = Case> {
    (
        0u8..4,
        size(max_size),
        size(max_size),
        any::<u64>(),
        (script::write_script(300), script::read_script(400), script::write_script(300), script::read_script(400)),
        (any::<bool>(), prop_oneof![3 => Just(0usize), 2 => 1usize..60, 1 => 60usize..150], prop::bool::weighted(0.15), any::<bool>()),
        prop_oneof![8 => Just(0u8), 1 => Just(1u8), 1 => Just(2u8), 1 => Just(3u8)],
        (prop_oneof![2 => Just(0u16), 1 => 1u16..40, 1 => 40u16..300], prop_oneof![2 => Just(0u16), 1 => 1u16..40, 1 => 40u16..300]),
    )
        .prop_map(|(mode, mut c2b_len, mut b2c_len, seed, (cw, cr, bw, br), (hdr_v6, hdr_tlv, hdr_local, hdr_separate_write), hdr_bad, (cfd, bfd))| {
            // tiny receive buffers crawl at one delayed ACK per window: keep those transfers short
            if br.rcvbuf.map(|v| v <= 2048).unwrap_or(false) {
                c2b_len = c2b_len.min(24 * 1024);
            }
            if cr.rcvbuf.map(|v| v <= 2048).unwrap_or(false) {
                b2c_len = b2c_len.min(24 * 1024);
            }
            Case {
            client_fin_delay_ms: cfd,
            backend_fin_delay_ms: bfd,
            strict: false,
            bulk: 0,
            backend_closes_first: seed % 2 == 1,
            mode,
            c2b_len,
            b2c_len,
            seed,
            client_write: cw,
            client_read: cr,
            backend_write: bw,
            backend_read: br,
            hdr_v6,
            hdr_tlv,
            hdr_local,
            hdr_separate_write,
            hdr_bad: if mode >= 2 { hdr_bad } else { 0 },
        }})
}

// ------------------------------------------------------------------ lab

#[derive(Clone, Default)]
struct Plan {
    payload: Vec<u8>,
    write: WriteScript,
    read: ReadScript,
    fin_delay_ms: u16,
    /// acknowledged closing: wait for these before half-closing
    independent_fin: bool,
    closes_first: bool,
    expect_from_client: usize,
    expect_at_client: usize,
    deadline_s: u64,
}

#[derive(Clone, Debug, Default)]
struct Record {
    received: Vec<u8>,
    saw_eof: bool,
    error: Option<String>,
    done: bool,
}

struct Shared {
    plan: Plan,
    records: Vec<Record>,
    /// progress counters of the current scenario (bytes received so far on each side)
    at_backend: Arc<std::sync::atomic::AtomicUsize>,
    at_client: Arc<std::sync::atomic::AtomicUsize>,
    client_fin_sent: Arc<std::sync::atomic::AtomicBool>,
    backend_fin_sent: Arc<std::sync::atomic::AtomicBool>,
    last_progress: Arc<std::sync::atomic::AtomicU64>,
}

pub struct RelayLab {
    worker: LabWorker,
    listeners: [SocketAddr; 4],
    _backends: Vec<Acceptor>,
    shared: Arc<Mutex<Shared>>,
}

/// milliseconds since the process-wide epoch
fn now_ms() -> u64 {
    static EPOCH: std::sync::OnceLock<Instant> = std::sync::OnceLock::new();
    EPOCH.get_or_init(Instant::now).elapsed().as_millis() as u64
}

/// no byte moved anywhere in the scenario for this long => the transfer is stuck (sozu's own
/// session timeouts in the lab are 3-4 s; a stuck session is what we want to see, a slow one is not)
const IDLE_LIMIT_MS: u64 = 2500;

fn read_until_eof(stream: TcpStream, script: &ReadScript, last_progress: &std::sync::atomic::AtomicU64, progress: &std::sync::atomic::AtomicUsize) -> Record {
    let mut rec = Record::default();
    let hard_deadline = Instant::now() + Duration::from_secs(90);
    let mut r = ScriptedReader::new(stream, script);
    let mut buf = vec![0u8; 65536];
    loop {
        match r.read(&mut buf) {
            Ok(0) => {
                rec.saw_eof = true;
                break;
            }
            Ok(n) => {
                rec.received.extend_from_slice(&buf[..n]);
                progress.fetch_add(n, std::sync::atomic::Ordering::SeqCst);
                last_progress.store(now_ms(), std::sync::atomic::Ordering::SeqCst);
            }
            Err(e) => match e.kind() {
                std::io::ErrorKind::WouldBlock | std::io::ErrorKind::TimedOut | std::io::ErrorKind::Interrupted => {
                    let idle = now_ms().saturating_sub(last_progress.load(std::sync::atomic::Ordering::SeqCst));
                    if idle > IDLE_LIMIT_MS || Instant::now() >= hard_deadline {
                        rec.error = Some(format!("no byte moved for {idle} ms"));
                        break;
                    }
                }
                _ => {
                    rec.error = Some(format!("{e}"));
                    break;
                }
            },
        }
    }
    rec.done = true;
    rec
}

impl RelayLab {
    pub fn new() -> RelayLab {
        let mut worker = LabWorker::start("relay", LabConfig::default(), Listeners::default(), &ConfigState::new());
        let shared = Arc::new(Mutex::new(Shared {
            plan: Plan::default(),
            records: vec![],
            at_backend: Arc::new(Default::default()),
            at_client: Arc::new(Default::default()),
            client_fin_sent: Arc::new(Default::default()),
            backend_fin_sent: Arc::new(Default::default()),
            last_progress: Arc::new(Default::default()),
        }));
        let mut listeners = [SocketAddr::from(([127, 0, 0, 1], 0)); 4];
        let mut backends = vec![];
        for mode in 0..4usize {
            let front = lab::free_addr();
            let (back_addr, back_listener) = lab::bound_listener();
            let cluster = format!("tcp{mode}");
            worker.add_cluster(&cluster, |c| {
                c.proxy_protocol = match mode {
                    1 => Some(ProxyProtocolConfig::SendHeader as i32),
                    2 => Some(ProxyProtocolConfig::ExpectHeader as i32),
                    3 => Some(ProxyProtocolConfig::RelayHeader as i32),
                    _ => None,
                };
            });
            worker.add_tcp_listener(front, |l| l.expect_proxy = mode >= 2);
            worker.add_tcp_frontend(&cluster, front);
            worker.add_backend(&cluster, &format!("{cluster}-0"), back_addr);
            let sh = shared.clone();
            backends.push(Acceptor::spawn(back_listener, move |_idx, stream| {
                use std::sync::atomic::Ordering::SeqCst;
                let (plan, at_backend, at_client, client_fin, backend_fin, last_progress) = {
                    let g = sh.lock().unwrap();
                    (g.plan.clone(), g.at_backend.clone(), g.at_client.clone(), g.client_fin_sent.clone(), g.backend_fin_sent.clone(), g.last_progress.clone())
                };
                last_progress.store(now_ms(), SeqCst);
                script::set_bufs(&stream, plan.write.sndbuf, plan.read.rcvbuf);
                let slot = {
                    let mut g = sh.lock().unwrap();
                    g.records.push(Record::default());
                    g.records.len() - 1
                };
                let mut w = stream.try_clone().expect("clone");
                let wplan = plan.clone();
                let (ab, ac, lp) = (at_backend.clone(), at_client.clone(), last_progress.clone());
                let writer = std::thread::spawn(move || {
                    let _ = script::write_scripted(&mut w, &wplan.payload, &wplan.write);
                    lp.store(now_ms(), SeqCst);
                    if !wplan.independent_fin {
                        // acknowledged closing (see Case::strict)
                        while now_ms().saturating_sub(lp.load(SeqCst)) <= IDLE_LIMIT_MS {
                            let all_arrived = ab.load(SeqCst) >= wplan.expect_from_client && ac.load(SeqCst) >= wplan.expect_at_client;
                            if (wplan.closes_first && all_arrived) || (!wplan.closes_first && client_fin.load(SeqCst)) {
                                break;
                            }
                            std::thread::sleep(Duration::from_millis(2));
                        }
                    }
                    std::thread::sleep(Duration::from_millis(wplan.fin_delay_ms as u64));
                    backend_fin.store(true, SeqCst);
                    h1::shutdown_write(&w);
                });
                let rec = read_until_eof(stream, &plan.read, &last_progress, &at_backend);
                let _ = writer.join();
                sh.lock().unwrap().records[slot] = rec;
            }));
            listeners[mode] = front;
        }
        RelayLab { worker, listeners, _backends: backends, shared }
    }
}

fn incoming_header(case: &Case, client_addr: SocketAddr) -> (Vec<u8>, Option<(SocketAddr, SocketAddr)>) {
    // addresses carried by the header: deliberately not the real socket addresses
    let (fam, block, addrs): (u8, Vec<u8>, Option<(SocketAddr, SocketAddr)>) = if case.hdr_local {
        (0x00, vec![], None)
    } else if case.hdr_v6 {
        let s: SocketAddr = "[2001:db8::77]:4242".parse().unwrap();
        let d: SocketAddr = "[2001:db8::1]:443".parse().unwrap();
        let (SocketAddr::V6(a), SocketAddr::V6(b)) = (s, d) else { unreachable!() };
        (0x21, [a.ip().octets().to_vec(), b.ip().octets().to_vec(), a.port().to_be_bytes().to_vec(), b.port().to_be_bytes().to_vec()].concat(), Some((s, d)))
    } else {
        let s: SocketAddr = "203.0.113.9:5555".parse().unwrap();
        let d: SocketAddr = "198.51.100.1:80".parse().unwrap();
        let (SocketAddr::V4(a), SocketAddr::V4(b)) = (s, d) else { unreachable!() };
        (0x11, [a.ip().octets().to_vec(), b.ip().octets().to_vec(), a.port().to_be_bytes().to_vec(), b.port().to_be_bytes().to_vec()].concat(), Some((s, d)))
    };
    let _ = client_addr;
    let mut block = block;
    // TLV tail: type 0x04 (NOOP) vectors
    let mut left = case.hdr_tlv;
    while left >= 3 {
        let l = (left - 3).min(40);
        block.push(0x04);
        block.extend_from_slice(&(l as u16).to_be_bytes());
        block.extend(std::iter::repeat(0u8).take(l));
        left -= 3 + l;
    }
    let mut h = SIG.to_vec();
    h.push(if case.hdr_local { 0x20 } else { 0x21 });
    h.push(fam);
    h.extend_from_slice(&(block.len() as u16).to_be_bytes());
    h.extend_from_slice(&block);
    match case.hdr_bad {
        1 => h[3] ^= 0x55,
        2 => h[12] = 0x11,
        3 => {
            h.truncate(14);
            h.extend_from_slice(&300u16.to_be_bytes());
            h.extend(std::iter::repeat(0xABu8).take(300));
        }
        _ => {}
    }
    (h, addrs)
}

/// split a v2 header off the front of `bytes` by the specification: (header, rest)
fn split_v2(bytes: &[u8]) -> Option<(&[u8], &[u8])> {
    if bytes.len() < 16 || bytes[..12] != SIG {
        return None;
    }
    let len = u16::from_be_bytes([bytes[14], bytes[15]]) as usize;
    if bytes.len() < 16 + len {
        return None;
    }
    Some(bytes.split_at(16 + len))
}

fn header_addrs(h: &[u8]) -> Option<(SocketAddr, SocketAddr)> {
    let block = &h[16..];
    match h[13] >> 4 {
        1 if block.len() >= 12 => Some((
            SocketAddr::from(([block[0], block[1], block[2], block[3]], u16::from_be_bytes([block[8], block[9]]))),
            SocketAddr::from(([block[4], block[5], block[6], block[7]], u16::from_be_bytes([block[10], block[11]]))),
        )),
        2 if block.len() >= 36 => {
            let mut a = [0u8; 16];
            a.copy_from_slice(&block[0..16]);
            let mut b = [0u8; 16];
            b.copy_from_slice(&block[16..32]);
            Some((SocketAddr::from((a, u16::from_be_bytes([block[32], block[33]]))), SocketAddr::from((b, u16::from_be_bytes([block[34], block[35]])))))
        }
        _ => None,
    }
}

pub fn scenario(lab: &mut RelayLab, case: &Case) -> CheckResult {
    match scenario_inner(lab, case) {
        Err(f) if case.strict && (f.signature.contains("-bytes:mode") || f.signature.contains("never-saw-eof")) => {
            // reproducer mode: independent half-closes; what is lost is lost to the known finding
            Err(Failure::new("C18/half-close-cuts-session", format!("with independent half-closes: {}", f.message)))
        }
        other => other,
    }
}

fn scenario_inner(lab: &mut RelayLab, case: &Case) -> CheckResult {
    let mut rep = CaseReport::default();
    if !lab.worker.alive() {
        return Err(Failure::new("C18/worker-died", format!("the worker thread is gone: {:?}", lab.worker.join())));
    }
    // a 300-byte address/TLV block exceeds sozu's expect window (oversized there) but is a
    // well-formed v2 header for a relay, which forwards it as it came
    let is_bad = case.hdr_bad != 0 && !(case.hdr_bad == 3 && case.mode == 3);
    let c2b = content(case.seed, case.c2b_len);
    let b2c = content(case.seed ^ 0xB2C, case.b2c_len);
    let deadline_s = 0u64;
    let (at_backend, at_client, client_fin, backend_fin, last_progress) = {
        let mut g = lab.shared.lock().unwrap();
        g.at_backend = Arc::new(Default::default());
        g.at_client = Arc::new(Default::default());
        g.client_fin_sent = Arc::new(Default::default());
        g.backend_fin_sent = Arc::new(Default::default());
        g.last_progress = Arc::new(std::sync::atomic::AtomicU64::new(now_ms()));
        g.plan = Plan {
            payload: b2c.clone(),
            write: case.backend_write.clone(),
            read: case.backend_read.clone(),
            fin_delay_ms: case.backend_fin_delay_ms,
            independent_fin: case.strict || is_bad,
            closes_first: case.backend_closes_first,
            // bytes the backend will have seen once everything the client sends arrived
            expect_from_client: case.c2b_len
                + match case.mode {
                    1 => 28, // the send-mode header for an IPv4 loopback client
                    3 => incoming_header(case, "127.0.0.1:1".parse().unwrap()).0.len(),
                    _ => 0,
                },
            expect_at_client: case.b2c_len,
            deadline_s,
        };
        g.records.clear();
        (g.at_backend.clone(), g.at_client.clone(), g.client_fin_sent.clone(), g.backend_fin_sent.clone(), g.last_progress.clone())
    };
    let front = lab.listeners[case.mode as usize];
    let stream = match h1::connect(front, Duration::from_secs(2)) {
        Ok(s) => s,
        Err(e) => return Err(Failure::new("C18/connect-refused", format!("connect to the TCP listener {front} failed: {e}"))),
    };
    script::set_bufs(&stream, case.client_write.sndbuf, case.client_read.rcvbuf);
    let client_addr = stream.local_addr().unwrap();
    let (hdr, mut hdr_addrs) = if case.mode >= 2 { incoming_header(case, client_addr) } else { (vec![], None) };
    if case.hdr_bad == 3 && case.mode == 3 {
        hdr_addrs = header_addrs(&hdr);
    }
    let mut w = stream.try_clone().expect("clone");
    let to_send = [hdr.clone(), c2b.clone()].concat();
    let (cw, separate, hdr_len) = (case.client_write.clone(), case.hdr_separate_write && !hdr.is_empty(), hdr.len());
    let fin_delay = case.client_fin_delay_ms;
    // in send / relay mode the backend also receives a header: count payload bytes only, via the
    // total it must reach (header length is added once known: 28 for send IPv4, the incoming header for relay)
    let hdr_at_backend = match case.mode {
        1 => 28,
        3 => hdr.len(),
        _ => 0,
    };
    let (independent, closes_first, c2b_total, b2c_total) = (case.strict || is_bad, !case.backend_closes_first, case.c2b_len + hdr_at_backend, case.b2c_len);
    let (ab, ac, cf, bf, lp) = (at_backend.clone(), at_client.clone(), client_fin.clone(), backend_fin.clone(), last_progress.clone());
    let writer = std::thread::spawn(move || {
        use std::io::Write;
        use std::sync::atomic::Ordering::SeqCst;
        let r = if separate {
            w.write_all(&to_send[..hdr_len]).and_then(|_| {
                std::thread::sleep(Duration::from_millis(30));
                script::write_scripted(&mut w, &to_send[hdr_len..], &cw)
            })
        } else {
            script::write_scripted(&mut w, &to_send, &cw)
        };
        lp.store(now_ms(), SeqCst);
        if !independent {
            while now_ms().saturating_sub(lp.load(SeqCst)) <= IDLE_LIMIT_MS {
                let all_arrived = ab.load(SeqCst) >= c2b_total && ac.load(SeqCst) >= b2c_total;
                if (closes_first && all_arrived) || (!closes_first && bf.load(SeqCst)) {
                    break;
                }
                std::thread::sleep(Duration::from_millis(2));
            }
        }
        std::thread::sleep(Duration::from_millis(fin_delay as u64));
        cf.store(true, SeqCst);
        h1::shutdown_write(&w);
        r.is_ok()
    });
    let client_rec = read_until_eof(stream, &case.client_read, &last_progress, &at_client);
    let _client_wrote = writer.join().unwrap_or(false);
    // wait for the backend side to finish
    let deadline = Instant::now() + Duration::from_secs(8);
    let backend_recs: Vec<Record> = loop {
        let g = lab.shared.lock().unwrap();
        let all_done = g.records.iter().all(|r| r.done);
        if (all_done && !g.records.is_empty()) || Instant::now() >= deadline {
            break g.records.clone();
        }
        drop(g);
        if lab.shared.lock().unwrap().records.is_empty() && client_rec.done {
            // no backend connection at all (e.g. refused header): give it a moment then stop waiting
            std::thread::sleep(Duration::from_millis(150));
            let g = lab.shared.lock().unwrap();
            if g.records.is_empty() {
                break vec![];
            }
        }
        std::thread::sleep(Duration::from_millis(5));
    };

    let describe = |r: &Record| format!("{} bytes, eof={}, error={:?}", r.received.len(), r.saw_eof, r.error);

    if is_bad {
        // malformed / oversized incoming header: the session is closed, nothing reaches a backend
        let leaked: usize = backend_recs.iter().map(|r| r.received.len()).sum();
        if leaked > 0 {
            fail!("C18/bad-header-forwarded", "incoming header flavour {} is malformed but the backend received {leaked} bytes", case.hdr_bad);
        }
        if !client_rec.received.is_empty() {
            fail!("C18/bad-header-answered", "malformed incoming header but the client received {} bytes from the backend", client_rec.received.len());
        }
        rep.class("bad_incoming_header");
        rep.nontrivial = true;
        return Ok(rep);
    }

    if backend_recs.is_empty() && case.c2b_len == 0 && case.b2c_len == 0 {
        // nothing to relay either way: a session that ended before a backend was needed is fine
        rep.class("empty_session_without_backend");
        return Ok(rep);
    }
    if backend_recs.len() != 1 {
        fail!(
            "C18/backend-connections",
            "mode {}: expected exactly one backend connection for one client session, saw {} ({:?}); client got {}",
            case.mode,
            backend_recs.len(),
            backend_recs.iter().map(describe).collect::<Vec<_>>(),
            describe(&client_rec)
        );
    }
    let b = &backend_recs[0];
    // ---- what the backend must have received
    let (got_hdr, got_payload): (Option<&[u8]>, &[u8]) = match case.mode {
        0 | 2 => (None, &b.received[..]),
        _ => match split_v2(&b.received) {
            Some((h, rest)) => (Some(h), rest),
            None => {
                fail!(
                    format!("C18/no-proxy-header:mode{}", case.mode),
                    "mode {} (1 send, 3 relay): the backend's byte stream does not start with a complete PROXY v2 header: first bytes {:02x?} ({})",
                    case.mode,
                    &b.received[..b.received.len().min(32)],
                    describe(b)
                );
            }
        },
    };
    if let Some(h) = got_hdr {
        match case.mode {
            1 => {
                let want = (client_addr, front);
                if header_addrs(h) != Some(want) || h[12] != 0x21 {
                    fail!("C18/send-header-addresses", "send mode: header carries {:?} (cmd {:#x}), the true client and listener addresses are {:?}", header_addrs(h), h[12], want);
                }
            }
            _ => {
                if header_addrs(h) != hdr_addrs {
                    fail!("C18/relay-header-addresses", "relay mode: incoming header carried {:?}, the backend's header carries {:?}", hdr_addrs, header_addrs(h));
                }
            }
        }
        // exactly one header: the signature appears nowhere in what follows (content is lower-case letters)
        if got_payload.windows(12).any(|w| w == SIG) {
            fail!("C18/duplicate-proxy-header", "a second PROXY v2 signature appears inside the relayed payload");
        }
    }
    if let Some(off) = first_mismatch(got_payload, &c2b) {
        fail!(
            format!("C18/client-to-backend-bytes:mode{}", case.mode),
            "mode {}: client sent {} payload bytes{}, backend received {} ({}); first difference at offset {off}; header {} bytes (tlv {}), separate write {}",
            case.mode,
            c2b.len(),
            if hdr.is_empty() { String::new() } else { format!(" after a {}-byte header", hdr.len()) },
            got_payload.len(),
            describe(b),
            hdr.len(),
            case.hdr_tlv,
            case.hdr_separate_write
        );
    }
    if !b.saw_eof {
        fail!("C18/backend-never-saw-eof", "the client half-closed after its last byte but the backend never saw end-of-stream ({})", describe(b));
    }
    // ---- what the client must have received
    if let Some(off) = first_mismatch(&client_rec.received, &b2c) {
        fail!(
            format!("C18/backend-to-client-bytes:mode{}", case.mode),
            "mode {}: backend sent {} bytes, client received {} ({}); first difference at offset {off}",
            case.mode,
            b2c.len(),
            client_rec.received.len(),
            describe(&client_rec)
        );
    }
    if !client_rec.saw_eof {
        fail!("C18/client-never-saw-eof", "the backend half-closed after its last byte but the client never saw end-of-stream ({})", describe(&client_rec));
    }

    let stall = case.client_read.has_stall() || case.backend_read.has_stall();
    rep.nontrivial = (case.c2b_len.max(case.b2c_len) >= 65536 && stall) || (case.c2b_len > 0 && case.b2c_len > 0);
    rep.class(format!("mode{}", case.mode));
    rep.class_if(stall, "read_stall");
    rep.class_if(case.bulk == 1, "bulk_download_client_pauses_reading");
    rep.class_if(case.bulk == 2, "bulk_upload_backend_pauses_reading");
    rep.class_if(case.c2b_len.max(case.b2c_len) >= 65536, "64KiB+_one_way");
    rep.class_if(case.c2b_len > 0 && case.b2c_len > 0, "bidirectional");
    rep.class_if(case.mode >= 2 && case.hdr_tlv > 0, "incoming_header_with_tlv");
    rep.class_if(case.mode >= 2 && !case.hdr_separate_write && case.c2b_len > 0, "header_and_payload_in_one_write");
    rep.class_if(case.mode >= 2 && case.hdr_local, "incoming_LOCAL_header");
    rep.inner_evaluations = (case.c2b_len + case.b2c_len) as u64;
    Ok(rep)
}

pub const SUB: &str = "relay";

pub fn rule() -> &'static str {
    "one TCP session through a live worker's TCP listener in plain / send / expect / relay PROXY mode: payloads 0..256 KiB (thorough: 4 MiB) each way of keyed content, four generated I/O scripts (dribbles, pauses, read stalls with small socket buffers), one case in thirteen a bulk transfer of 8-20 MiB one way whose receiver stops reading for 0.9-1.8 s (default socket buffers: the proxy's writes hit WouldBlock with its own buffer full), both sides half-close after their last byte; expect/relay: a hand-built incoming v2 header (IPv4/IPv6/LOCAL, TLV tail, written with or before the payload) or a malformed one. Oracle: both byte streams exact and in order, each side sees end-of-stream only after all bytes, the backend sees exactly one well-formed v2 header in send/relay mode (true client + listener addresses, or the incoming header's addresses) and none in expect mode; malformed headers: nothing reaches the backend. A failure is re-run on a fresh worker and only reported when it reproduces. Non-trivial: both directions carry data, or >= 64 KiB one way with a read stall."
}

/// child-process entry: run this shard's scenarios
pub fn child(args: &Args, total: u64) -> Stats {
    lab::init_ports(args.shard.map(|s| s.0).unwrap_or(0));
    let labcell: RefCell<Option<RelayLab>> = RefCell::new(None);
    let flaky = std::cell::Cell::new(0u64);
    let max = args.tier.pick(256 * 1024, 4 * 1024 * 1024);
    let run_on = |fresh: bool, case: &Case| -> CheckResult {
        let mut lab = match (fresh, labcell.borrow_mut().take()) {
            (false, Some(l)) => l,
            (_, old) => {
                drop(old);
                RelayLab::new()
            }
        };
        let r = scenario(&mut lab, case);
        // a lab that saw a failure is not reused
        *labcell.borrow_mut() = if r.is_ok() { Some(lab) } else { None };
        r
    };
    let check = |case: &Case| -> CheckResult {
        let first = run_on(false, case);
        let Err(f) = first else { return first };
        // confirm on a fresh worker: report only what reproduces (DESIGN §2.4)
        for _ in 0..2 {
            if let Err(f2) = run_on(true, case) {
                return Err(if f2.signature == f.signature { f2 } else { f });
            }
        }
        flaky.set(flaky.get() + 1);
        let mut rep = CaseReport::default();
        rep.class("flaky_unconfirmed");
        Ok(rep)
    };
    let mut st = engine::run_lab_shard(args, "C18", SUB, total, strategy(max), check, 40);
    st.flaky_unconfirmed += flaky.get();
    st
}
