//! C10 (b2) — wire lab, sibling of `c10_lab` (`softstop`): the sessions in flight when SoftStop arrives are a
//! generated mix of HTTP/2 connections (TLS, ALPN h2) with 1..3 streams, HTTPS HTTP/1.1 connections, plain
//! HTTP/1.1 connections, TCP sessions through a TCP listener and connections upgraded to a WebSocket.
//!
//! One fresh worker per scenario: an HTTP listener, an HTTPS listener (ALPN h2 + http/1.1, graceful deadline
//! `H2_GRACE_S`) and a TCP listener; clusters c0 (HTTP/1.1 mock backend), c1 (h2c mock backend), cws (HTTP/1.1
//! mock backend that answers 101 and then relays opaque bytes) and t0 (TCP relay backend).

use std::{
    collections::BTreeMap,
    io::{Read, Write},
    net::{SocketAddr, TcpStream},
    os::fd::{AsRawFd, FromRawFd, RawFd},
    sync::{
        Arc, Mutex, OnceLock,
        atomic::{AtomicBool, Ordering::SeqCst},
    },
    time::{Duration, Instant},
};

use proptest::prelude::*;
use serde::{Deserialize, Serialize};
use sozu_command_lib::{
    config::ListenerBuilder,
    proto::command::{
        ActivateListener, AddCertificate, CertificateAndKey, ListenerType, PathRule, RemoveListener, RequestHttpFrontend, ResponseStatus, ReturnListenSockets, RulePosition, SoftStop,
        request::RequestType,
    },
    scm_socket::Listeners,
    state::ConfigState,
};

use crate::{
    engine::{self, Args, CaseReport, CheckResult, Failure, Stats},
    gens::certs,
    lab::{
        self, LabConfig, LabWorker,
        h1::{self, Acceptor, H1Conn, Kind, ReadOutcome, content, first_mismatch},
        h2::{self, Frame, H2Conn, H2Event, Settings},
    },
};

pub const SUB: &str = "softstop2";
pub const QUICK: u64 = 320;
pub const THOROUGH: u64 = 3_200;
/// `h2_graceful_shutdown_deadline_seconds` of the HTTPS listener (sozu's default, set explicitly)
const H2_GRACE_S: u64 = 5;
/// margin on top of the graceful deadline for "the worker ends once every session ended"
const EXIT_MARGIN: Duration = Duration::from_secs(2);

// ------------------------------------------------------------------ case

#[derive(Clone, Copy, Debug, PartialEq, Eq, Serialize, Deserialize)]
pub enum Phase {
    /// head sent (HTTP/2: HEADERS without END_STREAM), a part of the body sent; the rest follows `delay_ms` (0..300) after the stop
    PartialBody,
    /// whole request at the backend, which answers `delay_ms` (100..800) after the stop
    BackendWaiting,
    /// response head and a first piece at the client; the other pieces spread over `delay_ms` (200..900) after the stop
    ResponseInProgress,
    /// HTTP/1.1 only: `Expect: 100-continue` head at the backend, interim 100 `delay_ms` after the stop, then body and 200
    Expect100,
    /// exchange finished before the stop; the connection stays open (HTTP/2: stream closed)
    Idle,
    /// HTTP/1.1 only: a 6..12 MB response written at once, the client (64 KiB receive buffer) stops reading after the
    /// first bytes and resumes `delay_ms` after the stop
    ClientStalled,
}

impl Phase {
    fn label(self) -> &'static str {
        match self {
            Phase::PartialBody => "partial_body",
            Phase::BackendWaiting => "backend_waiting",
            Phase::ResponseInProgress => "response_in_progress",
            Phase::Expect100 => "expect_100_continue",
            Phase::Idle => "idle",
            Phase::ClientStalled => "client_stalled",
        }
    }
    fn in_flight(self) -> bool {
        self != Phase::Idle
    }
}

#[derive(Clone, Debug, Serialize, Deserialize)]
pub struct Req {
    pub phase: Phase,
    pub req_body: usize,
    pub resp_body: usize,
    pub delay_ms: u16,
    /// PartialBody: how much of the body goes before the stop, in 1/256 of its length
    pub cut: u8,
    /// ResponseInProgress: number of pieces (2..8)
    pub pieces: u8,
    /// HTTP/1.1 backend: chunked response (else Content-Length)
    pub chunked_resp: bool,
}

#[derive(Clone, Copy, Debug, PartialEq, Eq, Serialize, Deserialize)]
pub enum OPhase {
    /// the client's message is at the backend, which answers `delay_ms` (100..800) after the stop
    ReplyPending,
    /// first half of the client's message at the backend; second half `client_delay_ms` (0..300) after the stop, the
    /// backend's answer `delay_ms` after the stop: bytes under way in both directions
    BothWays,
    /// a finished exchange, nothing under way
    Idle,
    /// WebSocket only: the upgrade request is at the backend, which answers 101 `delay_ms` after the stop
    UpgradePending,
}

impl OPhase {
    fn label(self) -> &'static str {
        match self {
            OPhase::ReplyPending => "reply_pending",
            OPhase::BothWays => "both_ways",
            OPhase::Idle => "idle",
            OPhase::UpgradePending => "upgrade_pending",
        }
    }
}

#[derive(Clone, Debug, Serialize, Deserialize)]
pub struct Opaque {
    pub phase: OPhase,
    pub up: u32,
    pub down: u32,
    pub delay_ms: u16,
    pub client_delay_ms: u16,
}

#[derive(Clone, Debug, Serialize, Deserialize)]
pub enum Session {
    H1 { tls: bool, warm: bool, req: Req },
    H2 {
        h2c: bool,
        streams: Vec<Req>,
        /// one more stream (GET) opened once the stop is acknowledged
        late_stream: bool,
        /// the client closes the connection once it has a GOAWAY and none of its streams is open (else it waits for sozu)
        client_closes: bool,
    },
    Tcp(Opaque),
    Ws { tls: bool, o: Opaque },
}

impl Session {
    fn kind(&self) -> &'static str {
        match self {
            Session::H1 { tls: false, .. } => "h1",
            Session::H1 { tls: true, .. } => "tlsh1",
            Session::H2 { .. } => "h2",
            Session::Tcp(_) => "tcp",
            Session::Ws { tls: false, .. } => "ws",
            Session::Ws { tls: true, .. } => "wss",
        }
    }
    /// something of this session is unfinished when the stop arrives
    fn in_flight(&self) -> bool {
        match self {
            Session::H1 { req, .. } => req.phase.in_flight(),
            Session::H2 { streams, .. } => streams.iter().any(|r| r.phase.in_flight()),
            Session::Tcp(o) | Session::Ws { o, .. } => o.phase != OPhase::Idle,
        }
    }
}

#[derive(Clone, Debug, Serialize, Deserialize)]
pub struct Case {
    /// ReturnListenSockets, take the sockets, then SoftStop
    pub handover: bool,
    pub gap_ms: u16,
    pub sessions: Vec<Session>,
    pub seed: u64,
    /// reproducer of a known finding: no exclusion by construction
    #[serde(default)]
    pub strict: bool,
}

fn body_size() -> impl Strategy<Value = usize> {
    prop_oneof![
        2 => 1usize..200,
        3 => 200usize..8_000,
        2 => (-9i64..=9).prop_map(|d| (16_393 + d) as usize),
        2 => 8_000usize..70_000,
    ]
}

fn req(h2: bool) -> impl Strategy<Value = Req> {
    let phase = if h2 {
        prop_oneof![3 => Just(Phase::PartialBody), 3 => Just(Phase::BackendWaiting), 3 => Just(Phase::ResponseInProgress), 2 => Just(Phase::Idle), 2 => Just(Phase::ClientStalled)].boxed()
    } else {
        prop_oneof![3 => Just(Phase::PartialBody), 3 => Just(Phase::BackendWaiting), 3 => Just(Phase::ResponseInProgress), 2 => Just(Phase::Expect100), 1 => Just(Phase::Idle), 1 => Just(Phase::ClientStalled)].boxed()
    };
    (phase, body_size(), body_size(), any::<u16>(), any::<u8>(), 2u8..=8, any::<bool>(), any::<bool>()).prop_map(move |(phase, req_body, resp_body, d, cut, pieces, chunked_resp, has_body)| {
        let span = |lo: u16, hi: u16| lo + (d as u32 * (hi - lo) as u32 / 65_535) as u16;
        let delay_ms = match phase {
            Phase::PartialBody => span(0, 300),
            Phase::BackendWaiting => span(100, 800),
            Phase::ResponseInProgress => span(200, 900),
            Phase::Expect100 => span(20, 500),
            Phase::Idle => 0,
            Phase::ClientStalled => span(50, 600),
        };
        let req_body = match phase {
            Phase::PartialBody | Phase::Expect100 => req_body.max(2),
            _ if has_body => req_body,
            _ => 0,
        };
        let resp_body = match phase {
            Phase::ResponseInProgress => resp_body.max(64),
            // HTTP/2: the whole response fits sozu's stream buffer and exceeds the window the client grants (4000)
            Phase::ClientStalled if h2 => 4_100 + resp_body % 9_000,
            Phase::ClientStalled => 6_000_000 + resp_body * 90,
            _ => resp_body,
        };
        Req { phase, req_body, resp_body, delay_ms, cut, pieces, chunked_resp }
    })
}

fn opaque(ws: bool) -> impl Strategy<Value = Opaque> {
    let phase = if ws {
        prop_oneof![3 => Just(OPhase::ReplyPending), 2 => Just(OPhase::BothWays), 1 => Just(OPhase::Idle), 2 => Just(OPhase::UpgradePending)].boxed()
    } else {
        prop_oneof![3 => Just(OPhase::ReplyPending), 3 => Just(OPhase::BothWays), 1 => Just(OPhase::Idle)].boxed()
    };
    let size = || prop_oneof![2 => 1u32..200, 2 => 200u32..8_000, 1 => 8_000u32..40_000];
    (phase, size(), size(), 100u16..800, 0u16..300).prop_map(|(phase, up, down, delay_ms, client_delay_ms)| Opaque { phase, up: up.max(2), down, delay_ms, client_delay_ms })
}

fn session() -> impl Strategy<Value = Session> {
    prop_oneof![
        4 => (any::<bool>(), prop::collection::vec(req(true), 1..=3), prop::bool::weighted(0.3), any::<bool>()).prop_map(|(h2c, mut streams, late_stream, client_closes)| {
            // a stream whose response waits for flow-control credit is alone on its connection (the small window
            // is a connection setting), toward the HTTP/1.1 backend, which has written the whole response and is done
            if let Some(st) = streams.iter().find(|r| r.phase == Phase::ClientStalled).cloned() {
                streams = vec![st];
                return Session::H2 { h2c: false, streams, late_stream: false, client_closes };
            }
            Session::H2 { h2c, streams, late_stream, client_closes }
        }),
        3 => (prop::bool::weighted(0.3), req(false)).prop_map(|(warm, req)| Session::H1 { tls: true, warm, req }),
        1 => (prop::bool::weighted(0.3), req(false)).prop_map(|(warm, req)| Session::H1 { tls: false, warm, req }),
        2 => opaque(false).prop_map(Session::Tcp),
        2 => (any::<bool>(), opaque(true)).prop_map(|(tls, o)| Session::Ws { tls, o }),
    ]
}

pub fn strategy() -> impl Strategy<Value = Case> {
    (prop::bool::weighted(0.35), prop_oneof![2 => Just(0u16), 1 => 1u16..120], prop::collection::vec(session(), 1..=6), any::<u64>()).prop_map(|(handover, gap_ms, mut sessions, seed)| {
        // at most one client-stalled multi-megabyte response per scenario (sixteen shards share the cores)
        let mut stalled = 0;
        for s in sessions.iter_mut() {
            if let Session::H1 { req, .. } = s {
                if req.phase == Phase::ClientStalled {
                    stalled += 1;
                    if stalled > 1 {
                        req.phase = Phase::BackendWaiting;
                        req.resp_body = 5_000;
                        req.delay_ms = 100 + req.delay_ms % 700;
                    }
                }
            }
        }
        Case { handover, gap_ms, sessions, seed, strict: false }
    })
}

// ------------------------------------------------------------------ known findings

/// Shapes sozu is known to get wrong; generated (non-strict) cases are moved to the nearest shape outside
/// them and counted in `excluded_known`, the committed strict reproducers play them as they are.
/// * `h2-request-body-after-goaway`: an HTTP/2 stream whose request body is still to come when the stop
///   arrives. Two failure modes: the DATA frames sent after the initial GOAWAY were answered
///   GOAWAY(STREAM_CLOSED) and the connection closed (signature `C10/h2-request-body-refused-after-goaway`,
///   repaired in sozu 01aec79, reproducer kept as `softstop2-fixed-...`); and, still open, the rest of the body
///   is read by sozu but never reaches the backend, the stream sits until the graceful deadline cuts the
///   connection (signature `C10/h2-request-body-stalls-after-goaway`, timing dependent). Generated cases turn
///   the stream into one whose request is complete and whose backend has not answered yet.
/// * `h2-new-stream-crossing-goaway`: a stream opened on a connection that still has open streams while the
///   initial GOAWAY is on its way: it is refused (REFUSED_STREAM) and the connection is closed at once, which
///   cuts the open streams (signature `C10/h2-connection-closed-after-refusing-new-stream`). Generated cases
///   open the late stream only on connections without open streams.
/// * `tls-h1-backpressured-response-stalls`: an HTTPS HTTP/1.1 response under back-pressure at the stop (multi-megabyte
///   response, the client not reading): once the client reads again the transfer stops after some megabytes and
///   never resumes, the session and the SoftStop hang until the client gives up (timing dependent, frequent when
///   the machine is busy; signature `C10/response-stalls-after-stop:tlsh1:client_stalled`). Generated cases play
///   the phase on the plain HTTP listener.
/// * `h2-response-stalls-at-exhausted-window`: an HTTP/2 stream whose HTTP/1.1 backend writes, after the stop, a
///   response of more than 65535 bytes at once: sozu sends until the stream's flow-control window is used up, the
///   client's WINDOW_UPDATE is followed by 8 more bytes and then nothing; the stream hangs until the graceful
///   deadline closes the connection (signature `C10/h2-response-stalls-at-exhausted-window`; the same transfer
///   without a stop, from an h2c backend, or written in pieces completes). Generated cases keep such a response
///   at 60000..65000 bytes.
fn exclude_known(sessions: &mut [Session], strict: bool) -> u64 {
    if strict {
        return 0;
    }
    let mut n = 0;
    for s in sessions.iter_mut() {
        if let Session::H1 { tls, req, .. } = s {
            if *tls && req.phase == Phase::ClientStalled {
                *tls = false;
                n += 1;
            }
        }
        if let Session::H2 { streams, late_stream, h2c, .. } = s {
            for r in streams.iter_mut() {
                if r.phase == Phase::PartialBody {
                    r.phase = Phase::BackendWaiting;
                    r.delay_ms = 100 + r.delay_ms % 700;
                    n += 1;
                }
                if !*h2c && r.phase == Phase::BackendWaiting && r.resp_body > 65_535 {
                    r.resp_body = 60_000 + r.resp_body % 5_000;
                    n += 1;
                }
            }
            if *late_stream && streams.iter().any(|r| r.phase.in_flight()) {
                *late_stream = false;
                n += 1;
            }
        }
    }
    n
}

// ------------------------------------------------------------------ shared scenario state

/// exchange id carried in `x-lab-req`: session * 8 + stream; stream 7 = the late stream of an HTTP/2 session
fn xid(si: usize, k: usize) -> usize {
    si * 8 + k
}
const LATE: usize = 7;
const WARM_BASE: usize = 500;
const PROBE_BASE: usize = 1000;
const HARD_LIMIT: Duration = Duration::from_secs(9);

#[derive(Clone, Debug, Default)]
struct BackendSaw {
    proto: &'static str,
    head_at: Option<Instant>,
    complete_at: Option<Instant>,
    body_mismatch: Option<String>,
    cut: Option<String>,
    times_seen: usize,
    written_at: Option<Instant>,
    /// taken right before the last piece of the response was written
    last_write_started_at: Option<Instant>,
}

#[derive(Clone, Debug)]
enum ClientEnd {
    Complete { status: u16, mismatch: Option<String> },
    Failed(String),
}

#[derive(Clone, Debug, Default)]
struct ClientSaw {
    staged: bool,
    first_byte_at: Option<Instant>,
    done_at: Option<Instant>,
    end: Option<ClientEnd>,
    idle_closed: Option<bool>,
    /// HTTP/2: response body bytes received when the stream ended
    got_body: usize,
}

#[derive(Clone, Debug, Default)]
struct LateSaw {
    opened_at: Option<Instant>,
    sid: u32,
    /// "complete:<status>", "reset:<code>", "unanswered", "send-failed:<why>"
    outcome: String,
    body_ok: bool,
}

#[derive(Clone, Debug, Default)]
struct H2Saw {
    /// (when, last stream id, error code)
    goaways: Vec<(Instant, u32, u32)>,
    /// how the connection ended as seen by the client: "eof" / "reset" / "client-closed" / "open"
    ended: Option<(Instant, &'static str)>,
    ledger: Vec<String>,
    late: Option<LateSaw>,
    frames_tail: Vec<(u8, u8, u32, usize)>,
}

#[derive(Clone, Debug, PartialEq)]
enum OEnd {
    /// everything expected arrived (the peer then closed by itself)
    Complete,
    /// orderly end of stream from sozu (FIN; TLS: close_notify)
    Eof,
    /// TLS: the TCP connection ended without close_notify
    TlsTruncated,
    Reset(String),
    /// still open when the peer stopped waiting
    Open,
}

#[derive(Clone, Debug, Default)]
struct OpaqueSaw {
    c_staged: bool,
    /// bytes the client wrote (count) before the SoftStop command was sent / in total
    c_wrote_before_stop: usize,
    c_wrote: usize,
    c_recv: Vec<u8>,
    c_end: Option<(Instant, OEnd)>,
    c_fail: Option<String>,
    /// WebSocket: status of the upgrade response
    upgrade_status: Option<u16>,
    idle_closed: Option<bool>,
    b_conns: usize,
    b_recv: Vec<u8>,
    b_first_part_at: Option<Instant>,
    b_recv_complete_at: Option<Instant>,
    b_wrote: usize,
    b_wrote_before_stop: usize,
    b_write_err: Option<String>,
    b_saw_end_before_reply: bool,
    b_end: Option<OEnd>,
    b_last_write_started_at: Option<Instant>,
}

struct Shared {
    sessions: Vec<Session>,
    seed: u64,
    /// the moment the SoftStop command had been written
    stop_at: OnceLock<Instant>,
    /// the moment the first answer to it was read
    ack_at: OnceLock<Instant>,
    finished: AtomicBool,
    backend: Mutex<BTreeMap<usize, BackendSaw>>,
    client: Mutex<BTreeMap<usize, ClientSaw>>,
    h2: Mutex<BTreeMap<usize, H2Saw>>,
    opq: Mutex<BTreeMap<usize, OpaqueSaw>>,
    probes_at_backend: Mutex<Vec<String>>,
}

impl Shared {
    fn wait_stop(&self, extra_ms: u64) -> bool {
        let end = Instant::now() + HARD_LIMIT;
        loop {
            if let Some(t) = self.stop_at.get() {
                let target = *t + Duration::from_millis(extra_ms);
                let now = Instant::now();
                if now >= target {
                    return true;
                }
                std::thread::sleep((target - now).min(Duration::from_millis(5)));
                continue;
            }
            if self.finished.load(SeqCst) || Instant::now() >= end {
                return false;
            }
            std::thread::sleep(Duration::from_millis(1));
        }
    }
    fn due(&self, extra_ms: u64) -> bool {
        self.stop_at.get().map(|t| Instant::now() >= *t + Duration::from_millis(extra_ms)).unwrap_or(false)
    }
    fn stopped(&self) -> bool {
        self.stop_at.get().is_some()
    }
    fn cl(&self, id: usize, f: impl FnOnce(&mut ClientSaw)) {
        f(self.client.lock().unwrap().entry(id).or_default())
    }
    fn bk(&self, id: usize, f: impl FnOnce(&mut BackendSaw)) {
        f(self.backend.lock().unwrap().entry(id).or_default())
    }
    fn op(&self, si: usize, f: impl FnOnce(&mut OpaqueSaw)) {
        f(self.opq.lock().unwrap().entry(si).or_default())
    }
    /// the HTTP exchange with this id: (request plan, is the late stream)
    fn exchange(&self, id: usize) -> Option<Req> {
        let (si, k) = (id / 8, id % 8);
        match self.sessions.get(si)? {
            Session::H1 { req, .. } if k == 0 => Some(req.clone()),
            Session::H2 { streams, late_stream, .. } => {
                if k == LATE && *late_stream {
                    Some(Req { phase: Phase::Idle, req_body: 0, resp_body: 300, delay_ms: 0, cut: 0, pieces: 2, chunked_resp: false })
                } else {
                    streams.get(k).cloned()
                }
            }
            _ => None,
        }
    }
}

fn req_seed(seed: u64, id: usize) -> u64 {
    seed ^ (id as u64 + 1).wrapping_mul(0x9E37_79B9)
}
fn resp_seed(seed: u64, id: usize) -> u64 {
    seed ^ (id as u64 + 1).wrapping_mul(0xC2B2_AE35) ^ 0x5555
}

fn is_timeout(e: &std::io::Error) -> bool {
    matches!(e.kind(), std::io::ErrorKind::WouldBlock | std::io::ErrorKind::TimedOut | std::io::ErrorKind::Interrupted)
}

// ------------------------------------------------------------------ client connection (plain or TLS)

enum Conn {
    Plain(TcpStream),
    Tls(Box<rustls::StreamOwned<rustls::ClientConnection, TcpStream>>),
}

impl Conn {
    fn sock(&self) -> &TcpStream {
        match self {
            Conn::Plain(s) => s,
            Conn::Tls(t) => &t.sock,
        }
    }
    fn is_tls(&self) -> bool {
        matches!(self, Conn::Tls(_))
    }
    fn open(addr: SocketAddr, tls: bool, sni: &str) -> Result<Conn, String> {
        if tls {
            let (t, _) = h2::tls_connect(addr, sni, &["http/1.1"]).map_err(|e| format!("TLS connect to {addr}: {e}"))?;
            let _ = t.sock.set_read_timeout(Some(Duration::from_millis(50)));
            Ok(Conn::Tls(Box::new(t)))
        } else {
            let s = h1::connect(addr, Duration::from_secs(2)).map_err(|e| format!("connect to {addr}: {e}"))?;
            let _ = s.set_read_timeout(Some(Duration::from_millis(50)));
            Ok(Conn::Plain(s))
        }
    }
    fn send(&mut self, data: &[u8]) -> std::io::Result<()> {
        self.write_all(data)?;
        self.flush()
    }
}

impl Read for Conn {
    fn read(&mut self, buf: &mut [u8]) -> std::io::Result<usize> {
        match self {
            Conn::Plain(s) => s.read(buf),
            Conn::Tls(t) => t.read(buf),
        }
    }
}

impl Write for Conn {
    fn write(&mut self, buf: &[u8]) -> std::io::Result<usize> {
        match self {
            Conn::Plain(s) => s.write(buf),
            Conn::Tls(t) => t.write(buf),
        }
    }
    fn flush(&mut self) -> std::io::Result<()> {
        match self {
            Conn::Plain(s) => s.flush(),
            Conn::Tls(t) => t.flush(),
        }
    }
}

// ------------------------------------------------------------------ HTTP/1.1 mock backend (cluster c0)

/// Read from `s` into `buf` until `pred(buf)`; Err = why it stopped early.
fn read_until(s: &mut TcpStream, buf: &mut Vec<u8>, sh: &Shared, idle_ok: bool, mut pred: impl FnMut(&[u8]) -> bool) -> Result<(), String> {
    let end = Instant::now() + HARD_LIMIT;
    let mut tmp = vec![0u8; 65536];
    loop {
        if pred(buf) {
            return Ok(());
        }
        match s.read(&mut tmp) {
            Ok(0) => return Err("connection closed".into()),
            Ok(n) => buf.extend_from_slice(&tmp[..n]),
            Err(e) if is_timeout(&e) => {
                if Instant::now() >= end || (idle_ok && buf.is_empty() && sh.finished.load(SeqCst)) {
                    return Err("deadline".into());
                }
            }
            Err(e) => return Err(format!("{e}")),
        }
    }
}

fn head_end(buf: &[u8]) -> Option<usize> {
    buf.windows(4).position(|w| w == b"\r\n\r\n").map(|p| p + 4)
}

fn header_value(head: &[u8], name: &str) -> Option<String> {
    let text = String::from_utf8_lossy(head);
    text.split("\r\n").skip(1).find_map(|l| {
        let (n, v) = l.split_once(':')?;
        if n.trim().eq_ignore_ascii_case(name) { Some(v.trim().to_string()) } else { None }
    })
}

/// the HTTP/2 variant of ClientStalled (a response of a few kilobytes waiting in sozu for flow-control credit):
/// the backend announces `Connection: close` and closes after its last byte, so that at the stop nothing but
/// sozu's own buffer holds the rest of the response (the stream is no longer linked to a backend)
fn closes_after(r: &Req) -> bool {
    r.phase == Phase::ClientStalled && r.resp_body < 100_000
}

fn response_wire(sh: &Shared, id: usize, r: &Req) -> Vec<u8> {
    let body = content(resp_seed(sh.seed, id), r.resp_body);
    let framing = if r.chunked_resp { h1::BodyFraming::Chunked(vec![1 + r.resp_body / 3, 7, 4096]) } else { h1::BodyFraming::ContentLength };
    let (extra, wire) = h1::encode_body(&body, &framing, &[]);
    let mut hs = vec![("x-lab-resp".to_string(), id.to_string())];
    hs.extend(extra);
    if closes_after(r) {
        hs.push(("Connection".to_string(), "close".to_string()));
    }
    let mut v = h1::build_head("HTTP/1.1 200 OK", &hs);
    v.extend_from_slice(&wire);
    v
}

fn serve_h1_backend(mut s: TcpStream, sh: Arc<Shared>) {
    let mut buf: Vec<u8> = vec![];
    loop {
        if read_until(&mut s, &mut buf, &sh, true, |b| head_end(b).is_some()).is_err() {
            return;
        }
        let he = head_end(&buf).unwrap();
        let head = buf[..he].to_vec();
        buf.drain(..he);
        let id = header_value(&head, "x-lab-req").and_then(|v| v.parse::<usize>().ok());
        let cl = header_value(&head, "content-length").and_then(|v| v.parse::<usize>().ok()).unwrap_or(0);
        let Some(id) = id else { return };
        if (WARM_BASE..PROBE_BASE).contains(&id) {
            if s.write_all(b"HTTP/1.1 200 OK\r\nContent-Length: 4\r\n\r\nwarm").is_err() {
                return;
            }
            continue;
        }
        let Some(r) = (if id < PROBE_BASE { sh.exchange(id) } else { None }) else {
            sh.probes_at_backend.lock().unwrap().push(format!("http request {id} at the HTTP/1.1 backend"));
            let _ = s.write_all(b"HTTP/1.1 200 OK\r\nContent-Length: 5\r\n\r\nprobe");
            continue;
        };
        sh.bk(id, |e| {
            e.proto = "h1";
            e.times_seen += 1;
            e.head_at = Some(Instant::now());
        });
        if r.phase == Phase::Expect100 {
            if !sh.wait_stop(r.delay_ms as u64) {
                return;
            }
            if s.write_all(b"HTTP/1.1 100 Continue\r\n\r\n").is_err() {
                return;
            }
        }
        if let Err(why) = read_until(&mut s, &mut buf, &sh, false, |b| b.len() >= cl) {
            let have = buf.len();
            sh.bk(id, |e| e.cut = Some(format!("{why} after {have} of {cl} request body bytes")));
            return;
        }
        let body: Vec<u8> = buf.drain(..cl).collect();
        {
            let want = content(req_seed(sh.seed, id), r.req_body);
            let mm = first_mismatch(&body, &want).map(|off| format!("backend received {} request body bytes, {} were sent, first difference at offset {off}", body.len(), want.len()));
            sh.bk(id, |e| {
                e.complete_at = Some(Instant::now());
                e.body_mismatch = mm;
            });
        }
        let wire = response_wire(&sh, id, &r);
        let last_write = |sh: &Shared| sh.bk(id, |e| e.last_write_started_at = Some(Instant::now()));
        match r.phase {
            Phase::BackendWaiting => {
                if !sh.wait_stop(r.delay_ms as u64) {
                    return;
                }
                last_write(&sh);
                if s.write_all(&wire).is_err() {
                    return;
                }
            }
            Phase::ClientStalled => {
                let tail = wire.len() - 1024.min(wire.len() / 2);
                if s.write_all(&wire[..tail]).is_err() {
                    return;
                }
                last_write(&sh);
                if s.write_all(&wire[tail..]).is_err() {
                    return;
                }
            }
            Phase::ResponseInProgress => {
                let he = head_end(&wire).unwrap();
                let pieces = r.pieces.max(2) as usize;
                let body_wire = &wire[he..];
                let step = body_wire.len().div_ceil(pieces).max(1);
                let first = he + step.min(body_wire.len().saturating_sub(1));
                if s.write_all(&wire[..first]).is_err() {
                    return;
                }
                if !sh.wait_stop(0) {
                    return;
                }
                let rest = &wire[first..];
                let n = rest.len().div_ceil(step).max(1);
                for (k, piece) in rest.chunks(step).enumerate() {
                    if !sh.wait_stop(r.delay_ms as u64 * (k as u64 + 1) / n as u64) {
                        return;
                    }
                    if k + 1 == n {
                        last_write(&sh);
                    }
                    if s.write_all(piece).is_err() {
                        return;
                    }
                }
            }
            _ => {
                last_write(&sh);
                if s.write_all(&wire).is_err() {
                    return;
                }
            }
        }
        sh.bk(id, |e| e.written_at = Some(Instant::now()));
        if closes_after(&r) {
            return;
        }
    }
}

// ------------------------------------------------------------------ h2c mock backend (cluster c1)

struct BkStep {
    /// ms after the stop (None: at once)
    at: Option<u64>,
    head: bool,
    data: std::ops::Range<usize>,
    end: bool,
}

struct BkStream {
    id: Option<usize>,
    req: Option<Req>,
    completed: bool,
    dead: bool,
    body: Vec<u8>,
    steps: Vec<BkStep>,
    next: usize,
}

fn h2c_plan(r: &Req) -> Vec<BkStep> {
    let n = r.resp_body;
    match r.phase {
        Phase::BackendWaiting => vec![BkStep { at: Some(r.delay_ms as u64), head: true, data: 0..n, end: true }],
        Phase::ResponseInProgress => {
            let pieces = r.pieces.max(2) as usize;
            let step = n.div_ceil(pieces).max(1);
            let first = step.min(n.saturating_sub(1));
            let mut v = vec![BkStep { at: None, head: true, data: 0..first, end: false }];
            let rest = n - first;
            let cnt = rest.div_ceil(step).max(1);
            let mut pos = first;
            for k in 0..cnt {
                let e = (pos + step).min(n);
                v.push(BkStep { at: Some(r.delay_ms as u64 * (k as u64 + 1) / cnt as u64), head: false, data: pos..e, end: k + 1 == cnt });
                pos = e;
            }
            v
        }
        _ => vec![BkStep { at: None, head: true, data: 0..n, end: true }],
    }
}

fn serve_h2c_backend(stream: TcpStream, sh: Arc<Shared>) {
    let _ = stream.set_read_timeout(Some(Duration::from_millis(5)));
    let mut c = H2Conn::new(stream, true, Settings::default());
    if c.start().is_err() || c.expect_preface(Instant::now() + Duration::from_secs(5)).is_err() {
        return;
    }
    c.replenish(0);
    let mut bks: BTreeMap<u32, BkStream> = BTreeMap::new();
    let started = Instant::now();
    loop {
        if sh.finished.load(SeqCst) || started.elapsed() > HARD_LIMIT * 2 {
            break;
        }
        match c.next_frame(Instant::now() + Duration::from_millis(5)) {
            H2Event::Eof | H2Event::Reset => break,
            _ => {}
        }
        c.replenish_open();
        // streams whose head is in
        let new: Vec<(u32, Option<usize>)> = c.streams.iter().filter(|(sid, s)| s.headers_done && !bks.contains_key(sid)).map(|(sid, s)| (*sid, h2::hdr(&s.headers, "x-lab-req").and_then(|v| v.trim().parse::<usize>().ok()))).collect();
        for (sid, id) in new {
            let mut b = BkStream { id, req: None, completed: false, dead: false, body: vec![], steps: vec![], next: 0 };
            match id {
                Some(id) if (WARM_BASE..PROBE_BASE).contains(&id) => {}
                Some(id) if id < PROBE_BASE && sh.exchange(id).is_some() => {
                    b.req = sh.exchange(id);
                    sh.bk(id, |e| {
                        e.proto = "h2c";
                        e.times_seen += 1;
                        e.head_at = Some(Instant::now());
                    });
                }
                other => sh.probes_at_backend.lock().unwrap().push(format!("http request {other:?} at the h2c backend")),
            }
            bks.insert(sid, b);
        }
        // requests that are complete (or gone)
        for (sid, b) in bks.iter_mut() {
            if b.completed || b.dead {
                continue;
            }
            let Some(s) = c.streams.get(sid) else { continue };
            if let Some(code) = s.reset {
                b.dead = true;
                if let (Some(id), Some(_)) = (b.id, &b.req) {
                    let have = s.body.len();
                    sh.bk(id, |e| e.cut = Some(format!("sozu reset the backend stream with code {code} after {have} request body bytes")));
                }
                continue;
            }
            if !s.end_stream {
                continue;
            }
            b.completed = true;
            match (&b.req, b.id) {
                (Some(r), Some(id)) => {
                    let want = content(req_seed(sh.seed, id), r.req_body);
                    let mm = first_mismatch(&s.body, &want).map(|off| format!("backend received {} request body bytes, {} were sent, first difference at offset {off}", s.body.len(), want.len()));
                    sh.bk(id, |e| {
                        e.complete_at = Some(Instant::now());
                        e.body_mismatch = mm;
                    });
                    b.body = content(resp_seed(sh.seed, id), r.resp_body);
                    b.steps = h2c_plan(r);
                }
                _ => {
                    b.body = b"warm".to_vec();
                    b.steps = vec![BkStep { at: None, head: true, data: 0..4, end: true }];
                }
            }
        }
        // responses whose time has come
        for (sid, b) in bks.iter_mut() {
            while !b.dead && b.completed && b.next < b.steps.len() {
                let st = &b.steps[b.next];
                if let Some(ms) = st.at {
                    if !sh.due(ms) {
                        break;
                    }
                }
                let last = b.next + 1 == b.steps.len();
                if last {
                    if let (Some(id), Some(_)) = (b.id, &b.req) {
                        sh.bk(id, |e| e.last_write_started_at = Some(Instant::now()));
                    }
                }
                let mut ok = true;
                if st.head {
                    let mut hs = vec![(":status".to_string(), "200".to_string()), ("content-length".to_string(), b.body.len().to_string())];
                    if let Some(id) = b.id {
                        hs.push(("x-lab-resp".to_string(), id.to_string()));
                    }
                    ok &= c.send_headers(*sid, &hs, st.end && b.body.is_empty(), None).is_ok();
                }
                if ok && !b.body.is_empty() && !(st.data.is_empty() && !st.end) {
                    if st.data.is_empty() {
                        ok &= c.send(&Frame::data(*sid, &[], true, None)).is_ok();
                    } else {
                        ok &= c.send_body(*sid, &b.body[st.data.clone()], &[], None, st.end, Instant::now() + Duration::from_secs(8)).is_ok();
                    }
                }
                if !ok {
                    b.dead = true;
                    break;
                }
                b.next += 1;
                if last {
                    if let (Some(id), Some(_)) = (b.id, &b.req) {
                        sh.bk(id, |e| e.written_at = Some(Instant::now()));
                    }
                }
            }
        }
    }
}

// ------------------------------------------------------------------ opaque sessions (TCP, upgraded connections)

const HELLO_LEN: usize = 12;

fn hello(si: usize) -> Vec<u8> {
    format!("S{si:02}-hello--\n").into_bytes()
}
fn olleh(si: usize) -> Vec<u8> {
    format!("R{si:02}-olleh--\n").into_bytes()
}

/// a WebSocket binary frame (client frames carry the mask bit with an all-zero key, which leaves the payload as it is)
fn ws_frame(payload: &[u8], masked: bool) -> Vec<u8> {
    let mut v = vec![0x82u8];
    let m = if masked { 0x80u8 } else { 0 };
    match payload.len() {
        n if n < 126 => v.push(m | n as u8),
        n if n < 65536 => {
            v.push(m | 126);
            v.extend_from_slice(&(n as u16).to_be_bytes());
        }
        n => {
            v.push(m | 127);
            v.extend_from_slice(&(n as u64).to_be_bytes());
        }
    }
    if masked {
        v.extend_from_slice(&[0, 0, 0, 0]);
    }
    v.extend_from_slice(payload);
    v
}

/// the client's message and the backend's answer as they go on the wire
fn opaque_wires(seed: u64, si: usize, o: &Opaque, ws: bool) -> (Vec<u8>, Vec<u8>) {
    let up = content(req_seed(seed, xid(si, 1)), o.up as usize);
    let down = content(resp_seed(seed, xid(si, 1)), o.down as usize);
    if ws { (ws_frame(&up, true), ws_frame(&down, false)) } else { (up, down) }
}

enum Rd {
    Got,
    Eof,
    Reset(String),
    Deadline,
}

fn read_some(s: &mut TcpStream, into: &mut Vec<u8>) -> Rd {
    let mut tmp = [0u8; 65536];
    match s.read(&mut tmp) {
        Ok(0) => Rd::Eof,
        Ok(n) => {
            into.extend_from_slice(&tmp[..n]);
            Rd::Got
        }
        Err(e) if is_timeout(&e) => Rd::Deadline,
        Err(e) => Rd::Reset(e.to_string()),
    }
}

/// has the peer's end of stream already arrived (nothing unread before it)?
fn peer_closed(s: &TcpStream) -> bool {
    let mut b = [0u8; 1];
    let n = unsafe { libc::recv(s.as_raw_fd(), b.as_mut_ptr() as *mut libc::c_void, 1, libc::MSG_PEEK | libc::MSG_DONTWAIT) };
    n == 0
}

fn opaque_backend(mut s: TcpStream, mut recv: Vec<u8>, si: usize, o: &Opaque, ws: bool, sh: &Arc<Shared>) {
    let _ = s.set_read_timeout(Some(Duration::from_millis(20)));
    let (up_wire, down_wire) = opaque_wires(sh.seed, si, o, ws);
    sh.op(si, |p| p.b_conns += 1);
    let publish = |recv: &Vec<u8>, end: Option<OEnd>| {
        sh.op(si, |p| {
            p.b_recv = recv.clone();
            if end.is_some() {
                p.b_end = end;
            }
        })
    };
    // read until `target` bytes are in; false = the session ended first (recorded)
    let read_to = |s: &mut TcpStream, recv: &mut Vec<u8>, target: usize| -> bool {
        let end = Instant::now() + HARD_LIMIT;
        while recv.len() < target {
            match read_some(s, recv) {
                Rd::Got => {}
                Rd::Eof => {
                    publish(recv, Some(OEnd::Eof));
                    return false;
                }
                Rd::Reset(e) => {
                    publish(recv, Some(OEnd::Reset(e)));
                    return false;
                }
                Rd::Deadline => {
                    if sh.finished.load(SeqCst) || Instant::now() >= end {
                        publish(recv, Some(OEnd::Open));
                        return false;
                    }
                }
            }
        }
        true
    };
    let write = |s: &mut TcpStream, data: &[u8]| -> bool {
        match s.write_all(data) {
            Ok(()) => {
                let before = !sh.stopped();
                sh.op(si, |p| {
                    p.b_wrote += data.len();
                    if before {
                        p.b_wrote_before_stop = p.b_wrote;
                    }
                });
                true
            }
            Err(e) => {
                sh.op(si, |p| p.b_write_err = Some(e.to_string()));
                false
            }
        }
    };
    if !read_to(&mut s, &mut recv, HELLO_LEN) {
        return;
    }
    if !write(&mut s, &olleh(si)) {
        publish(&recv, Some(OEnd::Reset("write failed".into())));
        return;
    }
    let half = up_wire.len() / 2;
    let target = HELLO_LEN + if o.phase == OPhase::BothWays { half } else { up_wire.len() };
    if !read_to(&mut s, &mut recv, target) {
        return;
    }
    publish(&recv, None);
    sh.op(si, |p| {
        if o.phase == OPhase::BothWays {
            p.b_first_part_at = Some(Instant::now());
        } else {
            p.b_recv_complete_at = Some(Instant::now());
        }
    });
    if matches!(o.phase, OPhase::ReplyPending | OPhase::BothWays) {
        if !sh.wait_stop(o.delay_ms as u64) {
            publish(&recv, Some(OEnd::Open));
            return;
        }
        if peer_closed(&s) {
            sh.op(si, |p| p.b_saw_end_before_reply = true);
            publish(&recv, Some(OEnd::Eof));
            return;
        }
    }
    sh.op(si, |p| p.b_last_write_started_at = Some(Instant::now()));
    let wrote = write(&mut s, &down_wire);
    // whatever else arrives, and how the session ends
    let end = Instant::now() + HARD_LIMIT;
    loop {
        match read_some(&mut s, &mut recv) {
            Rd::Got => {}
            Rd::Eof => {
                publish(&recv, Some(if wrote { OEnd::Eof } else { OEnd::Reset("write failed, then end of stream".into()) }));
                return;
            }
            Rd::Reset(e) => {
                publish(&recv, Some(OEnd::Reset(e)));
                return;
            }
            Rd::Deadline => {
                if sh.finished.load(SeqCst) || Instant::now() >= end {
                    publish(&recv, Some(OEnd::Open));
                    return;
                }
            }
        }
    }
}

fn serve_tcp_backend(mut s: TcpStream, sh: Arc<Shared>) {
    let mut buf = vec![];
    if read_until(&mut s, &mut buf, &sh, true, |b| b.len() >= HELLO_LEN).is_err() {
        if !buf.is_empty() {
            sh.probes_at_backend.lock().unwrap().push(format!("{} bytes at the TCP backend: {:?}", buf.len(), String::from_utf8_lossy(&buf)));
        }
        return;
    }
    let si = std::str::from_utf8(&buf[1..3]).ok().and_then(|t| t.parse::<usize>().ok());
    match si.and_then(|si| sh.sessions.get(si).map(|s| (si, s.clone()))) {
        Some((si, Session::Tcp(o))) if buf[..HELLO_LEN] == hello(si)[..] => opaque_backend(s, buf, si, &o, false, &sh),
        _ => sh.probes_at_backend.lock().unwrap().push(format!("{} bytes at the TCP backend: {:?}", buf.len(), String::from_utf8_lossy(&buf[..buf.len().min(40)]))),
    }
}

fn serve_ws_backend(mut s: TcpStream, sh: Arc<Shared>) {
    let mut buf = vec![];
    if read_until(&mut s, &mut buf, &sh, true, |b| head_end(b).is_some()).is_err() {
        return;
    }
    let he = head_end(&buf).unwrap();
    let head = buf[..he].to_vec();
    buf.drain(..he);
    let id = header_value(&head, "x-lab-req").and_then(|v| v.parse::<usize>().ok());
    let sess = id.and_then(|id| sh.sessions.get(id / 8).cloned().map(|s| (id, s)));
    let Some((id, Session::Ws { o, .. })) = sess else {
        sh.probes_at_backend.lock().unwrap().push(format!("http request {id:?} at the WebSocket backend"));
        let _ = s.write_all(b"HTTP/1.1 200 OK\r\nContent-Length: 5\r\n\r\nprobe");
        return;
    };
    let upgrade = header_value(&head, "upgrade");
    sh.bk(id, |e| {
        e.proto = "h1";
        e.times_seen += 1;
        e.head_at = Some(Instant::now());
        e.complete_at = Some(Instant::now());
        if upgrade.as_deref().map(|u| u.eq_ignore_ascii_case("websocket")) != Some(true) {
            e.body_mismatch = Some(format!("the upgrade request reached the backend with Upgrade: {upgrade:?}"));
        }
    });
    if o.phase == OPhase::UpgradePending && !sh.wait_stop(o.delay_ms as u64) {
        return;
    }
    sh.bk(id, |e| e.last_write_started_at = Some(Instant::now()));
    let resp = format!("HTTP/1.1 101 Switching Protocols\r\nUpgrade: websocket\r\nConnection: Upgrade\r\nSec-WebSocket-Accept: s3pPLMBiTxaQ9kYGzzhZRbK+xOo=\r\nx-lab-resp: {id}\r\n\r\n");
    if s.write_all(resp.as_bytes()).is_err() {
        return;
    }
    sh.bk(id, |e| e.written_at = Some(Instant::now()));
    opaque_backend(s, buf, id / 8, &o, true, &sh);
}

fn opaque_client(conn: &mut Conn, pre: Vec<u8>, si: usize, o: &Opaque, ws: bool, sh: &Arc<Shared>) {
    let (up_wire, down_wire) = opaque_wires(sh.seed, si, o, ws);
    let tls = conn.is_tls();
    let mut recv = pre;
    let finish = |recv: &Vec<u8>, end: OEnd| {
        sh.op(si, |p| {
            p.c_recv = recv.clone();
            p.c_end = Some((Instant::now(), end));
        })
    };
    let send = |conn: &mut Conn, data: &[u8]| -> Result<(), String> {
        conn.send(data).map_err(|e| e.to_string())?;
        let before = !sh.stopped();
        sh.op(si, |p| {
            p.c_wrote += data.len();
            if before {
                p.c_wrote_before_stop = p.c_wrote;
            }
        });
        Ok(())
    };
    // read until `target` bytes are in or `until()` says stop; Some(end) = the session ended / the wait is over
    let read_to = |conn: &mut Conn, recv: &mut Vec<u8>, target: usize, until: &dyn Fn() -> bool| -> Option<OEnd> {
        let mut tmp = vec![0u8; 65536];
        while recv.len() < target {
            match conn.read(&mut tmp) {
                Ok(0) => return Some(OEnd::Eof),
                Ok(n) => recv.extend_from_slice(&tmp[..n]),
                Err(e) if is_timeout(&e) => {
                    if until() {
                        return Some(OEnd::Open);
                    }
                }
                Err(e) if tls && e.kind() == std::io::ErrorKind::UnexpectedEof => return Some(OEnd::TlsTruncated),
                Err(e) => return Some(OEnd::Reset(e.to_string())),
            }
        }
        None
    };
    let t0 = Instant::now();
    let pre_stop = || sh.finished.load(SeqCst) || t0.elapsed() > Duration::from_secs(5);
    if let Err(e) = send(conn, &hello(si)) {
        return finish(&recv, OEnd::Reset(format!("write: {e}")));
    }
    if let Some(end) = read_to(conn, &mut recv, HELLO_LEN, &pre_stop) {
        return finish(&recv, end);
    }
    let half = up_wire.len() / 2;
    let sent = if o.phase == OPhase::BothWays {
        send(conn, &up_wire[..half]).and_then(|_| {
            sh.op(si, |p| p.c_staged = true);
            if !sh.wait_stop(o.client_delay_ms as u64) {
                return Err("the scenario ended".into());
            }
            send(conn, &up_wire[half..])
        })
    } else {
        let r = send(conn, &up_wire);
        sh.op(si, |p| p.c_staged = true);
        r
    };
    if let Err(e) = sent {
        // the bytes that did arrive are still read below
        sh.op(si, |p| p.c_fail = Some(format!("write: {e}")));
    }
    let total = HELLO_LEN + down_wire.len();
    let wait_ms = o.delay_ms.max(o.client_delay_ms) as u64 + 1500;
    let t1 = Instant::now();
    let until = || sh.finished.load(SeqCst) || t1.elapsed() > HARD_LIMIT || (o.phase != OPhase::Idle && sh.due(wait_ms)) || (o.phase == OPhase::Idle && !sh.stopped() && t1.elapsed() > Duration::from_secs(5));
    match read_to(conn, &mut recv, total, &until) {
        Some(end) => finish(&recv, end),
        None => {
            finish(&recv, OEnd::Complete);
            if o.phase == OPhase::Idle {
                // stay connected and silent; does the worker close the session?
                let over = || sh.finished.load(SeqCst) || t1.elapsed() > HARD_LIMIT * 2;
                let mut extra = vec![];
                let closed = !matches!(read_to(conn, &mut extra, usize::MAX, &over), Some(OEnd::Open));
                sh.op(si, |p| p.idle_closed = Some(closed));
            }
        }
    }
}

fn run_tcp_client(si: usize, addr: SocketAddr, sh: Arc<Shared>) {
    let Session::Tcp(o) = sh.sessions[si].clone() else { return };
    match Conn::open(addr, false, "") {
        Ok(mut c) => opaque_client(&mut c, vec![], si, &o, false, &sh),
        Err(e) => sh.op(si, |p| {
            p.c_fail = Some(e.clone());
            p.c_end = Some((Instant::now(), OEnd::Reset(e)));
        }),
    }
}

fn run_ws_client(si: usize, addr: SocketAddr, sh: Arc<Shared>) {
    let Session::Ws { tls, o } = sh.sessions[si].clone() else { return };
    let id = xid(si, 0);
    let fail = |why: String| {
        sh.cl(id, |c| {
            c.done_at = Some(Instant::now());
            c.end = Some(ClientEnd::Failed(why.clone()));
        });
        sh.op(si, |p| p.c_end = Some((Instant::now(), OEnd::Reset(why))));
    };
    let mut conn = match Conn::open(addr, tls, "ws.lab") {
        Ok(c) => c,
        Err(e) => return fail(format!("before the stop: {e}")),
    };
    let hs: Vec<(String, String)> = [("Host", "ws.lab"), ("Connection", "Upgrade"), ("Upgrade", "websocket"), ("Sec-WebSocket-Key", "dGhlIHNhbXBsZSBub25jZQ=="), ("Sec-WebSocket-Version", "13")]
        .iter()
        .map(|(n, v)| (n.to_string(), v.to_string()))
        .chain([("x-lab-req".to_string(), id.to_string())])
        .collect();
    if let Err(e) = conn.send(&h1::build_head(&format!("GET /ws{si} HTTP/1.1"), &hs)) {
        return fail(format!("sending the upgrade request: {e}"));
    }
    sh.cl(id, |c| c.staged = true);
    let mut c = H1Conn::new(conn);
    let out = c.next_message(Kind::Response { head_request: false }, Instant::now() + HARD_LIMIT);
    let now = Instant::now();
    match out {
        ReadOutcome::Message(m) => {
            let status = m.status().unwrap_or(0);
            let mismatch = (m.header("x-lab-resp") != Some(id.to_string().as_str())).then(|| format!("the response carries x-lab-resp {:?}, expected {id}", m.header("x-lab-resp")));
            sh.cl(id, |c| {
                c.first_byte_at = Some(now);
                c.done_at = Some(now);
                c.end = Some(ClientEnd::Complete { status, mismatch });
            });
            sh.op(si, |p| p.upgrade_status = Some(status));
            if status != 101 {
                sh.op(si, |p| p.c_end = Some((now, OEnd::Reset(format!("upgrade answered {status}")))));
                return;
            }
        }
        other => return fail(h1::describe(&other)),
    }
    let pre = c.pending().to_vec();
    let mut conn = c.r;
    opaque_client(&mut conn, pre, si, &o, true, &sh);
}

// ------------------------------------------------------------------ HTTP/1.1 client (plain or TLS)

/// Notes the arrival of the first byte; can stall reading after it.
struct Tap {
    c: Conn,
    sh: Arc<Shared>,
    id: usize,
    seen: bool,
    stall_ms: Option<u64>,
}

impl Read for Tap {
    fn read(&mut self, buf: &mut [u8]) -> std::io::Result<usize> {
        if self.seen {
            if let Some(ms) = self.stall_ms.take() {
                // (debugging aid) VP_C10_STALL_ABS: stall for that long from the first byte on, whatever the stop does
                if std::env::var_os("VP_C10_STALL_ABS").is_some() {
                    std::thread::sleep(Duration::from_millis(ms));
                } else {
                    self.sh.wait_stop(ms);
                }
            }
        }
        let n = self.c.read(buf)?;
        if n > 0 && !self.seen {
            self.seen = true;
            self.sh.cl(self.id, |c| c.first_byte_at = Some(Instant::now()));
        }
        Ok(n)
    }
}

fn run_h1_client(si: usize, addr: SocketAddr, sh: Arc<Shared>) {
    let Session::H1 { tls, warm, req: r } = sh.sessions[si].clone() else { return };
    let id = xid(si, 0);
    let host = "c0.lab";
    let fail = |why: String| {
        sh.cl(id, |c| {
            c.done_at = Some(Instant::now());
            c.end = Some(ClientEnd::Failed(why));
        })
    };
    let conn = match Conn::open(addr, tls, host) {
        Ok(c) => c,
        Err(e) => return fail(format!("before the stop: {e}")),
    };
    if r.phase == Phase::ClientStalled {
        lab::script::set_bufs(conn.sock(), None, Some(65536));
    }
    let body = content(req_seed(sh.seed, id), r.req_body);
    let mut hs: Vec<(String, String)> = vec![("Host".into(), host.into()), ("x-lab-req".into(), id.to_string())];
    if r.req_body > 0 {
        hs.push(("Content-Length".into(), r.req_body.to_string()));
    }
    if r.phase == Phase::Expect100 {
        hs.push(("Expect".into(), "100-continue".into()));
    }
    let head = h1::build_head(&format!("{} /r{id} HTTP/1.1", if r.req_body > 0 { "POST" } else { "GET" }), &hs);
    let stall_ms = if r.phase == Phase::ClientStalled { Some(r.delay_ms as u64) } else { None };
    let mut c = H1Conn::new(Tap { c: conn, sh: sh.clone(), id, seen: true, stall_ms: None });
    if warm {
        let hs: Vec<(String, String)> = vec![("Host".into(), host.into()), ("x-lab-req".into(), (WARM_BASE + id).to_string())];
        if let Err(e) = c.r.c.send(&h1::build_head("GET /warm HTTP/1.1", &hs)) {
            return fail(format!("sending the warm-up request before the stop: {e}"));
        }
        match c.next_message(Kind::Response { head_request: false }, Instant::now() + Duration::from_secs(4)) {
            ReadOutcome::Message(m) if m.status() == Some(200) && m.body == b"warm" && c.pending().is_empty() => {}
            other => return fail(format!("warm-up request before the stop: {}", h1::describe(&other))),
        }
    }
    c.r.seen = false;
    c.r.stall_ms = stall_ms;
    let wr: Result<(), String> = match r.phase {
        Phase::PartialBody => {
            let cut = (r.req_body * r.cut as usize / 256).min(r.req_body - 1);
            let mut first = head.clone();
            first.extend_from_slice(&body[..cut]);
            let w = c.r.c.send(&first).map_err(|e| e.to_string());
            sh.cl(id, |c| c.staged = true);
            w.and_then(|_| {
                sh.wait_stop(r.delay_ms as u64);
                c.r.c.send(&body[cut..]).map_err(|e| e.to_string())
            })
        }
        Phase::Expect100 => {
            let w = c.r.c.send(&head).map_err(|e| e.to_string());
            sh.cl(id, |c| c.staged = true);
            w.and_then(|_| match c.next_message(Kind::Response { head_request: false }, Instant::now() + HARD_LIMIT) {
                ReadOutcome::Message(m) if m.status() == Some(100) => c.r.c.send(&body).map_err(|e| e.to_string()),
                other => Err(format!("waiting for the interim 100 response: {}", h1::describe(&other))),
            })
        }
        _ => {
            let mut all = head.clone();
            all.extend_from_slice(&body);
            let w = c.r.c.send(&all).map_err(|e| e.to_string());
            sh.cl(id, |c| c.staged = true);
            w
        }
    };
    if let Err(e) = wr {
        return fail(format!("sending the request: {e}"));
    }
    let out = c.next_message(Kind::Response { head_request: false }, Instant::now() + HARD_LIMIT);
    let now = Instant::now();
    match out {
        ReadOutcome::Message(m) if m.end == h1::End::Clean => {
            let want = content(resp_seed(sh.seed, id), r.resp_body);
            let mut mismatch = first_mismatch(&m.body, &want).map(|off| format!("{} body bytes received, {} sent, first difference at offset {off}", m.body.len(), want.len()));
            if mismatch.is_none() && m.header("x-lab-resp") != Some(id.to_string().as_str()) {
                mismatch = Some(format!("the response carries x-lab-resp {:?}, expected {id}", m.header("x-lab-resp")));
            }
            let status = m.status().unwrap_or(0);
            sh.cl(id, |c| {
                c.done_at = Some(now);
                c.end = Some(ClientEnd::Complete { status, mismatch });
            });
        }
        other => return fail(h1::describe(&other)),
    }
    if r.phase == Phase::Idle {
        let end = Instant::now() + HARD_LIMIT * 2;
        let mut b = [0u8; 64];
        let closed = loop {
            match c.r.c.read(&mut b) {
                Ok(0) => break true,
                Ok(_) => break false,
                Err(e) if is_timeout(&e) => {
                    if sh.finished.load(SeqCst) || Instant::now() >= end {
                        break false;
                    }
                }
                Err(_) => break true,
            }
        };
        sh.cl(id, |c| c.idle_closed = Some(closed));
    }
}

// ------------------------------------------------------------------ HTTP/2 client

/// TLS stream of the HTTP/2 client whose reads do not depend on its writes: `StreamOwned::read` first tries to
/// flush pending TLS output and fails with the write error (EPIPE once sozu has closed and answered a late
/// WINDOW_UPDATE with RST) although response bytes and the final GOAWAY still wait in the receive queue.
struct TlsIo {
    conn: rustls::ClientConnection,
    sock: TcpStream,
    write_error: Option<String>,
}

impl TlsIo {
    fn flush_tls(&mut self) -> std::io::Result<()> {
        while self.conn.wants_write() {
            if let Err(e) = self.conn.write_tls(&mut self.sock) {
                if !is_timeout(&e) {
                    self.write_error.get_or_insert(e.to_string());
                }
                return Err(e);
            }
        }
        Ok(())
    }
}

impl Read for TlsIo {
    fn read(&mut self, buf: &mut [u8]) -> std::io::Result<usize> {
        loop {
            match self.conn.reader().read(buf) {
                Ok(n) => return Ok(n),
                Err(e) if e.kind() == std::io::ErrorKind::WouldBlock => {}
                Err(e) => return Err(e),
            }
            if self.write_error.is_none() {
                let _ = self.flush_tls();
            }
            match self.conn.read_tls(&mut self.sock) {
                Ok(0) => {
                    let _ = self.conn.process_new_packets();
                    return match self.conn.reader().read(buf) {
                        Err(e) if e.kind() == std::io::ErrorKind::WouldBlock => Err(std::io::ErrorKind::UnexpectedEof.into()),
                        other => other,
                    };
                }
                Ok(_) => {
                    self.conn.process_new_packets().map_err(|e| std::io::Error::new(std::io::ErrorKind::InvalidData, e.to_string()))?;
                }
                Err(e) => return Err(e),
            }
        }
    }
}

impl Write for TlsIo {
    fn write(&mut self, buf: &[u8]) -> std::io::Result<usize> {
        let n = self.conn.writer().write(buf)?;
        self.flush_tls()?;
        Ok(n)
    }
    fn flush(&mut self) -> std::io::Result<()> {
        self.flush_tls()
    }
}

type H2C = H2Conn<TlsIo>;

fn h2_open(addr: SocketAddr, host: &str, settings: Settings) -> Result<H2C, String> {
    let (tls, _) = h2::tls_connect(addr, host, &["h2"]).map_err(|e| format!("TLS connect: {e}"))?;
    if tls.conn.alpn_protocol() != Some(b"h2") {
        return Err(format!("ALPN negotiated {:?}, wanted h2", tls.conn.alpn_protocol().map(String::from_utf8_lossy)));
    }
    let _ = tls.sock.set_read_timeout(Some(Duration::from_millis(5)));
    let rustls::StreamOwned { conn, sock } = tls;
    let mut c = H2Conn::new(TlsIo { conn, sock, write_error: None }, false, settings);
    c.start().map_err(|e| format!("send preface: {e}"))?;
    let deadline = Instant::now() + Duration::from_secs(5);
    loop {
        match c.next_frame(deadline) {
            H2Event::Frame(f) if f.typ == h2::SETTINGS && f.flags & h2::F_ACK == 0 => break,
            H2Event::Frame(_) => {}
            H2Event::Timeout => {
                if Instant::now() >= deadline {
                    return Err("sozu sent no SETTINGS".into());
                }
            }
            other => return Err(format!("connection ended during the SETTINGS exchange: {other:?}")),
        }
    }
    c.replenish(0);
    Ok(c)
}

fn run_h2_client(si: usize, addr: SocketAddr, sh: Arc<Shared>) {
    let Session::H2 { h2c, streams, late_stream, client_closes } = sh.sessions[si].clone() else { return };
    let host = if h2c { "c1.lab" } else { "c0.lab" };
    let n = streams.len();
    let fail_open = |why: String| {
        for k in 0..n {
            sh.cl(xid(si, k), |c| {
                if c.end.is_none() {
                    c.done_at = Some(Instant::now());
                    c.end = Some(ClientEnd::Failed(why.clone()));
                }
            });
        }
    };
    // a stream in phase ClientStalled: the client grants 4000 bytes per stream and no more until `delay_ms` after the stop
    let stalled_until: Option<u64> = streams.iter().find(|r| r.phase == Phase::ClientStalled).map(|r| r.delay_ms as u64);
    let settings = if stalled_until.is_some() { Settings { initial_window_size: 4000, ..Settings::default() } } else { Settings::default() };
    let mut c = match h2_open(addr, host, settings) {
        Ok(c) => c,
        Err(e) => return fail_open(format!("before the stop: {e}")),
    };
    if stalled_until.is_some() {
        c.auto_window_update = false;
    }
    let req_headers = |id: usize, k: usize, body_len: usize| -> Vec<(String, String)> {
        let mut hs = vec![
            (":method".to_string(), if body_len > 0 { "POST" } else { "GET" }.to_string()),
            (":scheme".to_string(), "https".to_string()),
            (":authority".to_string(), host.to_string()),
            (":path".to_string(), format!("/s{si}/{k}")),
            ("x-lab-req".to_string(), id.to_string()),
        ];
        if body_len > 0 {
            hs.push(("content-length".to_string(), body_len.to_string()));
        }
        hs
    };
    // (stream id, index, rest of the body, delay after the stop)
    let mut rests: Vec<(u32, usize, Vec<u8>, u64)> = vec![];
    for (k, r) in streams.iter().enumerate() {
        let (sid, id) = (1 + 2 * k as u32, xid(si, k));
        let body = content(req_seed(sh.seed, id), r.req_body);
        let deadline = Instant::now() + Duration::from_secs(5);
        let res: Result<(), String> = if r.phase == Phase::PartialBody {
            let cut = (r.req_body * r.cut as usize / 256).min(r.req_body - 1);
            let w = c.send_headers(sid, &req_headers(id, k, body.len()), false, None).map_err(|e| e.to_string());
            let w = w.and_then(|_| if cut > 0 { c.send_body(sid, &body[..cut], &[], None, false, deadline) } else { Ok(()) });
            rests.push((sid, k, body[cut..].to_vec(), r.delay_ms as u64));
            w
        } else {
            let w = c.send_headers(sid, &req_headers(id, k, body.len()), body.is_empty(), None).map_err(|e| e.to_string());
            w.and_then(|_| if body.is_empty() { Ok(()) } else { c.send_body(sid, &body, &[], None, true, deadline) })
        };
        sh.cl(id, |c| c.staged = true);
        if let Err(e) = res {
            sh.cl(id, |c| {
                c.done_at = Some(Instant::now());
                c.end = Some(ClientEnd::Failed(format!("sending the request of stream {sid}: {e}")));
            });
        }
    }
    let mut saw = H2Saw::default();
    let mut finished: Vec<bool> = vec![false; n];
    let mut first_byte: Vec<bool> = vec![false; n];
    let mut late = LateSaw::default();
    let late_sid = 1 + 2 * n as u32;
    let mut all_done_at: Option<Instant> = None;
    let started = Instant::now();
    let finalize = |c: &H2C, sid: u32, id: usize, resp_body: usize, conn_end: Option<&str>| -> Option<ClientEnd> {
        let s = c.streams.get(&sid);
        let status = s.and_then(|s| h2::hdr(&s.headers, ":status")).and_then(|v| v.parse::<u16>().ok());
        match s {
            Some(s) if s.reset.is_some() => Some(ClientEnd::Failed(format!("stream {sid} reset by sozu with code {} after status {status:?} and {} body bytes", s.reset.unwrap(), s.body.len()))),
            Some(s) if s.end_stream => {
                let want = content(resp_seed(sh.seed, id), resp_body);
                let mut mismatch = first_mismatch(&s.body, &want).map(|off| format!("{} body bytes received, {} sent, first difference at offset {off}", s.body.len(), want.len()));
                if mismatch.is_none() && h2::hdr(&s.headers, "x-lab-resp").as_deref() != Some(id.to_string().as_str()) {
                    mismatch = Some(format!("the response carries x-lab-resp {:?}, expected {id}", h2::hdr(&s.headers, "x-lab-resp")));
                }
                Some(ClientEnd::Complete { status: status.unwrap_or(0), mismatch })
            }
            _ => conn_end.map(|how| ClientEnd::Failed(format!("the connection ended ({how}{}) with stream {sid} open: status {status:?}, {} body bytes, GOAWAY {:?}", c.last_io_error.as_ref().map(|e| format!(": {e}")).unwrap_or_default(), s.map(|s| s.body.len()).unwrap_or(0), c.goaway))),
        }
    };
    loop {
        let ev = c.next_frame(Instant::now() + Duration::from_millis(5));
        let now = Instant::now();
        let mut conn_end: Option<&'static str> = None;
        match ev {
            H2Event::Frame(f) => {
                if f.typ == h2::GOAWAY {
                    saw.goaways.push((now, f.u32_at(0).unwrap_or(0) & 0x7fff_ffff, f.u32_at(4).unwrap_or(0)));
                }
            }
            H2Event::Timeout => {}
            H2Event::Eof => conn_end = Some("eof"),
            H2Event::Reset => conn_end = Some("reset"),
        }
        if let Some(d) = stalled_until {
            if !c.auto_window_update && sh.due(d) {
                c.go_auto();
            }
        }
        c.replenish_open();
        for (k, r) in streams.iter().enumerate() {
            let (sid, id) = (1 + 2 * k as u32, xid(si, k));
            if !first_byte[k] && c.streams.get(&sid).map(|s| !s.body.is_empty()).unwrap_or(false) {
                first_byte[k] = true;
                sh.cl(id, |c| c.first_byte_at = Some(now));
            }
            if !finished[k] {
                if let Some(end) = finalize(&c, sid, id, r.resp_body, conn_end) {
                    finished[k] = true;
                    let got = c.streams.get(&sid).map(|s| s.body.len()).unwrap_or(0);
                    sh.cl(id, |c| {
                        c.got_body = got;
                        if c.end.is_none() {
                            c.done_at = Some(now);
                            c.end = Some(end);
                        }
                    });
                }
            }
        }
        if late.opened_at.is_some() && late.outcome.is_empty() {
            let id = xid(si, LATE);
            match finalize(&c, late_sid, id, 300, conn_end) {
                Some(ClientEnd::Complete { status, mismatch }) => {
                    late.outcome = format!("complete:{status}");
                    late.body_ok = mismatch.is_none();
                }
                Some(ClientEnd::Failed(_)) => {
                    let s = c.streams.get(&late_sid);
                    late.outcome = match s.and_then(|s| s.reset) {
                        Some(code) => format!("reset:{code}:{}", s.map(|s| s.headers_done as usize + s.body.len()).unwrap_or(0)),
                        None => "unanswered".to_string(),
                    };
                }
                None => {}
            }
        }
        if let Some(how) = conn_end {
            saw.ended = Some((now, how));
            break;
        }
        // the rest of the request bodies
        let mut i = 0;
        while i < rests.len() {
            if sh.due(rests[i].3) {
                let (sid, k, rest, _) = rests.remove(i);
                if !finished[k] {
                    if let Err(e) = c.send_body(sid, &rest, &[], None, true, Instant::now() + Duration::from_secs(6)) {
                        finished[k] = true;
                        sh.cl(xid(si, k), |c| {
                            if c.end.is_none() {
                                c.done_at = Some(Instant::now());
                                c.end = Some(ClientEnd::Failed(format!("sending the rest of the request body of stream {sid} after the stop: {e}")));
                            }
                        });
                    }
                }
            } else {
                i += 1;
            }
        }
        // one more stream once the stop is acknowledged
        if late_stream && late.opened_at.is_none() {
            if let Some(ack) = sh.ack_at.get() {
                if !saw.goaways.is_empty() || now > *ack + Duration::from_millis(200) {
                    late.opened_at = Some(now);
                    late.sid = late_sid;
                    let mut hs = req_headers(xid(si, LATE), LATE, 0);
                    hs[3].1 = format!("/s{si}/late");
                    if let Err(e) = c.send_headers(late_sid, &hs, true, None) {
                        late.outcome = format!("send-failed:{e}");
                    }
                }
            }
        }
        let late_over = !late_stream || !late.outcome.is_empty();
        if all_done_at.is_none() && finished.iter().all(|f| *f) && late_over && rests.is_empty() {
            all_done_at = Some(now);
        }
        if client_closes && !saw.goaways.is_empty() && all_done_at.map(|t| t.elapsed() > Duration::from_millis(20)).unwrap_or(false) {
            saw.ended = Some((now, "client-closed"));
            break;
        }
        if sh.finished.load(SeqCst) || started.elapsed() > HARD_LIMIT * 2 {
            saw.ended = Some((now, "open"));
            break;
        }
    }
    if late_stream {
        if late.opened_at.is_some() && late.outcome.is_empty() {
            late.outcome = "unanswered".into();
        }
        saw.late = Some(late);
    }
    saw.ledger = c.violations.iter().map(|v| v.what.clone()).collect();
    saw.frames_tail = c.log[c.log.len().saturating_sub(12)..].to_vec();
    sh.h2.lock().unwrap().insert(si, saw);
}

// ------------------------------------------------------------------ probes after the stop

#[derive(Debug)]
#[allow(dead_code)]
enum Probe {
    Refused(String),
    NoAnswer(String),
    Answered(String),
}

fn client_hello(sni: &str) -> Vec<u8> {
    let mut cfg = rustls::ClientConfig::builder_with_provider(Arc::new(rustls::crypto::ring::default_provider()))
        .with_safe_default_protocol_versions()
        .expect("protocol versions")
        .with_root_certificates(rustls::RootCertStore::empty())
        .with_no_client_auth();
    cfg.alpn_protocols = vec![b"h2".to_vec(), b"http/1.1".to_vec()];
    let name = rustls::pki_types::ServerName::try_from(sni.to_string()).expect("server name");
    let mut conn = rustls::ClientConnection::new(Arc::new(cfg), name).expect("client connection");
    let mut hello = vec![];
    while conn.wants_write() {
        if conn.write_tls(&mut hello).is_err() {
            break;
        }
    }
    hello
}

/// New connections to the three listeners: a request (HTTP), a ClientHello (HTTPS), a few bytes (TCP).
fn probe_listeners(http: SocketAddr, https: SocketAddr, tcp: SocketAddr) -> Vec<(&'static str, SocketAddr, Probe)> {
    let hs = vec![("Host".to_string(), "c0.lab".to_string()), ("x-lab-req".to_string(), PROBE_BASE.to_string())];
    let payloads: Vec<(&'static str, SocketAddr, Vec<u8>)> = vec![("http", http, h1::build_head("GET /probe HTTP/1.1", &hs)), ("tls", https, client_hello("c0.lab")), ("tcp", tcp, b"PROBE-after-the-stop\n".to_vec())];
    let open: Vec<(&'static str, SocketAddr, Result<TcpStream, String>)> = payloads
        .into_iter()
        .map(|(kind, a, bytes)| {
            let c = h1::connect(a, Duration::from_millis(500)).map_err(|e| e.to_string()).and_then(|mut s| {
                s.write_all(&bytes).map_err(|e| e.to_string())?;
                Ok(s)
            });
            (kind, a, c)
        })
        .collect();
    let deadline = Instant::now() + Duration::from_millis(350);
    open.into_iter()
        .map(|(kind, a, c)| {
            let p = match c {
                Err(e) => Probe::Refused(e),
                Ok(mut s) => {
                    let _ = s.set_read_timeout(Some(Duration::from_millis(20)));
                    let mut got = vec![];
                    let how = loop {
                        match read_some(&mut s, &mut got) {
                            Rd::Got => break "bytes",
                            Rd::Eof => break "closed",
                            Rd::Reset(_) => break "reset",
                            Rd::Deadline => {
                                if Instant::now() >= deadline {
                                    break "silence";
                                }
                            }
                        }
                    };
                    if got.is_empty() { Probe::NoAnswer(how.to_string()) } else { Probe::Answered(format!("{} bytes: {:?}", got.len(), engine::truncate(&String::from_utf8_lossy(&got), 80))) }
                }
            };
            (kind, a, p)
        })
        .collect()
}

fn sockname(fd: RawFd) -> Option<SocketAddr> {
    let mut ss: libc::sockaddr_storage = unsafe { std::mem::zeroed() };
    let mut len = std::mem::size_of::<libc::sockaddr_storage>() as libc::socklen_t;
    if unsafe { libc::getsockname(fd, &mut ss as *mut _ as *mut libc::sockaddr, &mut len) } != 0 {
        return None;
    }
    match ss.ss_family as i32 {
        libc::AF_INET => {
            let a = unsafe { *(&ss as *const _ as *const libc::sockaddr_in) };
            Some(SocketAddr::from((u32::from_be(a.sin_addr.s_addr).to_be_bytes(), u16::from_be(a.sin_port))))
        }
        _ => None,
    }
}

fn short_loc(msg: &str) -> String {
    let loc = msg.split("panicked at ").nth(1).unwrap_or(msg);
    let loc = loc.split(": ").next().unwrap_or(loc);
    let mut parts = loc.rsplit('/').next().unwrap_or(loc).split(':');
    format!("{}:{}", parts.next().unwrap_or("?"), parts.next().unwrap_or("?"))
}

// ------------------------------------------------------------------ set-up

/// Add and activate one listener (kind "http" / "tls" / "tcp") on a free port of this shard.
fn activate_listener(worker: &mut LabWorker, kind: &str) -> SocketAddr {
    let proxy: i32 = match kind {
        "http" => ListenerType::Http.into(),
        "tls" => ListenerType::Https.into(),
        _ => ListenerType::Tcp.into(),
    };
    let mut last = String::new();
    for _ in 0..6 {
        let addr = lab::free_addr();
        let mut b = match kind {
            "http" => ListenerBuilder::new_http(addr.into()),
            "tls" => ListenerBuilder::new_https(addr.into()),
            _ => ListenerBuilder::new_tcp(addr.into()),
        };
        b.with_front_timeout(Some(worker.lab.front_timeout)).with_back_timeout(Some(worker.lab.back_timeout)).with_connect_timeout(Some(worker.lab.connect_timeout));
        match kind {
            "http" => {
                b.with_request_timeout(Some(worker.lab.request_timeout));
                worker.must(RequestType::AddHttpListener(b.to_http(None).expect("http listener config")));
            }
            "tls" => {
                b.with_request_timeout(Some(worker.lab.request_timeout));
                let mut l = b.to_tls(None).expect("https listener config");
                l.certificate = Some(certs::LAB_CERT.to_string());
                l.key = Some(certs::LAB_KEY.to_string());
                l.alpn_protocols = vec!["h2".into(), "http/1.1".into()];
                l.h2_graceful_shutdown_deadline_seconds = Some(H2_GRACE_S as u32);
                worker.must(RequestType::AddHttpsListener(l));
                worker.must(RequestType::AddCertificate(AddCertificate {
                    address: addr.into(),
                    certificate: CertificateAndKey { certificate: certs::LAB_CERT.to_string(), certificate_chain: vec![], key: certs::LAB_KEY.to_string(), versions: vec![], names: vec![] },
                    expired_at: None,
                }));
            }
            _ => {
                worker.must(RequestType::AddTcpListener(b.to_tcp(None).expect("tcp listener config")));
            }
        }
        match worker.request(RequestType::ActivateListener(ActivateListener { address: addr.into(), proxy, from_scm: false })) {
            Ok(r) if r.status == ResponseStatus::Ok as i32 => return addr,
            Ok(r) if r.message.contains("in use") => {
                last = r.message;
                worker.must(RequestType::RemoveListener(RemoveListener { address: addr.into(), proxy }));
            }
            other => panic!("harness: could not activate the {kind} listener {addr}: {other:?}"),
        }
    }
    panic!("harness: no {kind} listener port could be bound in six attempts: {last}");
}

fn https_frontend(worker: &mut LabWorker, cluster: &str, addr: SocketAddr, host: &str) {
    worker.must(RequestType::AddHttpsFrontend(RequestHttpFrontend {
        cluster_id: Some(cluster.to_string()),
        address: addr.into(),
        hostname: host.to_string(),
        path: PathRule::prefix("/".to_string()),
        position: RulePosition::Tree.into(),
        ..Default::default()
    }));
}

struct Lab {
    worker: LabWorker,
    http: SocketAddr,
    https: SocketAddr,
    tcp: SocketAddr,
    backends: Vec<Acceptor>,
}

fn set_up(sh: &Arc<Shared>) -> Lab {
    // timeouts far above anything a scenario does (the longest wait is HARD_LIMIT): what ends a session here is the soft stop
    let cfg = LabConfig { front_timeout: 15, back_timeout: 15, request_timeout: 15, ..LabConfig::default() };
    let mut worker = LabWorker::start("c10b", cfg, Listeners::default(), &ConfigState::new());
    let http = activate_listener(&mut worker, "http");
    let https = activate_listener(&mut worker, "tls");
    let tcp = activate_listener(&mut worker, "tcp");
    let mut backends = vec![];
    let mut cluster = |worker: &mut LabWorker, name: &str, h2: bool, serve: fn(TcpStream, Arc<Shared>)| {
        let (addr, l) = lab::bound_listener();
        worker.add_cluster(name, |c| {
            if h2 {
                c.http2 = Some(true)
            }
        });
        worker.add_backend(name, &format!("{name}-0"), addr);
        let sh2 = sh.clone();
        backends.push(Acceptor::spawn(l, move |_i, s| serve(s, sh2.clone())));
    };
    cluster(&mut worker, "c0", false, serve_h1_backend);
    cluster(&mut worker, "c1", true, serve_h2c_backend);
    cluster(&mut worker, "cws", false, serve_ws_backend);
    cluster(&mut worker, "t0", false, serve_tcp_backend);
    for (c, host) in [("c0", "c0.lab"), ("c1", "c1.lab"), ("cws", "ws.lab")] {
        worker.add_http_frontend(c, http, host, "/");
        https_frontend(&mut worker, c, https, host);
    }
    worker.add_tcp_frontend("t0", tcp);
    Lab { worker, http, https, tcp, backends }
}

// ------------------------------------------------------------------ scenario

/// every HTTP exchange of the scenario: (exchange id, session, kind label, plan)
fn http_exchanges(sessions: &[Session]) -> Vec<(usize, usize, &'static str, Req)> {
    let mut v = vec![];
    for (si, s) in sessions.iter().enumerate() {
        match s {
            Session::H1 { req, .. } => v.push((xid(si, 0), si, s.kind(), req.clone())),
            Session::H2 { streams, .. } => {
                for (k, r) in streams.iter().enumerate() {
                    v.push((xid(si, k), si, "h2", r.clone()));
                }
            }
            _ => {}
        }
    }
    v
}

fn http_ready(phase: Phase, b: Option<&BackendSaw>, c: Option<&ClientSaw>) -> bool {
    match phase {
        Phase::PartialBody | Phase::Expect100 => c.map(|c| c.staged).unwrap_or(false) && b.map(|b| b.head_at.is_some()).unwrap_or(false),
        Phase::BackendWaiting => b.map(|b| b.complete_at.is_some()).unwrap_or(false),
        Phase::ResponseInProgress | Phase::ClientStalled => c.map(|c| c.first_byte_at.is_some()).unwrap_or(false),
        Phase::Idle => matches!(c.and_then(|c| c.end.as_ref()), Some(ClientEnd::Complete { .. })),
    }
}

fn opaque_ready(si: usize, o: &Opaque, b: &BTreeMap<usize, BackendSaw>, c: &BTreeMap<usize, ClientSaw>, p: Option<&OpaqueSaw>) -> bool {
    match o.phase {
        OPhase::ReplyPending => p.map(|p| p.c_staged && p.b_recv_complete_at.is_some()).unwrap_or(false),
        OPhase::BothWays => p.map(|p| p.c_staged && p.b_first_part_at.is_some()).unwrap_or(false),
        OPhase::Idle => p.map(|p| matches!(p.c_end, Some((_, OEnd::Complete)))).unwrap_or(false),
        OPhase::UpgradePending => c.get(&xid(si, 0)).map(|c| c.staged).unwrap_or(false) && b.get(&xid(si, 0)).map(|b| b.head_at.is_some()).unwrap_or(false),
    }
}

pub fn scenario(case: &Case) -> CheckResult {
    let mut rep = CaseReport::default();
    let mut sessions: Vec<Session> = case
        .sessions
        .iter()
        .take(6)
        .cloned()
        .map(|mut s| {
            if let Session::H2 { streams, .. } = &mut s {
                streams.truncate(3);
            }
            s
        })
        .collect();
    rep.excluded_known += exclude_known(&mut sessions, case.strict);
    let sessions = sessions;
    let sh = Arc::new(Shared {
        sessions: sessions.clone(),
        seed: case.seed,
        stop_at: OnceLock::new(),
        ack_at: OnceLock::new(),
        finished: AtomicBool::new(false),
        backend: Mutex::new(BTreeMap::new()),
        client: Mutex::new(BTreeMap::new()),
        h2: Mutex::new(BTreeMap::new()),
        opq: Mutex::new(BTreeMap::new()),
        probes_at_backend: Mutex::new(vec![]),
    });
    let Lab { mut worker, http, https, tcp, mut backends } = set_up(&sh);
    let finish = |sh: &Arc<Shared>, backends: &mut Vec<Acceptor>, clients: Vec<std::thread::JoinHandle<()>>| {
        sh.finished.store(true, SeqCst);
        for c in clients {
            let _ = c.join();
        }
        backends.clear();
    };
    let exchanges = http_exchanges(&sessions);

    // ---------------------------------------------------------------- sessions into their phases
    let mut clients = vec![];
    for (si, s) in sessions.iter().enumerate() {
        let sh2 = sh.clone();
        let f: Box<dyn FnOnce() + Send> = match s {
            Session::H1 { tls, .. } => {
                let a = if *tls { https } else { http };
                Box::new(move || run_h1_client(si, a, sh2))
            }
            Session::H2 { .. } => Box::new(move || run_h2_client(si, https, sh2)),
            Session::Tcp(_) => Box::new(move || run_tcp_client(si, tcp, sh2)),
            Session::Ws { tls, .. } => {
                let a = if *tls { https } else { http };
                Box::new(move || run_ws_client(si, a, sh2))
            }
        };
        clients.push(std::thread::Builder::new().name(format!("c10b-client-{si}")).spawn(f).expect("spawn client"));
    }
    let t0 = Instant::now();
    let staged: Result<(), (String, String)> = loop {
        let (b, c, o) = (sh.backend.lock().unwrap().clone(), sh.client.lock().unwrap().clone(), sh.opq.lock().unwrap().clone());
        let mut early: Option<(String, String)> = None;
        for (id, si, kind, r) in &exchanges {
            if let Some(cs) = c.get(id) {
                if (r.phase.in_flight() && cs.end.is_some()) || matches!(cs.end, Some(ClientEnd::Failed(_))) {
                    early = Some((format!("{kind}:{}", r.phase.label()), format!("exchange {id} of session {si}: {:?}", cs.end)));
                }
            }
        }
        for (si, s) in sessions.iter().enumerate() {
            if let Session::Tcp(op) | Session::Ws { o: op, .. } = s {
                if let Some(p) = o.get(&si) {
                    let ended = matches!(&p.c_end, Some((_, e)) if !(op.phase == OPhase::Idle && *e == OEnd::Complete));
                    if ended || p.c_fail.is_some() {
                        early = Some((format!("{}:{}", s.kind(), op.phase.label()), format!("session {si}: ended {:?}, failure {:?}, upgrade status {:?}", p.c_end.as_ref().map(|e| &e.1), p.c_fail, p.upgrade_status)));
                    }
                }
                if let Some(ClientEnd::Failed(why)) = c.get(&xid(si, 0)).and_then(|c| c.end.clone()) {
                    early = Some((format!("{}:{}", s.kind(), op.phase.label()), format!("session {si}: upgrade failed: {why}")));
                }
            }
        }
        if let Some(e) = early {
            break Err(e);
        }
        let not_ready: Vec<String> = exchanges
            .iter()
            .filter(|(id, _, _, r)| !http_ready(r.phase, b.get(id), c.get(id)))
            .map(|(id, _, kind, r)| format!("{kind}:{} (exchange {id})", r.phase.label()))
            .chain(sessions.iter().enumerate().filter_map(|(si, s)| match s {
                Session::Tcp(op) | Session::Ws { o: op, .. } if !opaque_ready(si, op, &b, &c, o.get(&si)) => Some(format!("{}:{} (session {si})", s.kind(), op.phase.label())),
                _ => None,
            }))
            .collect();
        if not_ready.is_empty() {
            break Ok(());
        }
        if t0.elapsed() > Duration::from_millis(5000) {
            let first = not_ready[0].split(' ').next().unwrap_or("?").to_string();
            break Err((first, format!("not in their phase within 5 s: {not_ready:?}")));
        }
        std::thread::sleep(Duration::from_millis(1));
    };
    if let Err((label, what)) = staged {
        finish(&sh, &mut backends, clients);
        let alive = worker.alive();
        if !alive {
            if let Err(p) = worker.join() {
                fail!(format!("C10/worker-panicked:{}", short_loc(&p)), "before any stop command: {p}");
            }
        }
        fail!(format!("C10/before-stop:{label}"), "a session never got into its phase although no stop command had been sent: {what} (worker alive: {alive}); sessions {:?}", sessions);
    }

    // ---------------------------------------------------------------- the stop
    let mut owned: Vec<std::net::TcpListener> = vec![];
    let expected_addrs: Vec<(SocketAddr, &str)> = vec![(http, "http"), (https, "tls"), (tcp, "tcp")];
    if case.handover {
        let _ = worker.scm_main.set_blocking(false);
        match worker.request(RequestType::ReturnListenSockets(ReturnListenSockets {})) {
            Ok(r) if r.status == ResponseStatus::Ok as i32 => {}
            other => {
                finish(&sh, &mut backends, clients);
                fail!("C10/return-listen-sockets-failed", "ReturnListenSockets with 3 listeners and {} sessions in flight: {:?}", sessions.len(), other.map(|r| (r.status, r.message)));
            }
        }
        let t = Instant::now();
        let got = loop {
            match worker.scm_main.receive_listeners() {
                Ok(l) => break Ok(l),
                Err(e) if t.elapsed() > Duration::from_secs(2) => break Err(format!("{e:?}")),
                Err(_) => std::thread::sleep(Duration::from_millis(5)),
            }
        };
        let got = match got {
            Ok(l) => l,
            Err(e) => {
                finish(&sh, &mut backends, clients);
                fail!("C10/returned-sockets-not-received", "ReturnListenSockets was answered Ok but no listener set could be read from the SCM socket within 2 s: {e}");
            }
        };
        let mut received: Vec<(SocketAddr, &str, RawFd)> = vec![];
        for (kind, list) in [("http", &got.http), ("tls", &got.tls), ("tcp", &got.tcp), ("udp", &got.udp)] {
            for (a, fd) in list {
                received.push((*a, kind, *fd));
            }
        }
        let mut verdict: Result<(), Failure> = Ok(());
        for (a, kind) in &expected_addrs {
            match received.iter().find(|(ra, rk, _)| ra == a && rk == kind) {
                None => {
                    verdict = verdict.and(Err(Failure::new(
                        format!("C10/listener-lost:{kind}"),
                        format!("the {kind} listener {a} was active in the worker but did not come out of the SCM socket; received: {:?}", received.iter().map(|(a, k, _)| format!("{k} {a}")).collect::<Vec<_>>()),
                    )));
                }
                Some((_, _, fd)) => {
                    if sockname(*fd) != Some(*a) {
                        verdict = verdict.and(Err(Failure::new("C10/listener-not-bound-to-its-address", format!("the descriptor handed over for the {kind} listener {a} is bound to {:?}", sockname(*fd)))));
                    }
                }
            }
        }
        if received.len() != expected_addrs.len() && verdict.is_ok() {
            verdict = Err(Failure::new("C10/listener-count", format!("{} listeners were active, {} came out of the SCM socket: {:?}", expected_addrs.len(), received.len(), received)));
        }
        for (_, _, fd) in &received {
            let l = unsafe { std::net::TcpListener::from_raw_fd(*fd) };
            let _ = l.set_nonblocking(true);
            owned.push(l);
        }
        if verdict.is_ok() {
            for (a, kind) in &expected_addrs {
                let l = owned.iter().find(|l| l.local_addr().ok() == Some(*a)).expect("checked above");
                let c = match h1::connect(*a, Duration::from_millis(500)) {
                    Ok(c) => c,
                    Err(e) => {
                        verdict = Err(Failure::new("C10/handed-over-listener-refuses", format!("after the hand-over, a connection to the {kind} listener {a} fails: {e}")));
                        break;
                    }
                };
                let me = c.local_addr().ok();
                let t = Instant::now();
                let mut found = false;
                while t.elapsed() < Duration::from_millis(500) && !found {
                    match l.accept() {
                        Ok((_s, peer)) => found = Some(peer) == me,
                        Err(_) => std::thread::sleep(Duration::from_millis(2)),
                    }
                }
                if !found {
                    verdict = Err(Failure::new("C10/handed-over-listener-does-not-accept", format!("the descriptor received for the {kind} listener {a} does not deliver a connection made to that address")));
                    break;
                }
                rep.inner_evaluations += 1;
            }
        }
        if let Err(f) = verdict {
            finish(&sh, &mut backends, clients);
            return Err(f);
        }
        std::thread::sleep(Duration::from_millis(case.gap_ms as u64));
    }

    // (debugging aid) VP_C10_STOP_DELAY_MS: let the sessions run on for that long before the stop
    if let Some(ms) = std::env::var("VP_C10_STOP_DELAY_MS").ok().and_then(|v| v.parse::<u64>().ok()) {
        std::thread::sleep(Duration::from_millis(ms));
    }
    let stop_id = worker.fresh_id();
    if let Err(e) = worker.send_with_id(&stop_id, RequestType::SoftStop(SoftStop {}).into()) {
        finish(&sh, &mut backends, clients);
        panic!("harness: could not write SoftStop: {e:?}");
    }
    let stop_at = Instant::now();
    let _ = sh.stop_at.set(stop_at);

    let grace = Duration::from_secs(H2_GRACE_S) + EXIT_MARGIN;
    let mut processing = 0usize;
    let mut finals: Vec<(Instant, i32, String)> = vec![];
    let mut exited_at: Option<Instant> = None;
    let mut prober: Option<std::thread::JoinHandle<Vec<(&'static str, SocketAddr, Probe)>>> = None;
    let mut clients_done_at: Option<Instant> = None;
    let opaque_sessions: Vec<usize> = sessions.iter().enumerate().filter(|(_, s)| matches!(s, Session::Tcp(_) | Session::Ws { .. })).map(|(i, _)| i).collect();
    let ws_pending: Vec<usize> = sessions.iter().enumerate().filter(|(_, s)| matches!(s, Session::Ws { o, .. } if o.phase == OPhase::UpgradePending)).map(|(i, _)| xid(i, 0)).collect();
    loop {
        match worker.channel.read_message_blocking_timeout(Some(Duration::from_millis(20))) {
            Ok(r) => {
                let now = Instant::now();
                if r.id == stop_id {
                    let _ = sh.ack_at.set(now);
                    if r.status == ResponseStatus::Processing as i32 {
                        processing += 1;
                    } else {
                        finals.push((now, r.status, r.message.clone()));
                    }
                    if prober.is_none() {
                        prober = Some(std::thread::spawn(move || probe_listeners(http, https, tcp)));
                    }
                }
            }
            Err(_) => {
                if !worker.alive() {
                    std::thread::sleep(Duration::from_millis(2));
                }
            }
        }
        if exited_at.is_none() && !worker.alive() {
            exited_at = Some(Instant::now());
        }
        if clients_done_at.is_none() {
            let c = sh.client.lock().unwrap();
            let o = sh.opq.lock().unwrap();
            let http_done = exchanges.iter().all(|(id, ..)| c.get(id).map(|c| c.end.is_some()).unwrap_or(false)) && ws_pending.iter().all(|id| c.get(id).map(|c| c.end.is_some()).unwrap_or(false));
            let opaque_done = opaque_sessions.iter().all(|si| o.get(si).map(|p| p.c_end.is_some()).unwrap_or(false));
            if http_done && opaque_done {
                let last = c.values().filter_map(|c| c.done_at).chain(o.values().filter_map(|p| p.c_end.as_ref().map(|e| e.0))).max().unwrap_or(stop_at).max(stop_at);
                clients_done_at = Some(last);
            }
        }
        match (exited_at, clients_done_at) {
            (Some(e), Some(_)) if e.elapsed() > Duration::from_millis(60) => break,
            (None, Some(d)) if d.elapsed() > grace + Duration::from_millis(300) => break,
            _ => {}
        }
        if stop_at.elapsed() > Duration::from_secs(20) {
            break;
        }
    }
    while let Ok(r) = worker.channel.read_message_blocking_timeout(Some(Duration::from_millis(10))) {
        if r.id == stop_id {
            if r.status == ResponseStatus::Processing as i32 {
                processing += 1;
            } else {
                finals.push((Instant::now(), r.status, r.message.clone()));
            }
        }
    }
    let probes = match prober {
        Some(p) => p.join().unwrap_or_default(),
        None => vec![],
    };
    let worker_end = if worker.alive() { None } else { Some(worker.join()) };
    finish(&sh, &mut backends, clients);
    let csaw = sh.client.lock().unwrap().clone();
    let bsaw = sh.backend.lock().unwrap().clone();
    let hsaw = sh.h2.lock().unwrap().clone();
    let osaw = sh.opq.lock().unwrap().clone();
    drop(owned);
    verdict(case, &sessions, &exchanges, Observed { stop_at, processing, finals, exited_at, clients_done_at, probes, worker_end, csaw, bsaw, hsaw, osaw, probes_at_backend: sh.probes_at_backend.lock().unwrap().clone(), stop_id }, rep)
}

struct Observed {
    stop_at: Instant,
    processing: usize,
    finals: Vec<(Instant, i32, String)>,
    exited_at: Option<Instant>,
    clients_done_at: Option<Instant>,
    probes: Vec<(&'static str, SocketAddr, Probe)>,
    worker_end: Option<Result<bool, String>>,
    csaw: BTreeMap<usize, ClientSaw>,
    bsaw: BTreeMap<usize, BackendSaw>,
    hsaw: BTreeMap<usize, H2Saw>,
    osaw: BTreeMap<usize, OpaqueSaw>,
    probes_at_backend: Vec<String>,
    stop_id: String,
}

fn is_prefix(got: &[u8], of: &[u8]) -> Option<usize> {
    if got.len() <= of.len() && of[..got.len()] == *got { None } else { Some(first_mismatch(got, &of[..got.len().min(of.len())]).unwrap_or(of.len())) }
}

fn verdict(case: &Case, sessions: &[Session], exchanges: &[(usize, usize, &'static str, Req)], o: Observed, mut rep: CaseReport) -> CheckResult {
    let stop_at = o.stop_at;
    let ms = |t: Instant| t.saturating_duration_since(stop_at).as_millis();
    let how = if case.handover { "ReturnListenSockets + SoftStop" } else { "SoftStop" };
    // (5) no panic
    if let Some(Err(p)) = &o.worker_end {
        fail!(format!("C10/worker-panicked:{}", short_loc(p)), "after {how}: {p}; sessions {sessions:?}");
    }
    let summary = format!(
        "{how}; worker final answers {:?} after {} processing notices, worker exited {:?} ms after the stop; all sessions {:?}",
        o.finals.iter().map(|(t, s, _)| (ms(*t), *s)).collect::<Vec<_>>(),
        o.processing,
        o.exited_at.map(ms),
        sessions.iter().map(|s| match s {
            Session::H1 { req, .. } => format!("{}:{}", s.kind(), req.phase.label()),
            Session::H2 { streams, h2c, .. } => format!("h2{}:{}", if *h2c { "->h2c" } else { "->h1" }, streams.iter().map(|r| r.phase.label()).collect::<Vec<_>>().join("+")),
            Session::Tcp(op) | Session::Ws { o: op, .. } => format!("{}:{}", s.kind(), op.phase.label()),
        }).collect::<Vec<_>>()
    );
    let h2_ctx = |si: usize| -> String {
        match o.hsaw.get(&si) {
            Some(h) => format!(
                "; HTTP/2 connection: GOAWAY frames (ms after the stop, last stream id, code) {:?}, connection end {:?}, last frames received (type, flags, stream, length) {:?}",
                h.goaways.iter().map(|g| (ms(g.0), g.1, g.2)).collect::<Vec<_>>(),
                h.ended.map(|e| (ms(e.0), e.1)),
                h.frames_tail
            ),
            None => String::new(),
        }
    };
    // (1) every request / stream in flight completes, byte-exact
    for (id, si, kind, r) in exchanges {
        let c = o.csaw.get(id).cloned().unwrap_or_default();
        let b = o.bsaw.get(id).cloned().unwrap_or_default();
        let label = format!("{kind}:{}", r.phase.label());
        let ctx = format!(
            "exchange {id} (session {si}, {kind}{}) in phase {} at the stop (request body {}, response body {}{}, delay {} ms); backend ({}): head {}, complete {}, cut {:?}, began its last write {:?} ms after the stop{}; {summary}",
            if *kind == "h2" { format!(", stream {}", 1 + 2 * (id % 8)) } else { String::new() },
            r.phase.label(),
            r.req_body,
            r.resp_body,
            if r.chunked_resp { " chunked" } else { "" },
            r.delay_ms,
            b.proto,
            b.head_at.is_some(),
            b.complete_at.is_some(),
            b.cut,
            b.last_write_started_at.map(ms),
            if *kind == "h2" { h2_ctx(*si) } else { String::new() }
        );
        match &c.end {
            None => fail!(format!("C10/request-unfinished:{label}"), "the client got neither a response nor an end of connection within {} s: {ctx}", HARD_LIMIT.as_secs()),
            Some(ClientEnd::Failed(why)) => {
                let h = o.hsaw.get(si);
                let sig = if h.map(|h| h.late.as_ref().map(|l| l.outcome.starts_with("reset")).unwrap_or(false) && matches!(h.ended, Some((_, "eof" | "reset")))).unwrap_or(false) {
                    "C10/h2-connection-closed-after-refusing-new-stream".to_string()
                } else if *kind == "h2" && r.phase == Phase::PartialBody && h.map(|h| h.goaways.iter().any(|g| g.2 == h2::STREAM_CLOSED)).unwrap_or(false) {
                    "C10/h2-request-body-refused-after-goaway".to_string()
                } else if *kind == "h2" && r.phase == Phase::PartialBody && b.head_at.is_some() && b.complete_at.is_none() && c.got_body == 0 && c.done_at.map(ms).unwrap_or(0) >= 4_500 {
                    // the rest of the body was sent, sozu held the stream until the graceful deadline cut the connection
                    "C10/h2-request-body-stalls-after-goaway".to_string()
                } else if *kind == "h2" && (65_535..r.resp_body).contains(&c.got_body) && c.got_body < 65_535 + 16_384 && h.map(|h| h.goaways.iter().all(|g| g.2 == 0)).unwrap_or(false) {
                    "C10/h2-response-stalls-at-exhausted-window".to_string()
                } else if *kind == "tlsh1" && r.phase == Phase::ClientStalled && c.first_byte_at.is_some() && why.contains("Truncated") {
                    "C10/response-stalls-after-stop:tlsh1:client_stalled".to_string()
                } else {
                    format!("C10/request-cut:{label}")
                };
                fail!(sig, "the client did not get its complete response: {why} ({} ms after the stop): {ctx}", c.done_at.map(ms).unwrap_or(0))
            }
            Some(ClientEnd::Complete { status, mismatch }) => {
                if *status != 200 {
                    fail!(format!("C10/request-not-served:{label}:{status}"), "the client got status {status} instead of the backend's 200: {ctx}");
                }
                if let Some(m) = mismatch {
                    fail!(format!("C10/response-bytes:{label}"), "{m}: {ctx}");
                }
            }
        }
        if let Some(m) = &b.body_mismatch {
            fail!(format!("C10/request-bytes:{label}"), "{m}: {ctx}");
        }
        if b.times_seen != 1 {
            fail!(format!("C10/request-seen-{}-times", b.times_seen), "the backends saw the request {} times: {ctx}", b.times_seen);
        }
        let want_proto = match &sessions[*si] {
            Session::H2 { h2c: true, .. } => "h2c",
            _ => "h1",
        };
        if b.proto != want_proto {
            fail!("C10/wrong-backend", "the request reached the {} backend, its cluster's backend is {want_proto}: {ctx}", b.proto);
        }
    }
    // HTTP/2 connections: a GOAWAY before the connection goes; the stream opened after the acknowledgement
    for (si, s) in sessions.iter().enumerate() {
        let Session::H2 { streams, late_stream, .. } = s else { continue };
        let Some(h) = o.hsaw.get(&si) else { panic!("harness: the HTTP/2 client of session {si} left no record") };
        let open_at_stop = streams.iter().any(|r| r.phase.in_flight());
        if open_at_stop && h.goaways.is_empty() {
            fail!("C10/h2-no-goaway", "an HTTP/2 connection with streams open at the stop never received a GOAWAY frame (streams {:?}){}; {summary}", streams.iter().map(|r| r.phase.label()).collect::<Vec<_>>(), h2_ctx(si));
        }
        rep.class_if(!open_at_stop && h.goaways.is_empty(), "h2_idle_connection_closed_without_goaway");
        rep.class_if(!open_at_stop && !h.goaways.is_empty(), "h2_idle_connection_got_goaway");
        rep.class_if(h.goaways.iter().any(|g| g.1 == 0x7fff_ffff), "h2_initial_goaway_max_stream_id");
        rep.class_if(h.goaways.len() >= 2, "h2_two_goaways");
        rep.class_if(h.goaways.iter().any(|g| g.2 != 0), "h2_goaway_with_error_code");
        rep.class_if(!h.ledger.is_empty(), "h2_ledger_complaints");
        match h.ended {
            Some((_, "eof")) => rep.class("h2_connection_closed_by_worker"),
            Some((_, "reset")) => rep.class("h2_connection_reset_by_worker"),
            Some((_, "client-closed")) => rep.class("h2_connection_closed_by_client_after_goaway"),
            _ => rep.class("h2_connection_left_open"),
        }
        if open_at_stop {
            // (measured, not judged) did the GOAWAY come before the last in-flight stream ended?
            let last_stream_end = (0..streams.len()).filter(|k| streams[*k].phase.in_flight()).filter_map(|k| o.csaw.get(&xid(si, k)).and_then(|c| c.done_at)).max();
            if let (Some(g), Some(e)) = (h.goaways.first(), last_stream_end) {
                rep.class(if g.0 <= e { "h2_goaway_before_last_stream_end" } else { "h2_goaway_after_last_stream_end" });
            }
        }
        if let (true, Some(l)) = (*late_stream, &h.late) {
            if l.opened_at.is_some() {
                let b = o.bsaw.get(&xid(si, LATE)).cloned().unwrap_or_default();
                let announced = h.goaways.iter().map(|g| g.1).min();
                let ctx = format!("stream {} opened {:?} ms after the stop (after the acknowledgement): outcome {:?}, reached a backend: {}, backend wrote its response: {}{}; {summary}", l.sid, l.opened_at.map(ms), l.outcome, b.head_at.is_some(), b.written_at.is_some(), h2_ctx(si));
                let parts: Vec<&str> = l.outcome.split(':').collect();
                match parts[0] {
                    "complete" if parts.get(1) == Some(&"200") => {
                        if !l.body_ok {
                            fail!("C10/h2-late-stream:response-bytes", "the response to a stream opened after the acknowledgement is not what the backend sent: {ctx}");
                        }
                        rep.class("h2_late_stream_served");
                    }
                    "complete" => rep.class(format!("h2_late_stream_answered_{}", parts.get(1).unwrap_or(&"?"))),
                    "reset" => {
                        if b.head_at.is_some() {
                            fail!("C10/h2-late-stream:cut-after-reaching-backend", "a stream opened after the acknowledgement was passed to a backend and then reset: {ctx}");
                        }
                        rep.class(if parts.get(1) == Some(&"7") { "h2_late_stream_refused" } else { "h2_late_stream_reset_other_code" });
                    }
                    "unanswered" => {
                        if b.head_at.is_some() {
                            fail!("C10/h2-late-stream:cut-after-reaching-backend", "a stream opened after the acknowledgement was passed to a backend and never answered: {ctx}");
                        }
                        rep.class(if announced.map(|a| a < l.sid).unwrap_or(false) { "h2_late_stream_above_last_stream_id" } else { "h2_late_stream_unanswered_not_disowned" });
                    }
                    _ => rep.class("h2_late_stream_not_sent"),
                }
            }
        }
    }
    // opaque sessions
    for (si, s) in sessions.iter().enumerate() {
        let (op, ws) = match s {
            Session::Tcp(op) => (op, false),
            Session::Ws { o: op, .. } => (op, true),
            _ => continue,
        };
        let kind = s.kind();
        let p = o.osaw.get(&si).cloned().unwrap_or_default();
        let (up_wire, down_wire) = opaque_wires(case.seed, si, op, ws);
        let c_all: Vec<u8> = hello(si).into_iter().chain(up_wire).collect();
        let b_all: Vec<u8> = olleh(si).into_iter().chain(down_wire).collect();
        let ctx = format!(
            "session {si} ({kind}, {} at the stop, message {} bytes, answer {} bytes {} ms after the stop): client wrote {} bytes ({} before the stop), received {} of {}, its end {:?}, failure {:?}; backend: {} connections, received {} of {}, wrote {} ({} before the stop), write error {:?}, saw the end before answering: {}, its end {:?}; {summary}",
            op.phase.label(),
            op.up,
            op.down,
            op.delay_ms,
            p.c_wrote,
            p.c_wrote_before_stop,
            p.c_recv.len(),
            b_all.len(),
            p.c_end.as_ref().map(|e| (ms(e.0), e.1.clone())),
            p.c_fail,
            p.b_conns,
            p.b_recv.len(),
            c_all.len(),
            p.b_wrote,
            p.b_wrote_before_stop,
            p.b_write_err,
            p.b_saw_end_before_reply,
            p.b_end
        );
        if op.phase == OPhase::UpgradePending {
            let id = xid(si, 0);
            let c = o.csaw.get(&id).cloned().unwrap_or_default();
            let b = o.bsaw.get(&id).cloned().unwrap_or_default();
            let label = format!("{kind}:upgrade_pending");
            match &c.end {
                None => fail!(format!("C10/request-unfinished:{label}"), "the upgrade request in flight at the stop got neither a response nor an end of connection (backend wrote its 101: {}): {ctx}", b.written_at.is_some()),
                Some(ClientEnd::Failed(why)) => fail!(format!("C10/request-cut:{label}"), "the upgrade request in flight at the stop did not get the backend's 101 (backend wrote it: {}): {why}: {ctx}", b.written_at.is_some()),
                Some(ClientEnd::Complete { status, mismatch }) => {
                    if *status != 101 {
                        fail!(format!("C10/request-not-served:{label}:{status}"), "the upgrade request in flight at the stop was answered {status} instead of the backend's 101: {ctx}");
                    }
                    if let Some(m) = mismatch {
                        fail!(format!("C10/response-bytes:{label}"), "{m}: {ctx}");
                    }
                }
            }
        }
        if let Some(off) = is_prefix(&p.b_recv, &c_all) {
            fail!(format!("C10/opaque-bytes:{kind}:to-backend"), "the backend received bytes that are not a prefix of what the client sent (first difference at offset {off}): {ctx}");
        }
        if let Some(off) = is_prefix(&p.c_recv, &b_all) {
            fail!(format!("C10/opaque-bytes:{kind}:to-client"), "the client received bytes that are not a prefix of what the backend sent (first difference at offset {off}): {ctx}");
        }
        let c_end = p.c_end.as_ref().map(|e| e.1.clone());
        if c_end == Some(OEnd::Eof) && p.b_end == Some(OEnd::Eof) && p.b_write_err.is_none() && (p.b_recv.len() < p.c_wrote_before_stop || p.c_recv.len() < p.b_wrote_before_stop) {
            fail!(
                format!("C10/opaque-bytes-lost-under-clean-close:{kind}"),
                "both peers saw an orderly end of the session, yet bytes written before the SoftStop command was sent did not arrive: {ctx}"
            );
        }
        if op.phase != OPhase::Idle {
            rep.class(match &c_end {
                Some(OEnd::Complete) => format!("{kind}_relayed_after_stop"),
                Some(OEnd::Eof) => format!("{kind}_client_saw_orderly_end"),
                Some(OEnd::TlsTruncated) => format!("{kind}_client_saw_tcp_end_without_close_notify"),
                Some(OEnd::Reset(_)) => format!("{kind}_client_saw_reset"),
                _ => format!("{kind}_left_open"),
            });
            rep.class(match &p.b_end {
                Some(OEnd::Eof) if p.b_saw_end_before_reply => format!("{kind}_backend_saw_end_before_answering"),
                Some(OEnd::Eof) => format!("{kind}_backend_saw_orderly_end"),
                Some(OEnd::Reset(_)) => format!("{kind}_backend_saw_reset"),
                _ => format!("{kind}_backend_left_open"),
            });
        } else {
            rep.class_if(p.idle_closed == Some(true), &format!("{kind}_idle_session_closed_by_worker"));
            rep.class_if(p.idle_closed == Some(false), &format!("{kind}_idle_session_kept"));
        }
    }
    // (2) exactly one final Ok, not before the last in-flight response
    let in_flight_ids: Vec<usize> = exchanges.iter().filter(|(_, _, _, r)| r.phase.in_flight()).map(|(id, ..)| *id).chain(sessions.iter().enumerate().filter(|(_, s)| matches!(s, Session::Ws { o, .. } if o.phase == OPhase::UpgradePending)).map(|(si, _)| xid(si, 0))).collect();
    let last_done = in_flight_ids.iter().filter_map(|i| o.csaw.get(i).and_then(|c| c.done_at)).max();
    let last_piece = in_flight_ids.iter().filter_map(|i| o.bsaw.get(i).and_then(|b| b.last_write_started_at)).max();
    let describe_finals = || o.finals.iter().map(|(t, s, m)| format!("status {s} {m:?} at {} ms", ms(*t))).collect::<Vec<_>>();
    let stop_id = &o.stop_id;
    if o.finals.is_empty() {
        if o.worker_end.is_some() {
            fail!("C10/no-final-answer", "the worker thread ended {:?} ms after the stop without a final answer to SoftStop {stop_id} ({} processing notices); {summary}", o.exited_at.map(ms), o.processing);
        }
        fail!(
            "C10/softstop-never-finishes",
            "SoftStop {stop_id}: {} processing notices, no final answer and the worker still runs {} ms after the last session ended (graceful deadline {H2_GRACE_S} s); HTTP/2 connections: {:?}; {summary}",
            o.processing,
            o.clients_done_at.map(|d| d.elapsed().as_millis()).unwrap_or(0),
            o.hsaw.iter().map(|(si, h)| (*si, h.goaways.iter().map(|g| (ms(g.0), g.1, g.2)).collect::<Vec<_>>(), h.ended.map(|e| (ms(e.0), e.1)))).collect::<Vec<_>>()
        );
    }
    if o.finals.len() != 1 {
        fail!("C10/final-answers", "SoftStop {stop_id} got {} final answers: {:?}", o.finals.len(), describe_finals());
    }
    if o.finals[0].1 != ResponseStatus::Ok as i32 {
        fail!("C10/softstop-failed", "SoftStop {stop_id} was answered {:?}", describe_finals());
    }
    let ok_at = o.finals[0].0;
    if let Some(last) = last_piece {
        if ok_at < last {
            fail!(
                "C10/ok-before-last-response",
                "the final OK to SoftStop arrived {} ms after the stop, but a backend only began to write the last piece of an in-flight response {} ms after the stop; per exchange (id, began its last write at, client had the response at): {:?}; {summary}",
                ms(ok_at),
                ms(last),
                in_flight_ids.iter().map(|i| (*i, o.bsaw.get(i).and_then(|b| b.last_write_started_at).map(ms), o.csaw.get(i).and_then(|c| c.done_at).map(ms))).collect::<Vec<_>>()
            );
        }
    }
    let ok_lead_ms = last_done.map(|l| l.saturating_duration_since(ok_at).as_millis()).unwrap_or(0);
    // (3) the worker ends
    let grace = Duration::from_secs(H2_GRACE_S) + EXIT_MARGIN;
    let Some(reference) = o.clients_done_at else { fail!("C10/sessions-unfinished", "a session of the scenario never ended on its client's side within 20 s of the stop; {summary}") };
    match o.exited_at {
        None => fail!("C10/worker-still-running", "the final OK came {} ms after the stop, the worker thread still runs {} ms after the last session ended; {summary}", ms(ok_at), reference.elapsed().as_millis()),
        Some(e) if e > reference + grace => fail!("C10/worker-exit-late", "the worker thread ended {} ms after the stop, the last session had ended at {} ms (graceful deadline {H2_GRACE_S} s); {summary}", ms(e), ms(reference)),
        _ => {}
    }
    // (4) nothing new is served once the stop is acknowledged
    for (kind, a, p) in &o.probes {
        match p {
            Probe::Answered(what) => fail!(format!("C10/served-after-stop:{kind}"), "a connection made to the {kind} listener {a} after the worker acknowledged SoftStop{} was answered: {what}", if case.handover { " (and had handed that listener over)" } else { "" }),
            Probe::Refused(e) if case.handover => fail!("C10/handed-over-listener-refuses", "after the hand-over and the SoftStop of the old worker, a connection to {a} fails ({e}) although the harness holds the listening descriptor"),
            _ => {}
        }
    }
    if !o.probes_at_backend.is_empty() {
        fail!("C10/served-after-stop:backend", "connections made after the stop was acknowledged were relayed to a backend: {:?}", o.probes_at_backend);
    }

    // ---------------------------------------------------------------- measurement
    let in_flight = sessions.iter().filter(|s| s.in_flight()).count();
    rep.nontrivial = in_flight >= 1;
    let mut labels: Vec<String> = vec![];
    for s in sessions {
        match s {
            Session::H1 { req, warm, .. } => {
                labels.push(format!("{}_{}", s.kind(), req.phase.label()));
                labels.push(format!("session_{}", s.kind()));
                if *warm && req.phase.in_flight() {
                    labels.push("in_flight_on_reused_keepalive_connection".into());
                }
            }
            Session::H2 { streams, h2c, late_stream, client_closes } => {
                labels.push("session_h2".into());
                labels.push(if *h2c { "h2_backend_h2c".into() } else { "h2_backend_h1".into() });
                for r in streams {
                    labels.push(format!("h2_{}", r.phase.label()));
                }
                let open = streams.iter().filter(|r| r.phase.in_flight()).count();
                labels.push(if open == 0 { "h2_idle_connection".into() } else { format!("h2_{open}_open_streams") });
                if open >= 2 {
                    labels.push("h2_2+_open_streams".into());
                }
                if *late_stream {
                    labels.push("h2_late_stream".into());
                }
                labels.push(if *client_closes { "h2_client_closes_after_goaway".into() } else { "h2_client_waits_for_worker".into() });
            }
            Session::Tcp(op) | Session::Ws { o: op, .. } => {
                labels.push(format!("session_{}", s.kind()));
                labels.push(format!("{}_{}", s.kind(), op.phase.label()));
            }
        }
    }
    labels.sort();
    labels.dedup();
    for l in labels {
        rep.class(l);
    }
    let kinds: std::collections::BTreeSet<&str> = sessions.iter().map(|s| s.kind()).collect();
    rep.class_if(kinds.len() >= 2, "2+_session_kinds");
    rep.class_if(kinds.len() >= 3, "3+_session_kinds");
    rep.class(if case.handover { "handover" } else { "softstop_only" });
    rep.class_if(in_flight >= 2, "2+_sessions_in_flight");
    rep.class_if(in_flight >= 4, "4+_sessions_in_flight");
    rep.class_if(o.processing > 0, "processing_notices");
    rep.class_if(ok_lead_ms > 50, "final_ok_50ms_before_client_had_last_byte");
    rep.class_if(o.probes.iter().any(|(_, _, p)| matches!(p, Probe::Refused(_))), "new_connection_refused");
    rep.class_if(o.probes.iter().any(|(_, _, p)| matches!(p, Probe::NoAnswer(_))), "new_connection_unanswered");
    rep.class_if(o.csaw.values().any(|c| c.idle_closed == Some(true)), "idle_keepalive_closed_by_worker");
    rep.class_if(last_done.map(|l| l > stop_at + Duration::from_millis(400)).unwrap_or(false), "drain_longer_than_400ms");
    rep.class_if(o.exited_at.zip(o.clients_done_at).map(|(e, d)| e > d + Duration::from_millis(1000)).unwrap_or(false), "worker_exit_1s_after_last_session");
    rep.inner_evaluations += exchanges.len() as u64 + o.probes.len() as u64 + sessions.len() as u64;
    // one count per scenario and class
    rep.classes.sort();
    rep.classes.dedup();
    Ok(rep)
}

pub fn rule() -> &'static str {
    "one fresh live worker per scenario with an HTTP listener, an HTTPS listener (ALPN h2 + http/1.1, h2_graceful_shutdown_deadline_seconds = 5, sozu's default) and a TCP listener, all bound by the worker; clusters c0 (HTTP/1.1 mock backend), c1 (h2c mock backend), cws (HTTP/1.1 mock backend answering 101, then relaying opaque bytes), t0 (TCP relay backend); front/back/request timeouts 15 s, above anything a scenario does. 1..6 sessions of generated kinds, each brought into its phase and observed there before the stop: (H2) an HTTP/2 connection (TLS) toward c0 or c1 with 1..3 streams, each: HEADERS without END_STREAM and a part of the body sent, rest 0..300 ms after the stop [excluded, known finding]; request complete and the backend answering 100..800 ms after the stop; response head and first piece at the client, the other pieces over 200..900 ms after the stop; stream finished (all finished: idle connection); a stream alone on its connection whose whole response (4100..13100 bytes) the HTTP/1.1 backend has written (`Connection: close`, then it closes) while the client grants 4000 bytes of stream window and no more until 50..600 ms after the stop (the rest waits in sozu, the backend is done); optionally one more stream opened as soon as the stop is acknowledged (its HEADERS cross the GOAWAY), and the client either closes once it holds a GOAWAY and has no open stream or waits for sozu; (TLS-H1 / H1) an HTTP/1.1 connection on the HTTPS or the plain listener in the phases of `softstop` (part of the body sent, backend waiting, response in progress, Expect: 100-continue, idle keep-alive, client stalled under a 6..12 MB response [HTTPS: excluded, known finding]), 30% second on their connection; (TCP) a session through the TCP listener after a first exchange: the client's message (2..40000 bytes) at the backend which answers 100..800 ms after the stop, or half of it at the backend, the other half 0..300 ms and the answer 100..800 ms after the stop (bytes under way in both directions), or idle; (WS / WSS) an HTTP/1.1 connection (plain or TLS) upgraded with 101 and exchanging WebSocket frames in the same three shapes, or the upgrade request itself at the backend which answers 101 100..800 ms after the stop. Then SoftStop, or (35%) ReturnListenSockets + receive_listeners + SoftStop. Oracle: (1) every HTTP/1.1 request, HTTP/2 stream and upgrade request in flight at the stop gets the backend's status (200 / 101) and exact body, HTTP/2 with END_STREAM and no RST_STREAM; the backend got the exact request body once, on its cluster's backend; delays stay below 1 s, far inside the 5 s graceful deadline, so the deadline never excuses a cut; (1b) an HTTP/2 connection with a stream open at the stop receives at least one GOAWAY before it ends (for an idle connection both a GOAWAY and a bare close are admitted; whether the GOAWAY precedes the end of the last stream is measured, not judged); (1c) the stream opened after the acknowledgement may be served (then 200 and exact body), answered by another status, refused (RST_STREAM, any code, before it reached a backend), or left unanswered if it never reached a backend; once it reached a backend it must not be reset or dropped; (2) SoftStop: 0..n Processing, exactly one final Ok, not read before the last backend began to write the last piece of an in-flight HTTP response; (3) the worker thread ends within graceful deadline + 2 s of the moment the last session ended on its client's side (clients of opaque sessions hang up by themselves at most 1.5 s after the last scheduled byte); (4) after the first acknowledgement a new connection to any of the three listeners is refused or gets no byte back (HTTP request, TLS ClientHello, TCP bytes) and nothing of it reaches a backend; with a hand-over the three listeners come out of the SCM socket with their kind and address, accept, and are never refused; (5) no worker panic. (6) Opaque sessions (TCP, upgraded connections): the property speaks of requests, an opaque byte stream has none, and sozu documents that such a session is closed at once by a soft stop: closing it at the stop and relaying on are both admitted, as are FIN, RST or a TLS end without close_notify toward the client; demanded is only that each peer receives an exact prefix of what the other sent (nothing altered, duplicated or reordered) and that, when both peers see an orderly end (FIN / close_notify, no reset, no write error), every byte a peer had written before the SoftStop command was sent has arrived at the other (bytes written later may meet a session already closed and prove nothing). How each side saw the end is recorded as classes. A failure is re-run twice on fresh workers and reported only if it reproduces (else flaky_unconfirmed). Non-trivial: at least one session had an unfinished request / stream / pending answer when the stop was acknowledged."
}

/// child-process entry: run this shard's scenarios
pub fn child(args: &Args, total: u64) -> Stats {
    lab::init_ports(args.shard.map(|s| s.0).unwrap_or(0));
    let flaky = std::cell::Cell::new(0u64);
    let check = |case: &Case| -> CheckResult {
        let first = scenario(case);
        let Err(f) = first else { return first };
        for _ in 0..2 {
            if let Err(f2) = scenario(case) {
                return Err(if f2.signature == f.signature { f2 } else { f });
            }
        }
        flaky.set(flaky.get() + 1);
        engine::note_flaky("C10", &f, &serde_json::to_string(case).unwrap_or_default());
        let mut rep = CaseReport::default();
        rep.class("flaky_unconfirmed");
        Ok(rep)
    };
    let mut st = engine::run_lab_shard(args, "C10", SUB, total, strategy(), check, 24);
    st.flaky_unconfirmed += flaky.get();
    st
}
