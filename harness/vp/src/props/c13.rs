//! C13 — not implemented yet (stub).
use crate::engine::Args;

pub fn run(_args: &Args) -> i32 {
    println!("INCONCLUSIVE: C13 has no check yet");
    2
}
